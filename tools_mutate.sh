#!/bin/bash
# exclusive lock on /repo for the whole run (checks started by others wait)
if [ "${VERIF_LOCK_HELD:-0}" != "1" ]; then exec env VERIF_LOCK_HELD=1 flock /tmp/verif_repo.lock "$0" "$@"; fi
# usage: tools_mutate.sh <check-id> <sed-expr> <file-in-repo>   -- applies, runs baseline tests + quick check, reverts
set -u
ID=$1; EXPR=$2; FILE=$3
cd /repo && git diff --quiet || { echo "repo dirty"; exit 9; }
sed -i "$EXPR" "$FILE"
if git diff --quiet; then echo "MUTATION DID NOT APPLY"; exit 8; fi
git diff | grep '^[-+]' | grep -v '^+++\|^---' | head -6
if [ "${SKIP_BASELINE:-0}" != "1" ]; then
  cargo nextest run --workspace --no-fail-fast --tool-config-file pb:/w/lib/nextest.toml --profile pb --test-threads 8 --offline 2>&1 | grep -E "Summary|error\[" | head -3
fi
cd /verif && for id in $ID; do ./check $id --tier quick 2>&1 | grep -E "^VIOLATION|tier=|MACHINERY|KNOWN" | head -4; done
cd /repo && git checkout -- .
