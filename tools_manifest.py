#!/usr/bin/env python3
"""Regenerates MANIFEST.json from the table below (single source of truth for claimed checks)."""
import json, os
ROOT = os.path.dirname(os.path.abspath(__file__))
ALL = ["C%02d" % i for i in range(1, 20)]
NOT_BUILT = "check not built yet (work in progress; design in DESIGN.md §4)"
CHECKS = {
 "C01": dict(cat="exploration", tech="bounded-exhaustive enumeration of documents (all byte pairs, sharp k-tuples, token-adjacency triples, small object trees, f32 bit patterns, id/version/mark menus) + explicit-state closure under save/load cycles, on the real code, both xref formats, both reader builds",
   text="Every document of the stated finite spaces is saved and loaded by the real library and compared structurally with the in-memory original; the spaces are chosen so that every lexer/separator branch and every pair interaction visible in writer.rs/parser is inside the bound. Not a proof for unbounded documents.",
   note="trusts the harness comparison rules of DESIGN §2.6 (integral Real may return as Integer; xref bookkeeping ignored); object numbers <= 3,000,000; nesting depth <= 64"),
 "C03": dict(cat="exploration", tech="bounded-exhaustive enumeration of documents x xref formats x plain/incremental save chains; every produced file is read by an independent strict reader with byte-coverage accounting",
   text="Each file written by Document::save_to / IncrementalDocument::save_to over the enumerated document space must be accepted by a strict ISO 32000 reader that follows only header, startxref, cross-reference sections, offsets and lengths, accounts for every byte, and recovers the saved objects.",
   note="trusts the strict reader in harness/src/strict.rs (written from ISO 32000-1 7.2-7.5, no lopdf parser code); documents in the C01 domain"),
 "C02": dict(cat="exploration", tech="deviation-bounded exhaustive exploration of an independent reference PDF writer's choice points (choice recorder): 0 deviations, every single deviation at every choice point, pairs at class level; strict-reader self-check then lopdf load vs abstract document",
   text="Every syntactic freedom of the reference writer is a recorded choice point; all executions with <=1 deviation (instance level) and <=2 deviations (class level; quick runs a seed-rotated quarter of the pairs) over 32 abstract documents are generated, validated by the strict reader and loaded by lopdf, which must return exactly the abstract document.",
   note="trusts the reference writer (harness/src/refpdf.rs) and strict reader as readings of ISO 32000-1 7.2-7.5; hybrid-reference files and freed objects excluded as in the property"),
 "C04": dict(cat="exploration", tech="exhaustive 1-edit (and 2-edit token-level) mutation neighbourhoods of ~45 small seeds + parametric adversarial families at every arithmetic/allocation/recursion site, nine byte-level entry points, isolated worker processes with time/stack/allocation budgets, lopdf built with overflow checks",
   text="Every mutant of the stated edit operators at every position of every seed, and every member of the adversarial families, is fed to the real entry point in a worker process; the outcome must be a return (value or error) within 2 s + 1 s/64 KiB, 8 MiB stacks and 64*len+16 MiB per allocation request. Panics, aborts, stack overflows, hangs and oversized requests are violations, confirmed in a fresh worker before being reported. All byte strings cannot be exhausted: the claim is for the enumerated neighbourhoods and families.",
   note="budgets are harness thresholds (DESIGN §2.5); seeds come from the reference writer, lopdf's writer and the repository assets"),
 "C05": dict(cat="model_checking", tech="explicit-state BFS (depth 4) over the protocol {encrypt, save+load, decrypt(user), decrypt(owner), decrypt(wrong1), decrypt(wrong2)} on cloned real Documents from every (document x handler configuration x password pair x permission set x xref format) start tuple, abstract state tracked next to the real one",
   text="For every start tuple of the menus (6 documents x 57 handler configurations x 9 password pairs x permission sets x 2 formats) all transition sequences to depth 4 are executed on the real code; in every state the invariants of the statement are checked: ciphertext differs from plaintext for every >=16-byte non-identity leaf, decrypt with user or owner password restores every string and stream byte for byte and removes the encryption dictionary, a wrong password is rejected and leaves the document unchanged, reloads behave consistently.",
   note="states are deduplicated on the abstract state (sound because the invariants pin the real document to it up to random IVs/salts); R6 tuples are thinned in quick because of their cost; non-Latin R<=4 passwords hit the open finding nonlatin-password-collapse"),
 "C06": dict(cat="exploration", tech="bounded-exhaustive differential testing against an independent ISO 32000 security handler (harness/src/refcrypt.rs): lopdf encrypts -> reference authenticates and decrypts; reference encrypts (enumerated salts/IVs) -> lopdf authenticates and decrypts; deterministic fields compared for equality, randomised fields validated",
   text="Over the configuration menus (revisions 2-6, all 12 V2 key lengths, RC4/AESV2/AESV3/Identity per strings and streams, EncryptMetadata, permission words, file identifiers of length 0/16/32, 11 password pairs incl. empty owner) every case is run in both directions and the plaintext must be recovered by the other side; O, U (R2), U[0..16] (R3-4), file key and P must be equal to the reference's, R5/R6 U/O/UE/OE/Perms must validate.",
   note="the reference handler is only as independent as the harness's reading of ISO 32000-1/-2; its primitives are self-tested against FIPS/RFC vectors; no third-party PDF tool exists in the sandbox to arbitrate"),
 "C07": dict(cat="model_checking", tech="explicit-state enumeration of all revision histories up to depth k (tree of history prefixes), two producers: independent reference writer (Prev-chained tables/streams, object streams) and IncrementalDocument replay; every node loaded by the real reader against the model 'newest definition wins'",
   text="All histories of <=2 (quick) / <=3 (thorough) revisions over 3 bases x 24/48 revision kinds x xref styles: the complete file of every history prefix is loaded and must yield, per object number, the newest definition; IncrementalDocument saves must keep the previous bytes as prefix, append only changed objects with a section whose Prev is the previous startxref (checked by the strict reader), leave the previous view untouched and reload to the model.",
   note="trusts reference writer + strict reader; schedule pinned through hook H1 (Sorted) so the verdict cannot depend on thread timing; no freed objects; hybrid-reference files only as a base revision (producer H)"),
 "C08": dict(cat="model_checking", tech="stateless exhaustive schedule enumeration on the real Reader through merge-order hook H1: all k! x z! completion orders of the object-stream blocks and zero-length list per file; differential against the sequential (no-default-features) build",
   text="For every generated file (up to 4/6 object-stream containers with duplicated object numbers, listed or unlisted in the cross-reference data, deferred-length and empty streams) every completion order of the parallel phase is forced through the hook and the canonical digest of the loaded document must be identical for all orders and equal to the sequential build's.",
   note="rests on the argument (DESIGN §3) that the two mutex-protected appends are the only schedule-visible actions; free-running loads on pools of 1..16 threads are supplementary sampling and labelled so"),
 "C09": dict(cat="exploration", tech="bounded-exhaustive enumeration with reference encoders as generators: all 2^24 predictor byte triples per PNG filter type and bpp, all small frame geometries x filter assignments, all ASCII85 inputs of length <=3 (+ stratified/all 4-byte groups), LZW width-switch and reset boundaries, all 39 filter chains; explicit-state BFS over compress/decompress/set_content operations",
   text="Reference encoders written from the PNG, LZW/TIFF, Adobe ASCII85 and zlib definitions produce the encoded stream from known plain data; lopdf's decode path must return the original bytes for every case of the stated spaces; a BFS over stream-editing operations checks Length == content length, lossless compress/decompress and that compress never grows a stream in every reachable state.",
   note="trusts harness/src/refcodec.rs (self-tested on every run against published vectors and flate2's inflater); TIFF predictor 2 and BitsPerComponent < 8 are outside the statement"),
 "C10": dict(cat="exploration", tech="bounded-exhaustive enumeration of small tagged reference graphs (all number subsets, all role assignments, all page-id permutations, shared/cyclic/dangling references, bookmarks) x start values; the renaming bijection is recovered from immutable tags",
   text="For every enumerated document x bookmark list x start value the real renumber_objects / renumber_objects_with is run; new numbers must be exactly start..start+n-1 with generations kept and max_id the last, trailer and every reachable object must equal the original under the recovered one-to-one renaming, bookmark targets and page order must follow it, and dangling references must keep resolving to nothing.",
   note="a dangling reference may also come back as null (equivalent per ISO 32000 7.3.10); graphs have <=4/5 objects plus full page-tree families"),
 "C11": dict(cat="model_checking", tech="explicit-state breadth-first search over sequences of ~40 editing-operation instances from 5 start documents (one with sparse numbering and dangling references) on the real Document next to an abstract model, states deduplicated by canonical digest, 8 invariants evaluated after every transition",
   text="Every operation sequence up to depth 3 (quick) / 4 (thorough) over the alphabet {allocate id, add, set, delete object, remove annotation, prune, delete pages, renumber, compress/decompress, add/change/append page content, add xobject / graphics state, bookmarks + build_outline, delete zero-length streams, save+reload in both formats} is executed on the real code; fresh ids, preservation of reachable objects outside the documented footprint, no dangling reference after deletion, exact pruning, page-tree Counts, page content vs the model, effective (own or inherited) resources and save validity (strict reader + reload) are checked in every state.",
   note="trusts the harness's own reachability, page-tree walk and isomorphism routines; delete_object is applied only to non-structural objects, set_object only outside the page tree's closure (domain of the statement)"),
 "C12": dict(cat="exploration", tech="bounded-exhaustive enumeration of all ordered page trees with <=7/8 nodes x leaf typings x direct/indirect Kids x id orders, depth chains at the documented limit, and every single malformed mutation of every tree with <=5/6 nodes; Count-extreme cases in rlimited child processes",
   text="page_iter() and get_pages() must equal the harness's own depth-first leaf list numbered 1..n on every valid tree; on every malformed variant the iterator must finish within objects.len()+1 calls, yield only existing /Type /Page dictionaries and never panic, abort or allocate by untrusted counts.",
   note="'valid' means at most 256 pending sibling lists (the code's documented limit); beyond that only termination and type-safety are required"),
 "C13": dict(cat="exploration", tech="deviation-bounded exhaustive typed-chaos exploration: every dictionary entry / array element / object of a query-complete skeleton document x 44 value shapes (kinds, extremes, malformed strings, long strings, reference chains of 126..200 hops) + a reference to every object (all link cycles), pairs in thorough; all 22 read-only query groups per case in isolated worker processes with time, stack and allocation budgets",
   text="Each mutant document is built in a worker process and every public read-only query is called; the outcome must be a return (value or error) within 2 s, 8 MiB stacks and the allocation allowance; panics, aborts (stack overflow), hangs and oversized allocation requests are violations, pinpointed per query and replayed in a fresh worker.",
   note="the skeleton fixes which keys exist; keys the query code reads that the skeleton lacks are listed in the evidence; budgets are thresholds chosen by the harness (DESIGN §2.5)"),
 "C14": dict(cat="exploration", tech="bounded-exhaustive enumeration of content operations: all byte pairs + sharp k-tuples in string/name operands (6 contexts), 153 operators x all operand tuples of length <=3 over 14 kinds, all operand trees <=3 nodes, all operation sequences of length <=2/<=3 over an 84-entry adjacency menu, stratified reals, 960 inline-image geometries x data strings",
   text="decode(encode(ops)) must return the same operators with equal operands in order for every enumerated operation list (each unit alone and inside batches with neighbours); for inline images decode(encode(decode(bytes))) == decode(bytes) and decode(bytes) is the image that was built.",
   note="operator spellings starting with null/true/false and d0/d1 are outside the parser's documented alphabet (domain restriction recorded in the evidence); inline image data longer than 3-4 bytes comes from a pattern menu"),
 "C15": dict(cat="exploration", tech="bounded-exhaustive enumeration of ToUnicode CMaps: all sequences of <=2/<=3 definitions from a 170-entry menu x deviation-bounded rendering choices (white-space, line ends, sectioning, hex case) x all single codes and ordered code pairs, against reference 'last definition wins' semantics",
   text="Every CMap of the stated space is rendered to real CMap text, parsed by lopdf through get_font_encoding and decoded with Document::decode_text for every mapped code and every ordered pair of codes; the text must equal the reference semantics (last covering definition wins, range offset added to the last UTF-16 unit, arrays indexed, surrogates combined).",
   note="trusts harness/src/refcmap.rs; 'liberal' PostScript spellings that lopdf's grammar rejects are counted separately and only a mis-decode (not a rejection) would be a violation; code lengths 3-4 spot-checked"),
 "C16": dict(cat="exploration", tech="exhaustive enumeration of all 1,112,064 Unicode scalar values and all strings <=3/<=5 over a 14-character sharp alphabet through text_string/encode_utf16_be/encode_utf8 -> decode_text_string; all 5 x 256 one-byte table cells against published tables; extraction documents per table byte before/after save+load",
   text="Every scalar value and every short sharp string must round-trip through the text-string functions with the documented encoded form; every cell of the five one-byte encodings reachable through get_font_encoding decodes, re-encodes consistently and agrees with the published WinAnsi/MacRoman/PDFDoc tables on printable ASCII and Latin-1; text shown with each byte of each table's repertoire is returned unchanged by extract_text, also after save+load in both formats.",
   note="cells whose published value differs between glyph-name and code-page conventions are excluded and listed in the evidence; extraction pairs are a seed-rotated slice in quick"),
 "C17": dict(cat="exploration", tech="bounded-exhaustive enumeration of bookmark forests (all ordered forests with <=3/<=4 nodes x all parent-before-child insertion orders x page assignments incl. zero-page parents x rotating title menu), oracle on the built outline objects and on get_toc before/after save+load",
   text="Every forest/insertion order/page assignment of the bound is built through add_bookmark, adjust_zero_pages and build_outline; created ids must be fresh, First/Last/Next/Prev/Parent links mutually consistent with insertion order, titles and destinations correct, and get_toc must return the preorder (title, level, page) list, also after save+load in both formats; each case runs twice to show independence from HashMap iteration order.",
   note="titles are assigned by rotation over a 10-entry menu (distinct per case), not the full product; flat page tree"),
 "C18": dict(cat="exploration", tech="exhaustive enumeration of all 2,879 minute-precision UTC offsets x instant menu x backends x ordered backend pairs against an integer-arithmetic reference formatter; one child process per offset for chrono Local (TZ)",
   text="All offsets -23:59..+23:59 x 12 instants x 5 writer types x 3 reader types: the produced string must equal the reference formatting, all backends agree, parsing returns the same instant (and offset where kept); the specification's short forms must parse.",
   note="trusts harness/src/refdate.rs (self-checked against published epoch anchors and a day-by-day walk); instants are a menu, offsets exhaustive"),
 "C19": dict(cat="fault_enumeration", tech="exhaustive fault enumeration: every byte offset of the output as failure point x failure kinds, every write-call index as Interrupted, chunkings, on the real save path with a scripted io::Write",
   text="For each document configuration every failure position (all byte offsets) x {persistent error, Ok(0), transient error} and every single-Interrupted placement and chunking is executed on the real save_to; Err must be returned, delivered bytes must be a prefix of the healthy output, bytes must not depend on chunking, a later save must be valid (strict reader + loader).",
   note="the scripted sink models prefix-then-fail, fail-once and short-write behaviours; documents are a small menu (bounded), not all documents"),
}

# families added after the seeded-change rounds (DESIGN 10.4); appended to the technique text
EXTRA = {
 "C01": "every run starts from a non-initial reader state (130 rejected loads on every thread); sequences of <= 4/5 saves and edits on one Document value; the two double-rounding hard reals; more version strings",
 "C02": "every file also through load_from (short reads), IncrementalDocument loaders and the path-taking loaders incl. load_filtered (entry-point agreement); a 300-object document whose compressed object stream exceeds 32 KiB; 3- and 4-revision documents; object streams ending with their last token, keyword-last documents, a plain-storage 300-object document",
 "C03": "Document::save(path) over fresh and existing longer files; incremental chains on a base file written by the reference writer; same-Document resave sequences; 2^16 / 2^24 offset-width boundary files; full save of every loaded multi-revision file",
 "C04": "18 encrypted seeds whose empty user password authenticates (decryption on load); every mutant of a classic-table file also in a structure-aware form with repaired cross-reference offsets; degenerate CMaps; rayon default worker stacks; ends of u64/u32 among the integer extremes; language-escape text strings",
 "C05": "transition 'encrypt with the kept state'; nesting ladders with a string at every depth to 127 (loadable) / 1100 (in memory); 8 shapes of the trailer ID; 16 Crypt-parameter shapes (array form, absent); CF with more filters than StmF/StrF name x per-stream overrides; 34 special-looking key names x string formats; long non-Latin passwords through authenticate_*",
 "C06": "direction K (kept state re-encoded and re-encrypted, every field compared with the first protection); ID shapes, nesting ladders, Crypt-parameter array forms; boundary salts of Algorithm 2.B; passwords straddling byte 127; extra crypt filters and the CF name map in all directions; key names and signature dictionaries",
 "C07": "entry-point agreement on every history file; producer L (front-placed cross-reference section); member-order variants; 7 kinds of white space after the final %%EOF; histories of 127..130 (300) appended revisions; 15 cross-reference spelling classes switched for all revisions; null replacements",
 "C08": "history-independence part (hostile preludes); split-independence family (pools of 1..16 threads and the sequential build must agree on 644 classic-table files with a trouble pair at every position); misnumbered-slot files (free-running, labelled sampling); late containers (indirect container lengths) under all deferred-list orders; RC4-encrypted duplicate-container files on pools of 1..16 threads",
 "C09": "Flate size families in both directions (ratios beyond 1024:1, plain and encoded lengths around 2^12..2^23, incompressible data, every zlib header); written-size oracle on every compress transition; the empty filter chain",
 "C10": "deep-nesting family (references below 1..2000 container levels), history family (earlier renumber / delete / add / save / stale max_id), many-object graphs; alias objects and scalars as whole objects (16 features)",
 "C11": "start document with sparse numbers, dangling and stale-generation references, resource categories behind references, a dictionary holding one reference under two keys; delete_pages with repeated / unsorted numbers",
 "C13": "long strings around byte 64, reference chains of 126..200 hops, 130-cycles, shared acyclic graphs with 2^64 paths; panics on the unmutated skeleton are verdicts",
 "C12": "history pairs and single edits through the public fields between two enumerations, mutating-method steps, reference chains of 0..128 hops on every link, wide trees; wrong-generation kids, all enumeration forms, fan-out kid cycles under a CPU budget, indirect Type",
 "C14": "history-independence part (952 hostile preludes x repetitions x thread kinds), nesting x parenthesis grid, long operands",
 "C15": "all 3-sequences over an 80-entry overlap menu and 4-sequences over a sub-menu, array length profiles, mapping-less and BOM-target CMaps",
 "C16": "every string length 0..2100 around an astral character, long byte strings through the tables, fonts with a predefined encoding and a partial ToUnicode, document sequences on one thread; inheritance family (nearest binding of font names over page trees of depth 1..3)",
 "C19": "bursts of 2..1000 consecutive Interrupted results at every call; save(path) over fresh, shorter and longer existing files",
}
def main():
    checks = []
    for pid in ALL:
        if pid not in CHECKS: continue
        c = CHECKS[pid]
        checks.append({
            "property_id": pid,
            "quick_cmd": "./check %s --tier quick" % pid,
            "thorough_cmd": "./check %s --tier thorough" % pid,
            "evidence_file": "evidence/%s.json" % pid,
            "replay_cmd_template": "./check %s --replay {path}" % pid,
            "engine": "vharness",
            "technique": c["tech"] + ("; added after the seeded-change rounds: " + EXTRA[pid] if pid in EXTRA else ""),
            "level_claimed": {"category": c["cat"], "text": c["text"], "design_ref": "DESIGN.md §4 %s" % pid},
            "level_note": c["note"],
        })
    na = [{"property_id": p, "reason": NOT_BUILT} for p in ALL if p not in CHECKS]
    m = {
      "version": 1,
      "setup_cmd": "./check --build-all",
      "hooks": {
        "guard": "--cfg lopdf_verif",
        "enable": "RUSTFLAGS='--cfg lopdf_verif' (set by ./check for every cargo build of the harness, which has lopdf as a path dependency on /repo)",
        "baseline_off_cmd": "cd /repo && cargo nextest run --workspace --no-fail-fast --tool-config-file pb:/w/lib/nextest.toml --profile pb --test-threads 8 --offline",
        "source_commits": ["4f56064"],
        "add_only": True,
      },
      "engines": [{"name": "vharness", "path": "harness/", "serves_properties": sorted(CHECKS), "kind_free_text": "hand-rolled bounded-exhaustive explorers on the real lopdf code (Rust crate with lopdf as path dependency on /repo), one binary per property, python driver ./check"}],
      "checks": checks,
      "not_applicable": na,
      "notes": "See DESIGN.md. Known findings and fixed defects: known_findings.json.",
    }
    json.dump(m, open(os.path.join(ROOT, "MANIFEST.json"), "w"), indent=1)
    print("claimed:", " ".join(sorted(CHECKS)), "| not claimed:", len(na))
main()
