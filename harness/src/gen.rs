//! Enumerators shared by several properties.

/// The sharp byte alphabet of DESIGN §4 C01 (every byte class the lexers distinguish).
pub const SHARP: [u8; 28] = [
    b'(', b')', b'\\', b'#', b'/', b'<', b'>', b'[', b']', b'{', b'}', b'%', b'\r', b'\n', 0, b' ', b'\t', 0x0c, b'0',
    b'1', b'7', b'8', b'n', b'r', b'~', 0x7f, 0x80, 0xff,
];

/// All byte strings of length `len` over `alphabet`, in lexicographic order of indices.
pub fn tuples(alphabet: &[u8], len: usize) -> impl Iterator<Item = Vec<u8>> + '_ {
    let n = alphabet.len();
    let total = n.pow(len as u32);
    (0..total).map(move |mut i| {
        let mut v = vec![0u8; len];
        for k in (0..len).rev() {
            v[k] = alphabet[i % n];
            i /= n;
        }
        v
    })
}

/// All byte strings of length 0, 1 and 2 over the full byte range (65,793).
pub fn all_upto2() -> Vec<Vec<u8>> {
    let mut out = Vec::with_capacity(65793);
    out.push(vec![]);
    for a in 0..=255u8 {
        out.push(vec![a]);
    }
    for a in 0..=255u8 {
        for b in 0..=255u8 {
            out.push(vec![a, b]);
        }
    }
    out
}

/// i-th permutation (Lehmer code) of 0..n.
pub fn nth_permutation(n: usize, mut index: u64) -> Vec<usize> {
    let mut pool: Vec<usize> = (0..n).collect();
    let mut fact: Vec<u64> = vec![1; n + 1];
    for i in 1..=n {
        fact[i] = fact[i - 1] * i as u64;
    }
    let mut out = Vec::with_capacity(n);
    for i in (0..n).rev() {
        let f = fact[i];
        let k = (index / f) as usize;
        index %= f;
        out.push(pool.remove(k));
    }
    out
}

pub fn factorial(n: usize) -> u64 {
    (1..=n as u64).product()
}
