//! Run context shared by all property checks: argument parsing, counters, evidence file,
//! replay files, known-findings matching and exit codes (DESIGN §2.7).
use serde_json::{json, Map, Value};
use std::collections::{BTreeMap, HashSet};
use std::path::PathBuf;
use std::sync::atomic::{AtomicU64, Ordering};
use std::sync::Mutex;
use std::time::Instant;

#[derive(Debug, Clone, PartialEq)]
pub enum Mode {
    Explore,
    Replay(PathBuf),
}

#[derive(Debug, Clone)]
struct Finding {
    property: String,
    finding_id: String,
    status: String,
    description: String,
}

struct KnownSeen {
    count: u64,
    example: String,
}

pub struct Run {
    pub id: &'static str,
    pub level: &'static str,
    pub thorough: bool,
    pub seed: u64,
    pub mode: Mode,
    start: Instant,
    evaluations: AtomicU64,
    nontrivial: AtomicU64,
    nontrivial_set: Mutex<HashSet<u64>>,
    samples: Mutex<Vec<Value>>,
    extras: Mutex<Map<String, Value>>,
    assumptions: Mutex<Vec<String>>,
    rule: Mutex<String>,
    exhaustive: Mutex<Option<bool>>,
    caps: Mutex<Vec<String>>,
    findings: Vec<Finding>,
    known_seen: Mutex<BTreeMap<String, KnownSeen>>,
    violations: Mutex<Vec<PathBuf>>,
    /// normalised failure message -> (count, first case) for unclassified violations
    categories: Mutex<BTreeMap<String, (u64, String)>>,
    violation_count: AtomicU64,
    /// prefix of replay file names (children of a check use their own, e.g. "seq-")
    pub replay_prefix: String,
    /// extra fields merged into every replay descriptor (e.g. {"build":"seq"})
    pub replay_extra: Mutex<Map<String, Value>>,
    states: AtomicU64,
    transitions: AtomicU64,
    traces: AtomicU64,
}

pub fn verif_root() -> PathBuf {
    if let Ok(r) = std::env::var("VERIF_ROOT") {
        return PathBuf::from(r);
    }
    PathBuf::from("/verif")
}

const MAX_REPLAYS: u64 = 12;

impl Run {
    /// Parse `--tier quick|thorough` / `--replay <path>` and the VERIF_SEED / VERIF_TIER variables.
    pub fn from_args(id: &'static str, level: &'static str) -> Run {
        let args: Vec<String> = std::env::args().collect();
        let mut thorough = std::env::var("VERIF_TIER").map(|t| t == "thorough").unwrap_or(false);
        let mut mode = Mode::Explore;
        let mut i = 1;
        while i < args.len() {
            match args[i].as_str() {
                "--tier" => {
                    i += 1;
                    thorough = args.get(i).map(|s| s == "thorough").unwrap_or(false);
                }
                "--replay" => {
                    i += 1;
                    mode = Mode::Replay(PathBuf::from(args.get(i).cloned().unwrap_or_default()));
                }
                _ => {}
            }
            i += 1;
        }
        let seed = std::env::var("VERIF_SEED").ok().and_then(|s| s.parse::<i64>().ok()).unwrap_or(0) as u64;
        let findings = load_findings();
        if mode == Mode::Explore && !args.iter().any(|a| a == "--part") {
            // stale replay files of earlier runs would be misleading
            let dir = verif_root().join("replays").join(id);
            if let Ok(rd) = std::fs::read_dir(&dir) {
                for e in rd.flatten() {
                    let _ = std::fs::remove_file(e.path());
                }
            }
        }
        Run {
            id,
            level,
            thorough,
            seed,
            mode,
            start: Instant::now(),
            evaluations: AtomicU64::new(0),
            nontrivial: AtomicU64::new(0),
            nontrivial_set: Mutex::new(HashSet::new()),
            samples: Mutex::new(Vec::new()),
            extras: Mutex::new(Map::new()),
            assumptions: Mutex::new(Vec::new()),
            rule: Mutex::new(String::new()),
            exhaustive: Mutex::new(None),
            caps: Mutex::new(Vec::new()),
            findings,
            known_seen: Mutex::new(BTreeMap::new()),
            violations: Mutex::new(Vec::new()),
            categories: Mutex::new(BTreeMap::new()),
            violation_count: AtomicU64::new(0),
            replay_prefix: String::new(),
            replay_extra: Mutex::new(Map::new()),
            states: AtomicU64::new(0),
            transitions: AtomicU64::new(0),
            traces: AtomicU64::new(0),
        }
    }

    pub fn elapsed(&self) -> f64 {
        self.start.elapsed().as_secs_f64()
    }

    pub fn eval(&self, n: u64) {
        self.evaluations.fetch_add(n, Ordering::Relaxed);
    }

    pub fn evaluations(&self) -> u64 {
        self.evaluations.load(Ordering::Relaxed)
    }

    /// Count `n` non-trivial cases that are distinct by construction of the enumeration.
    pub fn nontrivial(&self, n: u64) {
        self.nontrivial.fetch_add(n, Ordering::Relaxed);
    }

    /// Count a non-trivial case identified by a hash; duplicates are counted once.
    pub fn nontrivial_hash(&self, h: u64) {
        let mut set = self.nontrivial_set.lock().unwrap();
        if set.insert(h) {
            self.nontrivial.fetch_add(1, Ordering::Relaxed);
        }
    }

    pub fn add_states(&self, n: u64) {
        self.states.fetch_add(n, Ordering::Relaxed);
    }
    pub fn add_transitions(&self, n: u64) {
        self.transitions.fetch_add(n, Ordering::Relaxed);
    }
    pub fn add_traces(&self, n: u64) {
        self.traces.fetch_add(n, Ordering::Relaxed);
    }

    /// Keep a written-out sample case (at most 8 are kept: the first 6 and then the latest 2).
    pub fn sample(&self, v: Value) {
        let mut s = self.samples.lock().unwrap();
        if s.len() < 6 {
            s.push(v);
        } else if s.len() < 8 {
            s.push(v);
        } else {
            s[6] = s[7].take();
            s[7] = v;
        }
    }

    pub fn n_samples(&self) -> usize {
        self.samples.lock().unwrap().len()
    }

    pub fn set(&self, key: &str, v: Value) {
        self.extras.lock().unwrap().insert(key.to_string(), v);
    }

    pub fn add(&self, key: &str, n: u64) {
        let mut e = self.extras.lock().unwrap();
        let cur = e.get(key).and_then(|v| v.as_u64()).unwrap_or(0);
        e.insert(key.to_string(), json!(cur + n));
    }

    pub fn rule(&self, r: &str) {
        *self.rule.lock().unwrap() = r.to_string();
    }

    pub fn assume(&self, a: &str) {
        self.assumptions.lock().unwrap().push(a.to_string());
    }

    pub fn exhaustive(&self, e: bool) {
        let mut g = self.exhaustive.lock().unwrap();
        // once false, stays false
        *g = Some(g.unwrap_or(true) && e);
    }

    pub fn cap_hit(&self, what: &str) {
        self.caps.lock().unwrap().push(what.to_string());
        self.exhaustive(false);
    }

    pub fn violations(&self) -> u64 {
        self.violation_count.load(Ordering::Relaxed)
    }

    fn finding_status(&self, finding_id: &str) -> Option<&Finding> {
        self.findings.iter().find(|f| f.finding_id == finding_id && f.property == self.id)
    }

    /// Report a failing case. `finding` is the classifier's verdict (an id from
    /// known_findings.json) or None. A case matching an *open* entry of this property is counted
    /// as a known finding; everything else is a violation with a replay file.
    pub fn fail(&self, finding: Option<&str>, case: Value, observed: &str, expected: &str) {
        if let Some(fid) = finding {
            if let Some(f) = self.finding_status(fid) {
                if f.status == "open" {
                    let mut ks = self.known_seen.lock().unwrap();
                    let e = ks.entry(fid.to_string()).or_insert(KnownSeen {
                        count: 0,
                        example: String::new(),
                    });
                    e.count += 1;
                    if e.example.is_empty() {
                        let mut c = case.to_string();
                        if c.len() > 300 {
                            c.truncate(300);
                            c.push_str("...");
                        }
                        e.example = format!("case={} observed={}", c, truncate(observed, 200));
                    }
                    return;
                }
            }
        }
        {
            let mut key = String::new();
            let mut prev = false;
            for c in observed.chars().take(160) {
                if c.is_ascii_digit() {
                    if !prev {
                        key.push('#');
                    }
                    prev = true;
                } else {
                    key.push(c);
                    prev = false;
                }
            }
            let mut cats = self.categories.lock().unwrap();
            let e = cats.entry(key).or_insert((0, String::new()));
            e.0 += 1;
            if e.1.is_empty() {
                e.1 = truncate(&case.to_string(), 400);
            }
        }
        let n = self.violation_count.fetch_add(1, Ordering::SeqCst);
        if n >= MAX_REPLAYS {
            return;
        }
        let dir = verif_root().join("replays").join(self.id);
        let _ = std::fs::create_dir_all(&dir);
        let path = dir.join(format!("{}{}.json", self.replay_prefix, n));
        let mut doc = json!({
            "property": self.id,
            "finding_id": finding,
            "tier": if self.thorough {"thorough"} else {"quick"},
            "seed": self.seed,
            "case": case,
            "observed": observed,
            "expected": expected,
            "lopdf_head": lopdf_head(),
        });
        for (k, v) in self.replay_extra.lock().unwrap().iter() {
            doc[k] = v.clone();
        }
        let _ = std::fs::write(&path, serde_json::to_string_pretty(&doc).unwrap());
        println!("VIOLATION property={} replay={}", self.id, path.display());
        println!("  observed: {}", truncate(observed, 600));
        println!("  expected: {}", truncate(expected, 600));
        self.violations.lock().unwrap().push(path);
    }

    /// Used in replay mode: print the outcome for one case and exit.
    pub fn finish_replay(&self, failed: bool) -> ! {
        if failed {
            println!("REPLAY property={} result=FAIL", self.id);
            std::process::exit(1)
        } else {
            println!("REPLAY property={} result=PASS", self.id);
            std::process::exit(0)
        }
    }

    /// For a child process of a check (e.g. the sequential-reader build): print a one-line JSON
    /// summary for the parent instead of writing evidence. Exit 0/1 like a check.
    pub fn finish_child(self) -> ! {
        let ks = self.known_seen.lock().unwrap();
        let mut known = Map::new();
        for (k, v) in ks.iter() {
            known.insert(k.clone(), json!({"count": v.count, "example": v.example}));
        }
        let summary = json!({
            "evaluations": self.evaluations.load(Ordering::Relaxed),
            "distinct_nontrivial": self.nontrivial.load(Ordering::Relaxed),
            "states": self.states.load(Ordering::Relaxed),
            "transitions": self.transitions.load(Ordering::Relaxed),
            "traces": self.traces.load(Ordering::Relaxed),
            "violations": self.violation_count.load(Ordering::Relaxed),
            "known": Value::Object(known),
            "extras": Value::Object(self.extras.lock().unwrap().clone()),
            "caps": self.caps.lock().unwrap().clone(),
            "samples": Value::Array(self.samples.lock().unwrap().clone()),
            "wall_s": self.elapsed(),
        });
        println!("CHILD-SUMMARY {}", summary);
        std::process::exit(if self.violation_count.load(Ordering::Relaxed) > 0 { 1 } else { 0 });
    }

    /// Run a child binary of this check, echo its VIOLATION lines, and merge its counters.
    /// Returns the child's summary; a child that dies without a summary is a machinery failure.
    pub fn run_child(&self, exe: &str, args: &[&str], label: &str) -> Value {
        let out = std::process::Command::new(exe).args(args).output().unwrap_or_else(|e| {
            eprintln!("MACHINERY: cannot start child {}: {}", exe, e);
            std::process::exit(3);
        });
        let text = String::from_utf8_lossy(&out.stdout).to_string();
        let mut summary = None;
        for line in text.lines() {
            if let Some(rest) = line.strip_prefix("CHILD-SUMMARY ") {
                summary = serde_json::from_str::<Value>(rest).ok();
            } else if line.starts_with("VIOLATION") || line.starts_with("  observed") || line.starts_with("  expected") {
                println!("{}", line);
            }
        }
        let Some(full) = summary else {
            eprintln!(
                "MACHINERY: child {} ({}) ended without a summary (status {:?}); stderr: {}",
                exe,
                label,
                out.status.code(),
                truncate(&String::from_utf8_lossy(&out.stderr), 2000)
            );
            std::process::exit(3);
        };
        let s = full.clone();
        self.eval(s["evaluations"].as_u64().unwrap_or(0));
        self.nontrivial(s["distinct_nontrivial"].as_u64().unwrap_or(0));
        self.add_states(s["states"].as_u64().unwrap_or(0));
        self.add_transitions(s["transitions"].as_u64().unwrap_or(0));
        self.add_traces(s["traces"].as_u64().unwrap_or(0));
        self.violation_count.fetch_add(s["violations"].as_u64().unwrap_or(0), Ordering::SeqCst);
        if let Some(k) = s["known"].as_object() {
            let mut ks = self.known_seen.lock().unwrap();
            for (fid, v) in k {
                let e = ks.entry(fid.clone()).or_insert(KnownSeen { count: 0, example: String::new() });
                e.count += v["count"].as_u64().unwrap_or(0);
                if e.example.is_empty() {
                    e.example = v["example"].as_str().unwrap_or("").to_string();
                }
            }
        }
        if let Some(c) = s["caps"].as_array() {
            for x in c {
                self.cap_hit(&format!("{}: {}", label, x.as_str().unwrap_or("")));
            }
        }
        // keep the evidence readable: large arrays in a child's extras are not copied
        let mut s = s;
        if let Some(ex) = s["extras"].as_object_mut() {
            ex.retain(|_, v| v.as_array().map(|a| a.len() <= 50).unwrap_or(true));
        }
        self.set(&format!("child_{}", label), json!({
            "evaluations": s["evaluations"], "distinct_nontrivial": s["distinct_nontrivial"],
            "violations": s["violations"], "extras": s["extras"], "wall_s": s["wall_s"], "samples": s["samples"],
        }));
        full
    }

    /// Write the evidence file, print KNOWN-FINDING lines and exit (0 held / 1 violation).
    pub fn finish(self) -> ! {
        let wall = self.elapsed();
        let mut coverage = Map::new();
        let evaluations = self.evaluations.load(Ordering::Relaxed);
        let nontrivial = self.nontrivial.load(Ordering::Relaxed);
        coverage.insert("evaluations".into(), json!(evaluations));
        coverage.insert("distinct_nontrivial".into(), json!(nontrivial));
        coverage.insert("rule".into(), json!(self.rule.lock().unwrap().clone()));
        coverage.insert("samples".into(), Value::Array(self.samples.lock().unwrap().clone()));
        let st = self.states.load(Ordering::Relaxed);
        let tr = self.transitions.load(Ordering::Relaxed);
        if st > 0 || tr > 0 {
            coverage.insert("states".into(), json!(st));
            coverage.insert("transitions".into(), json!(tr));
            coverage.insert(
                "traces_validated_against_impl".into(),
                json!(self.traces.load(Ordering::Relaxed)),
            );
        }
        if let Some(e) = *self.exhaustive.lock().unwrap() {
            coverage.insert("exhaustive".into(), json!(e));
        }
        coverage.insert("caps_hit".into(), json!(self.caps.lock().unwrap().clone()));
        let ks = self.known_seen.lock().unwrap();
        let mut known = Map::new();
        for (k, v) in ks.iter() {
            known.insert(k.clone(), json!(v.count));
        }
        coverage.insert("known_findings_seen".into(), Value::Object(known));
        for (k, v) in self.extras.lock().unwrap().iter() {
            coverage.insert(k.clone(), v.clone());
        }
        let violations = self.violation_count.load(Ordering::Relaxed);
        {
            let cats = self.categories.lock().unwrap();
            if !cats.is_empty() {
                let mut v: Vec<Value> = cats.iter().map(|(k, (n, c))| json!({"message": k, "count": n, "first_case": c})).collect();
                v.sort_by_key(|x| std::cmp::Reverse(x["count"].as_u64().unwrap_or(0)));
                v.truncate(60);
                coverage.insert("violation_categories".into(), Value::Array(v));
            }
        }
        let ev = json!({
            "property_id": self.id,
            "tier": if self.thorough {"thorough"} else {"quick"},
            "seed": self.seed,
            "level": self.level,
            "coverage": Value::Object(coverage),
            "assumptions": self.assumptions.lock().unwrap().clone(),
            "wall_s": (wall * 1000.0).round() / 1000.0,
            "violations": violations,
            "lopdf_head": lopdf_head(),
        });
        let dir = verif_root().join("evidence");
        let _ = std::fs::create_dir_all(&dir);
        let path = dir.join(format!("{}.json", self.id));
        if let Err(e) = std::fs::write(&path, serde_json::to_string_pretty(&ev).unwrap() + "\n") {
            eprintln!("MACHINERY: cannot write evidence {}: {}", path.display(), e);
            std::process::exit(3);
        }
        for (fid, seen) in ks.iter() {
            let desc = self.finding_status(fid).map(|f| f.description.clone()).unwrap_or_default();
            println!(
                "KNOWN-FINDING: property={} {} - {} ({} cases; first: {})",
                self.id, fid, desc, seen.count, seen.example
            );
        }
        println!(
            "{} tier={} evaluations={} distinct_nontrivial={} states={} transitions={} violations={} known_findings={} wall={:.1}s",
            self.id,
            if self.thorough { "thorough" } else { "quick" },
            evaluations,
            nontrivial,
            st,
            tr,
            violations,
            ks.len(),
            wall
        );
        if violations > 0 {
            if violations > MAX_REPLAYS {
                println!("({} further violations not written out)", violations - MAX_REPLAYS);
            }
            std::process::exit(1);
        }
        std::process::exit(0);
    }
}

pub fn truncate(s: &str, n: usize) -> String {
    if s.len() <= n {
        s.to_string()
    } else {
        let mut end = n;
        while !s.is_char_boundary(end) {
            end -= 1;
        }
        format!("{}...[{} bytes]", &s[..end], s.len())
    }
}

fn load_findings() -> Vec<Finding> {
    let path = verif_root().join("known_findings.json");
    let text = match std::fs::read_to_string(&path) {
        Ok(t) => t,
        Err(_) => return vec![],
    };
    let v: Value = match serde_json::from_str(&text) {
        Ok(v) => v,
        Err(e) => {
            eprintln!("MACHINERY: known_findings.json does not parse: {}", e);
            std::process::exit(3);
        }
    };
    let mut out = vec![];
    if let Some(arr) = v.get("findings").and_then(|f| f.as_array()) {
        for f in arr {
            out.push(Finding {
                property: f["property"].as_str().unwrap_or("").to_string(),
                finding_id: f["finding_id"].as_str().unwrap_or("").to_string(),
                status: f["status"].as_str().unwrap_or("").to_string(),
                description: f["description"].as_str().unwrap_or("").to_string(),
            });
        }
    }
    out
}

pub fn lopdf_head() -> String {
    static HEAD: std::sync::OnceLock<String> = std::sync::OnceLock::new();
    HEAD.get_or_init(|| {
        let rev = std::process::Command::new("git")
            .args(["-C", "/repo", "rev-parse", "--short", "HEAD"])
            .output()
            .ok()
            .map(|o| String::from_utf8_lossy(&o.stdout).trim().to_string())
            .unwrap_or_default();
        let dirty = std::process::Command::new("git")
            .args(["-C", "/repo", "status", "--porcelain", "--untracked-files=no"])
            .output()
            .ok()
            .map(|o| !o.stdout.is_empty())
            .unwrap_or(false);
        format!("{}{}", rev, if dirty { "+dirty" } else { "" })
    })
    .clone()
}

/// Read a replay file and return its `case` value.
pub fn read_replay(path: &std::path::Path) -> Value {
    let text = std::fs::read_to_string(path).unwrap_or_else(|e| {
        eprintln!("MACHINERY: cannot read replay {}: {}", path.display(), e);
        std::process::exit(3);
    });
    let v: Value = serde_json::from_str(&text).unwrap_or_else(|e| {
        eprintln!("MACHINERY: replay does not parse: {}", e);
        std::process::exit(3);
    });
    v.get("case").cloned().unwrap_or(v)
}

/// FNV-1a, used for case hashes and digests (deterministic across runs).
pub fn fnv(data: &[u8]) -> u64 {
    let mut h: u64 = 0xcbf29ce484222325;
    for &b in data {
        h ^= b as u64;
        h = h.wrapping_mul(0x100000001b3);
    }
    h
}
