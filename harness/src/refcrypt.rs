//! Reference implementation of the ISO 32000 *standard security handler* (DESIGN Appendix B.3).
//!
//! Written from ISO 32000-1:2008 §7.6 and ISO 32000-2:2020 §7.6 (Algorithms 1, 1.A, 2, 2.A, 2.B, 3-13 and
//! the crypt-filter rules of §7.6.6). It shares no code with lopdf: lopdf's `Object` / `Dictionary`
//! types are used as a *data container* only, no lopdf function that hashes, derives keys, encrypts or
//! decrypts is called. Primitives: MD5 (md-5), SHA-2 (sha2), the raw AES block function (aes) - CBC/ECB
//! chaining and PKCS#5 padding are done here; RC4 is implemented here and checked against RFC 6229.
//! `stringprep` supplies SASLprep (trusted primitive).
use aes::cipher::generic_array::GenericArray;
use aes::cipher::{BlockDecrypt, BlockEncrypt, KeyInit};
use lopdf::{Dictionary, Object, ObjectId};
use md5::{Digest, Md5};
use sha2::{Sha256, Sha384, Sha512};
use std::collections::BTreeMap;

// ---------------------------------------------------------------------------------------------
// primitives

/// The 32-byte padding string of Algorithm 2 step (a).
pub const PAD: [u8; 32] = [
    0x28, 0xBF, 0x4E, 0x5E, 0x4E, 0x75, 0x8A, 0x41, 0x64, 0x00, 0x4E, 0x56, 0xFF, 0xFA, 0x01, 0x08, 0x2E, 0x2E,
    0x00, 0xB6, 0xD0, 0x68, 0x3E, 0x80, 0x2F, 0x0C, 0xA9, 0xFE, 0x64, 0x53, 0x69, 0x7A,
];

/// RC4 (key scheduling + output generation), symmetric.
pub fn rc4(key: &[u8], data: &[u8]) -> Vec<u8> {
    assert!(!key.is_empty() && key.len() <= 256, "RC4 key length");
    let mut s = [0u8; 256];
    for (i, v) in s.iter_mut().enumerate() {
        *v = i as u8;
    }
    let mut j = 0usize;
    for i in 0..256 {
        j = (j + s[i] as usize + key[i % key.len()] as usize) & 0xff;
        s.swap(i, j);
    }
    let mut i = 0usize;
    let mut j = 0usize;
    let mut out = Vec::with_capacity(data.len());
    for &b in data {
        i = (i + 1) & 0xff;
        j = (j + s[i] as usize) & 0xff;
        s.swap(i, j);
        out.push(b ^ s[(s[i] as usize + s[j] as usize) & 0xff]);
    }
    out
}

pub fn md5(parts: &[&[u8]]) -> [u8; 16] {
    let mut h = Md5::new();
    for p in parts {
        h.update(p);
    }
    h.finalize().into()
}

fn sha256(parts: &[&[u8]]) -> Vec<u8> {
    let mut h = Sha256::new();
    for p in parts {
        h.update(p);
    }
    h.finalize().to_vec()
}

enum AesKey {
    K128(aes::Aes128),
    K256(aes::Aes256),
}

impl AesKey {
    fn new(key: &[u8]) -> Result<AesKey, String> {
        match key.len() {
            16 => Ok(AesKey::K128(aes::Aes128::new(GenericArray::from_slice(key)))),
            32 => Ok(AesKey::K256(aes::Aes256::new(GenericArray::from_slice(key)))),
            n => Err(format!("AES key of {} bytes", n)),
        }
    }
    fn enc(&self, block: &mut [u8; 16]) {
        let mut b = GenericArray::clone_from_slice(block);
        match self {
            AesKey::K128(c) => c.encrypt_block(&mut b),
            AesKey::K256(c) => c.encrypt_block(&mut b),
        }
        block.copy_from_slice(&b);
    }
    fn dec(&self, block: &mut [u8; 16]) {
        let mut b = GenericArray::clone_from_slice(block);
        match self {
            AesKey::K128(c) => c.decrypt_block(&mut b),
            AesKey::K256(c) => c.decrypt_block(&mut b),
        }
        block.copy_from_slice(&b);
    }
}

/// AES-CBC without padding; `data.len()` must be a multiple of 16.
pub fn aes_cbc_encrypt_nopad(key: &[u8], iv: &[u8; 16], data: &[u8]) -> Result<Vec<u8>, String> {
    if data.len() % 16 != 0 {
        return Err("CBC input not a multiple of 16".into());
    }
    let k = AesKey::new(key)?;
    let mut prev = *iv;
    let mut out = Vec::with_capacity(data.len());
    for chunk in data.chunks(16) {
        let mut b = [0u8; 16];
        for i in 0..16 {
            b[i] = chunk[i] ^ prev[i];
        }
        k.enc(&mut b);
        out.extend_from_slice(&b);
        prev = b;
    }
    Ok(out)
}

pub fn aes_cbc_decrypt_nopad(key: &[u8], iv: &[u8; 16], data: &[u8]) -> Result<Vec<u8>, String> {
    if data.len() % 16 != 0 {
        return Err("CBC input not a multiple of 16".into());
    }
    let k = AesKey::new(key)?;
    let mut prev = *iv;
    let mut out = Vec::with_capacity(data.len());
    for chunk in data.chunks(16) {
        let mut b = [0u8; 16];
        b.copy_from_slice(chunk);
        let c = b;
        k.dec(&mut b);
        for i in 0..16 {
            b[i] ^= prev[i];
        }
        out.extend_from_slice(&b);
        prev = c;
    }
    Ok(out)
}

pub fn aes_ecb_encrypt_block(key: &[u8], block: &[u8; 16]) -> Result<[u8; 16], String> {
    let k = AesKey::new(key)?;
    let mut b = *block;
    k.enc(&mut b);
    Ok(b)
}

pub fn aes_ecb_decrypt_block(key: &[u8], block: &[u8; 16]) -> Result<[u8; 16], String> {
    let k = AesKey::new(key)?;
    let mut b = *block;
    k.dec(&mut b);
    Ok(b)
}

/// §7.6.3: AES-CBC, the IV is stored as the first 16 bytes, padding of 16 - (M mod 16) bytes of that value.
pub fn aes_pdf_encrypt(key: &[u8], iv: &[u8; 16], plain: &[u8]) -> Result<Vec<u8>, String> {
    let padn = 16 - plain.len() % 16;
    let mut data = plain.to_vec();
    data.extend(std::iter::repeat(padn as u8).take(padn));
    let mut out = iv.to_vec();
    out.extend(aes_cbc_encrypt_nopad(key, iv, &data)?);
    Ok(out)
}

pub fn aes_pdf_decrypt(key: &[u8], data: &[u8]) -> Result<Vec<u8>, String> {
    if data.len() < 32 || data.len() % 16 != 0 {
        return Err(format!("AES data of {} bytes is not IV + a positive number of blocks", data.len()));
    }
    let mut iv = [0u8; 16];
    iv.copy_from_slice(&data[..16]);
    let mut p = aes_cbc_decrypt_nopad(key, &iv, &data[16..])?;
    let n = *p.last().unwrap() as usize;
    if n == 0 || n > 16 || p[p.len() - n..].iter().any(|&b| b as usize != n) {
        return Err("bad padding after AES decryption".into());
    }
    p.truncate(p.len() - n);
    Ok(p)
}

// ---------------------------------------------------------------------------------------------
// password preparation

/// PDFDocEncoding (ISO 32000-1 Annex D.2) code of a character, if it has one.
pub fn pdfdoc_code(c: char) -> Option<u8> {
    let u = c as u32;
    match u {
        0x09 | 0x0A | 0x0D => Some(u as u8),
        0x20..=0x7E => Some(u as u8),
        0xA1..=0xAC | 0xAE..=0xFF => Some(u as u8),
        0x02D8 => Some(0x18),
        0x02C7 => Some(0x19),
        0x02C6 => Some(0x1A),
        0x02D9 => Some(0x1B),
        0x02DD => Some(0x1C),
        0x02DB => Some(0x1D),
        0x02DA => Some(0x1E),
        0x02DC => Some(0x1F),
        0x2022 => Some(0x80),
        0x2020 => Some(0x81),
        0x2021 => Some(0x82),
        0x2026 => Some(0x83),
        0x2014 => Some(0x84),
        0x2013 => Some(0x85),
        0x0192 => Some(0x86),
        0x2044 => Some(0x87),
        0x2039 => Some(0x88),
        0x203A => Some(0x89),
        0x2212 => Some(0x8A),
        0x2030 => Some(0x8B),
        0x201E => Some(0x8C),
        0x201C => Some(0x8D),
        0x201D => Some(0x8E),
        0x2018 => Some(0x8F),
        0x2019 => Some(0x90),
        0x201A => Some(0x91),
        0x2122 => Some(0x92),
        0xFB01 => Some(0x93),
        0xFB02 => Some(0x94),
        0x0141 => Some(0x95),
        0x0152 => Some(0x96),
        0x0160 => Some(0x97),
        0x0178 => Some(0x98),
        0x017D => Some(0x99),
        0x0131 => Some(0x9A),
        0x0142 => Some(0x9B),
        0x0153 => Some(0x9C),
        0x0161 => Some(0x9D),
        0x017E => Some(0x9E),
        0x20AC => Some(0xA0),
        _ => None,
    }
}

/// ISO 32000-1 Table D.2 read the other way round (by CODE): the eight spacing accents at 0x18-0x1F ...
pub const PDFDOC_18_1F: [u32; 8] = [0x02D8, 0x02C7, 0x02C6, 0x02D9, 0x02DD, 0x02DB, 0x02DA, 0x02DC];

/// ... and the 31 typographic characters and letters at 0x80-0x9E (bullet, dagger, daggerdbl, ellipsis, emdash,
/// endash, florin, fraction, guilsinglleft, guilsinglright, minus, perthousand, quotedblbase, quotedblleft,
/// quotedblright, quoteleft, quoteright, quotesinglbase, trademark, fi, fl, Lslash, OE, Scaron, Ydieresis, Zcaron,
/// dotlessi, lslash, oe, scaron, zcaron). 0x9F is undefined, 0xA0 is the Euro sign, 0xAD is undefined.
pub const PDFDOC_80_9E: [u32; 31] = [
    0x2022, 0x2020, 0x2021, 0x2026, 0x2014, 0x2013, 0x0192, 0x2044, 0x2039, 0x203A, 0x2212, 0x2030, 0x201E, 0x201C, 0x201D, 0x2018, 0x2019, 0x201A,
    0x2122, 0xFB01, 0xFB02, 0x0141, 0x0152, 0x0160, 0x0178, 0x017D, 0x0131, 0x0142, 0x0153, 0x0161, 0x017E,
];

/// Every defined cell of PDFDocEncoding as (code, character), in code order: 0x09 0x0A 0x0D, 0x18-0x1F, 0x20-0x7E,
/// 0x80-0x9E, 0xA0, 0xA1-0xFF without 0xAD - 232 cells. Built from the by-code tables above, not from
/// `pdfdoc_code` (which is written by character); the self-test requires the two to agree in both directions.
pub fn pdfdoc_cells() -> Vec<(u8, char)> {
    let mut v: Vec<(u8, char)> = vec![(0x09, '\t'), (0x0A, '\n'), (0x0D, '\r')];
    for (i, u) in PDFDOC_18_1F.iter().enumerate() {
        v.push((0x18 + i as u8, char::from_u32(*u).unwrap()));
    }
    for b in 0x20u8..=0x7E {
        v.push((b, b as char));
    }
    for (i, u) in PDFDOC_80_9E.iter().enumerate() {
        v.push((0x80 + i as u8, char::from_u32(*u).unwrap()));
    }
    v.push((0xA0, '\u{20AC}'));
    for b in 0xA1u8..=0xFF {
        if b != 0xAD {
            v.push((b, char::from_u32(b as u32).unwrap()));
        }
    }
    v
}

/// Password bytes for revisions 2-4: the PDFDocEncoding form; None if a character has no code.
pub fn pdfdoc_bytes(pw: &str) -> Option<Vec<u8>> {
    pw.chars().map(pdfdoc_code).collect()
}

/// True if every character of `pw` has a PDFDocEncoding code.
pub fn pdfdoc_encodable(pw: &str) -> bool {
    pdfdoc_bytes(pw).is_some()
}

/// Password bytes for revisions 5-6: SASLprep, UTF-8, truncated to 127 bytes (Algorithm 2.A step a).
pub fn utf8_prep(pw: &str) -> Result<Vec<u8>, String> {
    let mut b = utf8_prep_full(pw)?;
    b.truncate(127);
    Ok(b)
}

/// SASLprep + UTF-8 without the truncation (to tell whether a password exceeds 127 bytes).
pub fn utf8_prep_full(pw: &str) -> Result<Vec<u8>, String> {
    let p = stringprep::saslprep(pw).map_err(|e| format!("SASLprep: {}", e))?;
    Ok(p.as_bytes().to_vec())
}

/// Password bytes as the given revision prepares them.
pub fn prep(r: i64, pw: &str) -> Result<Vec<u8>, String> {
    if r <= 4 {
        pdfdoc_bytes(pw).ok_or_else(|| "password has a character outside PDFDocEncoding".to_string())
    } else {
        utf8_prep(pw)
    }
}

/// Algorithm 2 step (a): pad or truncate to exactly 32 bytes.
pub fn pad32(pw: &[u8]) -> [u8; 32] {
    let n = pw.len().min(32);
    let mut out = [0u8; 32];
    out[..n].copy_from_slice(&pw[..n]);
    out[n..].copy_from_slice(&PAD[..32 - n]);
    out
}

// ---------------------------------------------------------------------------------------------
// encryption dictionary

#[derive(Clone, Copy, PartialEq, Eq, Debug)]
pub enum Method {
    Identity,
    Rc4,
    AesV2,
    AesV3,
}

/// Deviations from the standard that the *classifier* may switch on to test whether a failing case is
/// explained by one catalogued lopdf defect. All false = the standard.
#[derive(Clone, Copy, Default, Debug, PartialEq)]
pub struct Quirks {
    /// strings inside stream dictionaries are left alone
    pub skip_stream_dict_strings: bool,
    /// a StmF/StrF/Crypt name that is not in CF (incl. /Identity) selects RC4
    pub missing_filter_is_rc4: bool,
    /// CFM /Identity is read as CFM /None
    pub cfm_identity_is_none: bool,
    /// a stream's Crypt filter parameters are looked at only when /DecodeParms is a dictionary; an
    /// array (one entry per filter) is ignored and StmF applies
    pub crypt_parms_array_ignored: bool,
    /// StmF / StrF spelled as the empty name (what lopdf's kept state writes for an absent entry) mean /Identity
    pub empty_filter_name_is_identity: bool,
    /// the Contents value of a signature dictionary is processed like any other string (ISO 32000-2 7.6.2
    /// exempts it: the signature is computed over the bytes of the file as stored)
    pub sig_contents_processed: bool,
}

#[derive(Clone, Debug)]
pub struct EncDict {
    pub v: i64,
    pub r: i64,
    /// file key length in bits as the standard defines it for this V (40 / Length / 128 / 256)
    pub key_bits: i64,
    pub o: Vec<u8>,
    pub u: Vec<u8>,
    pub oe: Vec<u8>,
    pub ue: Vec<u8>,
    pub perms: Vec<u8>,
    /// the P entry as a 32-bit two's complement number
    pub p: i32,
    pub encrypt_metadata: bool,
    /// crypt filter name -> CFM name (b"None" if absent)
    pub cf: BTreeMap<Vec<u8>, Vec<u8>>,
    /// None = entry absent (default /Identity)
    pub stmf: Option<Vec<u8>>,
    pub strf: Option<Vec<u8>>,
}

fn get_str(d: &Dictionary, k: &[u8]) -> Option<Vec<u8>> {
    match d.get(k) {
        Ok(Object::String(s, _)) => Some(s.clone()),
        _ => None,
    }
}

fn get_name(d: &Dictionary, k: &[u8]) -> Option<Vec<u8>> {
    match d.get(k) {
        Ok(Object::Name(s)) => Some(s.clone()),
        _ => None,
    }
}

fn get_int(d: &Dictionary, k: &[u8]) -> Option<i64> {
    match d.get(k) {
        Ok(Object::Integer(i)) => Some(*i),
        _ => None,
    }
}

impl EncDict {
    /// Read an encryption dictionary (Table 20 + Table 21 of ISO 32000-2).
    pub fn parse(d: &Dictionary) -> Result<EncDict, String> {
        match get_name(d, b"Filter") {
            Some(f) if f == b"Standard" => {}
            other => return Err(format!("Filter is {:?}, not /Standard", other.map(|n| String::from_utf8_lossy(&n).to_string()))),
        }
        let v = get_int(d, b"V").ok_or("V missing")?;
        let r = get_int(d, b"R").ok_or("R missing")?;
        let key_bits = match v {
            1 => 40,
            2 => get_int(d, b"Length").unwrap_or(40),
            4 => 128,
            5 => 256,
            _ => return Err(format!("V {} is not 1, 2, 4 or 5", v)),
        };
        if !(2..=6).contains(&r) {
            return Err(format!("R {} not in 2..6", r));
        }
        if v == 2 && (key_bits % 8 != 0 || !(40..=128).contains(&key_bits)) {
            return Err(format!("Length {} illegal", key_bits));
        }
        let o = get_str(d, b"O").ok_or("O missing")?;
        let u = get_str(d, b"U").ok_or("U missing")?;
        if r <= 4 && (o.len() != 32 || u.len() != 32) {
            return Err(format!("O/U must be 32 bytes for R<=4 (are {} / {})", o.len(), u.len()));
        }
        if r >= 5 && (o.len() < 48 || u.len() < 48) {
            return Err(format!("O/U must be 48 bytes for R>=5 (are {} / {})", o.len(), u.len()));
        }
        let oe = get_str(d, b"OE").unwrap_or_default();
        let ue = get_str(d, b"UE").unwrap_or_default();
        let perms = get_str(d, b"Perms").unwrap_or_default();
        if r >= 5 && (oe.len() != 32 || ue.len() != 32 || perms.len() != 16) {
            return Err(format!("OE/UE/Perms must be 32/32/16 bytes (are {} / {} / {})", oe.len(), ue.len(), perms.len()));
        }
        let p64 = get_int(d, b"P").ok_or("P missing")?;
        let p = p64 as u64 as u32 as i32;
        let encrypt_metadata = match d.get(b"EncryptMetadata") {
            Ok(Object::Boolean(b)) => *b,
            _ => true,
        };
        let mut cf = BTreeMap::new();
        if v >= 4 {
            if let Ok(Object::Dictionary(cfd)) = d.get(b"CF") {
                for (name, f) in cfd.iter() {
                    if let Object::Dictionary(fd) = f {
                        cf.insert(name.clone(), get_name(fd, b"CFM").unwrap_or_else(|| b"None".to_vec()));
                    }
                }
            }
        }
        let (stmf, strf) = if v >= 4 { (get_name(d, b"StmF"), get_name(d, b"StrF")) } else { (None, None) };
        Ok(EncDict { v, r, key_bits, o, u, oe, ue, perms, p, encrypt_metadata, cf, stmf, strf })
    }

    /// number of bytes of the file encryption key
    pub fn n(&self) -> usize {
        if self.r == 2 {
            5
        } else {
            (self.key_bits / 8) as usize
        }
    }

    /// §7.6.6: which method a crypt filter name selects.
    pub fn resolve(&self, name: Option<&[u8]>, q: &Quirks) -> Result<Method, String> {
        self.resolve_for(name, q, false)
    }

    /// `is_override`: the name comes from a stream's own Crypt filter (not from StmF / StrF).
    pub fn resolve_for(&self, name: Option<&[u8]>, q: &Quirks, is_override: bool) -> Result<Method, String> {
        if self.v < 4 {
            return Ok(Method::Rc4);
        }
        // the RC4 fallback quirk concerns the document-level defaults only
        let q = &Quirks { missing_filter_is_rc4: q.missing_filter_is_rc4 && !is_override, ..*q };
        let mut name: &[u8] = name.unwrap_or(b"Identity");
        if name.is_empty() && q.empty_filter_name_is_identity {
            name = b"Identity";
        }
        if let Some(cfm) = self.cf.get(name) {
            // a CF entry *named* Identity is not allowed by the standard; the predefined filter wins
            // in a conforming reader. Such an entry is looked at only under the lookup quirk.
            if name != b"Identity" || q.missing_filter_is_rc4 {
                return match cfm.as_slice() {
                    b"None" => Ok(Method::Identity),
                    b"V2" => Ok(Method::Rc4),
                    b"AESV2" => Ok(Method::AesV2),
                    b"AESV3" => Ok(Method::AesV3),
                    b"Identity" if q.cfm_identity_is_none => Ok(Method::Identity),
                    other => Err(format!(
                        "crypt filter /{} has CFM /{}, which is not None, V2, AESV2 or AESV3",
                        String::from_utf8_lossy(name),
                        String::from_utf8_lossy(other)
                    )),
                };
            }
        }
        if name == b"Identity" {
            if q.missing_filter_is_rc4 {
                return Ok(Method::Rc4);
            }
            return Ok(Method::Identity);
        }
        if q.missing_filter_is_rc4 {
            return Ok(Method::Rc4);
        }
        Err(format!("crypt filter /{} is not defined in CF", String::from_utf8_lossy(name)))
    }
}

/// First element of the trailer's ID array (empty if absent).
pub fn id0_of(trailer: &Dictionary) -> Vec<u8> {
    match trailer.get(b"ID") {
        Ok(Object::Array(a)) => match a.first() {
            Some(Object::String(s, _)) => s.clone(),
            _ => vec![],
        },
        _ => vec![],
    }
}

// ---------------------------------------------------------------------------------------------
// revisions 2-4

/// Algorithm 2: file encryption key from the (prepared) user password.
pub fn alg2_file_key(enc: &EncDict, id0: &[u8], user_pw: &[u8]) -> Vec<u8> {
    let n = enc.n();
    let padded = pad32(user_pw);
    let p = (enc.p as u32).to_le_bytes();
    let mut parts: Vec<&[u8]> = vec![&padded, &enc.o, &p, id0];
    let ff = [0xffu8; 4];
    if enc.r >= 4 && !enc.encrypt_metadata {
        parts.push(&ff);
    }
    let mut h = md5(&parts);
    if enc.r >= 3 {
        for _ in 0..50 {
            h = md5(&[&h[..n]]);
        }
    }
    h[..n].to_vec()
}

/// Steps (a)-(d) of Algorithm 3: the RC4 key made from the owner password string.
fn owner_rc4_key(r: i64, n: usize, owner_string: &[u8]) -> Vec<u8> {
    let mut h = md5(&[&pad32(owner_string)]);
    if r >= 3 {
        for _ in 0..50 {
            h = md5(&[&h]);
        }
    }
    h[..n].to_vec()
}

/// Algorithm 3: the O entry. `owner_pw` empty means "no owner password": step (a) then uses the user
/// password. `literal_empty_owner` disables that substitution (classifier only).
pub fn alg3_o(r: i64, n: usize, owner_pw: &[u8], user_pw: &[u8], literal_empty_owner: bool) -> Vec<u8> {
    let owner_string: &[u8] = if owner_pw.is_empty() && !literal_empty_owner { user_pw } else { owner_pw };
    let key = owner_rc4_key(r, n, owner_string);
    let mut out = rc4(&key, &pad32(user_pw));
    if r >= 3 {
        for i in 1..=19u8 {
            let k: Vec<u8> = key.iter().map(|b| b ^ i).collect();
            out = rc4(&k, &out);
        }
    }
    out
}

/// Algorithm 4: the U entry for revision 2.
pub fn alg4_u(file_key: &[u8]) -> Vec<u8> {
    rc4(file_key, &PAD)
}

/// Algorithm 5: the U entry for revisions 3 and 4; `tail` is the 16 bytes of arbitrary padding.
pub fn alg5_u(file_key: &[u8], id0: &[u8], tail: &[u8; 16]) -> Vec<u8> {
    let h = md5(&[&PAD, id0]);
    let mut out = rc4(file_key, &h);
    for i in 1..=19u8 {
        let k: Vec<u8> = file_key.iter().map(|b| b ^ i).collect();
        out = rc4(&k, &out);
    }
    out.extend_from_slice(tail);
    out
}

/// Algorithm 6: authenticate the user password; returns the file key.
pub fn alg6_user(enc: &EncDict, id0: &[u8], pw: &[u8]) -> Option<Vec<u8>> {
    let key = alg2_file_key(enc, id0, pw);
    let ok = if enc.r == 2 {
        alg4_u(&key) == enc.u
    } else {
        alg5_u(&key, id0, &[0; 16])[..16] == enc.u[..16]
    };
    if ok {
        Some(key)
    } else {
        None
    }
}

/// Algorithm 7: authenticate the owner password; returns (file key, recovered padded user password).
pub fn alg7_owner(enc: &EncDict, id0: &[u8], pw: &[u8]) -> Option<(Vec<u8>, Vec<u8>)> {
    let key = owner_rc4_key(enc.r, enc.n(), pw);
    let mut user = enc.o.clone();
    if enc.r == 2 {
        user = rc4(&key, &user);
    } else {
        for i in (0..=19u8).rev() {
            let k: Vec<u8> = key.iter().map(|b| b ^ i).collect();
            user = rc4(&k, &user);
        }
    }
    alg6_user(enc, id0, &user).map(|k| (k, user))
}

// ---------------------------------------------------------------------------------------------
// revisions 5-6

/// Algorithm 2.B (revision 6); revision 5 uses the plain SHA-256 of the input.
pub fn hash_r56(r: i64, pw: &[u8], salt: &[u8], udata: &[u8]) -> Vec<u8> {
    hash_r56_trace(r, pw, salt, udata).0
}

/// How the loop of Algorithm 2.B ended for one input.
#[derive(Clone, Copy, PartialEq, Eq, Debug)]
pub struct HashTrace {
    /// number of rounds executed (>= 64; 0 for revision 5)
    pub rounds: u32,
    /// last byte of E in the final round
    pub last_byte: u8,
}

impl HashTrace {
    /// exit exactly on the boundary of step (f): last byte == rounds - 32
    pub fn on_boundary(&self) -> bool {
        self.rounds >= 64 && self.last_byte as u32 == self.rounds - 32
    }
    /// exit at round 64 with a last byte well below the limit
    pub fn well_inside_64(&self) -> bool {
        self.rounds == 64 && self.last_byte < 24
    }
    /// needed more than 64 rounds
    pub fn over_64(&self) -> bool {
        self.rounds > 64
    }
}

/// Algorithm 2.B with its termination data.
pub fn hash_r56_trace(r: i64, pw: &[u8], salt: &[u8], udata: &[u8]) -> (Vec<u8>, HashTrace) {
    let mut k = sha256(&[pw, salt, udata]);
    if r == 5 {
        return (k, HashTrace { rounds: 0, last_byte: 0 });
    }
    let mut round: u32 = 0;
    #[allow(unused_assignments)]
    let mut last: u8 = 0;
    loop {
        let mut k1 = Vec::with_capacity(64 * (pw.len() + k.len() + udata.len()));
        for _ in 0..64 {
            k1.extend_from_slice(pw);
            k1.extend_from_slice(&k);
            k1.extend_from_slice(udata);
        }
        let mut iv = [0u8; 16];
        iv.copy_from_slice(&k[16..32]);
        let e = aes_cbc_encrypt_nopad(&k[..16], &iv, &k1).expect("K1 is a multiple of 16 bytes");
        let mut first = [0u8; 16];
        first.copy_from_slice(&e[..16]);
        k = match u128::from_be_bytes(first) % 3 {
            0 => Sha256::digest(&e).to_vec(),
            1 => Sha384::digest(&e).to_vec(),
            _ => Sha512::digest(&e).to_vec(),
        };
        round += 1;
        last = *e.last().unwrap();
        if round >= 64 && (last as u32) <= round - 32 {
            break;
        }
    }
    k.truncate(32);
    (k, HashTrace { rounds: round, last_byte: last })
}

/// Algorithm 8: (U, UE).
pub fn alg8(r: i64, file_key: &[u8; 32], pw: &[u8], vsalt: &[u8; 8], ksalt: &[u8; 8]) -> (Vec<u8>, Vec<u8>) {
    let mut u = hash_r56(r, pw, vsalt, &[]);
    u.extend_from_slice(vsalt);
    u.extend_from_slice(ksalt);
    let k = hash_r56(r, pw, ksalt, &[]);
    let ue = aes_cbc_encrypt_nopad(&k, &[0; 16], file_key).unwrap();
    (u, ue)
}

/// Algorithm 9: (O, OE); `u` is the 48-byte U string of Algorithm 8.
pub fn alg9(r: i64, file_key: &[u8; 32], pw: &[u8], vsalt: &[u8; 8], ksalt: &[u8; 8], u: &[u8]) -> (Vec<u8>, Vec<u8>) {
    let mut o = hash_r56(r, pw, vsalt, &u[..48]);
    o.extend_from_slice(vsalt);
    o.extend_from_slice(ksalt);
    let k = hash_r56(r, pw, ksalt, &u[..48]);
    let oe = aes_cbc_encrypt_nopad(&k, &[0; 16], file_key).unwrap();
    (o, oe)
}

/// Algorithm 10: the Perms entry.
pub fn alg10(file_key: &[u8; 32], p: i32, encrypt_metadata: bool, tail: &[u8; 4]) -> Vec<u8> {
    let mut b = [0u8; 16];
    b[..4].copy_from_slice(&(p as u32).to_le_bytes());
    b[4..8].copy_from_slice(&[0xff; 4]);
    b[8] = if encrypt_metadata { b'T' } else { b'F' };
    b[9..12].copy_from_slice(b"adb");
    b[12..].copy_from_slice(tail);
    aes_ecb_encrypt_block(file_key, &b).unwrap().to_vec()
}

/// Algorithm 11: is `pw` the user password?
pub fn alg11_user(enc: &EncDict, pw: &[u8]) -> bool {
    hash_r56(enc.r, pw, &enc.u[32..40], &[]) == enc.u[..32]
}

/// Algorithm 12: is `pw` the owner password?
pub fn alg12_owner(enc: &EncDict, pw: &[u8]) -> bool {
    hash_r56(enc.r, pw, &enc.o[32..40], &enc.u[..48]) == enc.o[..32]
}

/// Algorithm 13: validate Perms with the file key.
pub fn alg13(enc: &EncDict, file_key: &[u8]) -> Result<(), String> {
    let mut b = [0u8; 16];
    b.copy_from_slice(&enc.perms);
    let d = aes_ecb_decrypt_block(file_key, &b)?;
    if &d[9..12] != b"adb" {
        return Err("Perms: bytes 9-11 are not 'adb'".into());
    }
    if d[..4] != (enc.p as u32).to_le_bytes() {
        return Err(format!("Perms: bytes 0-3 {:02x?} differ from P {:08x}", &d[..4], enc.p as u32));
    }
    let want = if enc.encrypt_metadata { b'T' } else { b'F' };
    if d[8] != want {
        return Err(format!("Perms: byte 8 is {:?}, EncryptMetadata is {}", d[8] as char, enc.encrypt_metadata));
    }
    Ok(())
}

/// Algorithm 2.A restricted to one role: file key if `pw` is the user password.
pub fn alg2a_user(enc: &EncDict, pw: &[u8]) -> Option<Vec<u8>> {
    if !alg11_user(enc, pw) {
        return None;
    }
    let k = hash_r56(enc.r, pw, &enc.u[40..48], &[]);
    aes_cbc_decrypt_nopad(&k, &[0; 16], &enc.ue).ok()
}

/// Algorithm 2.A restricted to one role: file key if `pw` is the owner password.
pub fn alg2a_owner(enc: &EncDict, pw: &[u8]) -> Option<Vec<u8>> {
    if !alg12_owner(enc, pw) {
        return None;
    }
    let k = hash_r56(enc.r, pw, &enc.o[40..48], &enc.u[..48]);
    aes_cbc_decrypt_nopad(&k, &[0; 16], &enc.oe).ok()
}

// ---------------------------------------------------------------------------------------------
// opening a document

#[derive(Clone, Copy, PartialEq, Eq, Debug)]
pub enum Role {
    User,
    Owner,
}

/// Authenticate a (prepared) password in one role and return the file encryption key.
pub fn derive(enc: &EncDict, id0: &[u8], pw: &[u8], role: Role) -> Result<Vec<u8>, String> {
    derive_opt(enc, id0, pw, role, true)
}

/// `truncate127 = false` skips the truncation of Algorithm 2.A step (a) (classifier only).
pub fn derive_opt(enc: &EncDict, id0: &[u8], pw: &[u8], role: Role, truncate127: bool) -> Result<Vec<u8>, String> {
    if enc.r <= 4 {
        match role {
            Role::User => alg6_user(enc, id0, pw).ok_or_else(|| "user password not accepted (Algorithm 6)".to_string()),
            Role::Owner => alg7_owner(enc, id0, pw).map(|x| x.0).ok_or_else(|| "owner password not accepted (Algorithm 7)".to_string()),
        }
    } else {
        let mut p = pw.to_vec();
        if truncate127 {
            p.truncate(127);
        }
        let key = match role {
            Role::User => alg2a_user(enc, &p).ok_or_else(|| "user password not accepted (Algorithm 11)".to_string())?,
            Role::Owner => alg2a_owner(enc, &p).ok_or_else(|| "owner password not accepted (Algorithm 12)".to_string())?,
        };
        // Algorithm 2.A step (f) / Algorithm 13 (Perms) is evaluated by the callers as a field of its
        // own, so that a bad Perms entry is reported once and not as a failure to open the document.
        Ok(key)
    }
}

/// Algorithm 1 / 1.A: key for one object under one method.
pub fn object_key(file_key: &[u8], id: ObjectId, m: Method) -> Vec<u8> {
    match m {
        Method::AesV3 | Method::Identity => file_key.to_vec(),
        Method::Rc4 | Method::AesV2 => {
            let num = id.0.to_le_bytes();
            let gen = id.1.to_le_bytes();
            let mut parts: Vec<&[u8]> = vec![file_key, &num[..3], &gen[..2]];
            if m == Method::AesV2 {
                parts.push(b"sAlT");
            }
            let h = md5(&parts);
            h[..(file_key.len() + 5).min(16)].to_vec()
        }
    }
}

// ---------------------------------------------------------------------------------------------
// applying encryption to a document's objects

/// Source of initialisation vectors for the encrypting direction (no RNG: a pattern plus a counter).
#[derive(Clone, Debug)]
pub struct IvSource {
    pub pattern: [u8; 16],
    pub counter: u16,
}

impl IvSource {
    pub fn new(pattern: [u8; 16]) -> IvSource {
        IvSource { pattern, counter: 0 }
    }
    fn next(&mut self) -> [u8; 16] {
        let mut iv = self.pattern;
        let c = self.counter.to_be_bytes();
        iv[14] ^= c[0];
        iv[15] ^= c[1];
        self.counter = self.counter.wrapping_add(1);
        iv
    }
}

pub enum Direction {
    Encrypt(IvSource),
    Decrypt,
}

struct Ctx<'a> {
    enc: &'a EncDict,
    key: &'a [u8],
    q: Quirks,
    dir: Direction,
    /// (path, message) for every string/stream that could not be processed
    errors: Vec<(String, String)>,
    strings: u64,
    streams: u64,
}

impl Ctx<'_> {
    fn crypt(&mut self, m: Method, id: ObjectId, data: &[u8]) -> Result<Vec<u8>, String> {
        let k = object_key(self.key, id, m);
        match m {
            Method::Identity => Ok(data.to_vec()),
            Method::Rc4 => Ok(rc4(&k, data)),
            Method::AesV2 | Method::AesV3 => {
                let want = if m == Method::AesV2 { 16 } else { 32 };
                if k.len() != want {
                    return Err(format!("object key of {} bytes for {:?}", k.len(), m));
                }
                match &mut self.dir {
                    Direction::Encrypt(ivs) => {
                        let iv = ivs.next();
                        aes_pdf_encrypt(&k, &iv, data)
                    }
                    Direction::Decrypt => aes_pdf_decrypt(&k, data),
                }
            }
        }
    }

    fn walk(&mut self, id: ObjectId, o: &mut Object, path: &str, in_stream_dict: bool) {
        match o {
            Object::String(s, _) => {
                if in_stream_dict && self.q.skip_stream_dict_strings {
                    return;
                }
                let strf = self.enc.strf.clone();
                match self.enc.resolve(strf.as_deref(), &self.q).and_then(|m| self.crypt(m, id, s)) {
                    Ok(v) => {
                        *s = v;
                        self.strings += 1;
                    }
                    Err(e) => self.errors.push((path.to_string(), e)),
                }
            }
            Object::Array(a) => {
                for (i, x) in a.iter_mut().enumerate() {
                    self.walk(id, x, &format!("{}[{}]", path, i), in_stream_dict);
                }
            }
            Object::Dictionary(d) => {
                // §7.6.2 (ISO 32000-2): the hexadecimal string that is the Contents value of a signature
                // dictionary is not encrypted
                let exempt = !self.q.sig_contents_processed && is_signature_dictionary(d);
                for (k, x) in d.iter_mut() {
                    if exempt && k.as_slice() == b"Contents" {
                        continue;
                    }
                    self.walk(id, x, &format!("{}/{}", path, String::from_utf8_lossy(k)), in_stream_dict);
                }
            }
            Object::Stream(st) => {
                // §7.6.2: cross-reference streams are not encrypted, nor are the strings in their dictionaries
                if matches!(st.dict.get(b"Type"), Ok(Object::Name(n)) if n == b"XRef") {
                    return;
                }
                let method = self.stream_method(&st.dict);
                for (k, x) in st.dict.iter_mut() {
                    self.walk(id, x, &format!("{}.dict/{}", path, String::from_utf8_lossy(k)), true);
                }
                match method.and_then(|m| self.crypt(m, id, &st.content)) {
                    Ok(v) => {
                        st.content = v;
                        if matches!(st.dict.get(b"Length"), Ok(Object::Integer(_)) | Err(_)) {
                            st.dict.set("Length", st.content.len() as i64);
                        }
                        self.streams += 1;
                    }
                    Err(e) => self.errors.push((format!("{}.body", path), e)),
                }
            }
            _ => {}
        }
    }

    /// Which method applies to the body of a stream with this dictionary.
    fn stream_method(&self, d: &Dictionary) -> Result<Method, String> {
        if self.enc.v >= 4 {
            // a Crypt filter in the stream's own filter chain overrides StmF; its Name defaults to Identity
            let filters: Vec<Vec<u8>> = match d.get(b"Filter") {
                Ok(Object::Name(n)) => vec![n.clone()],
                // (an entry that is not a name keeps its position: DecodeParms is parallel to this array)
                Ok(Object::Array(a)) => a.iter().map(|x| if let Object::Name(n) = x { n.clone() } else { vec![] }).collect(),
                _ => vec![],
            };
            let array_ignored = self.q.crypt_parms_array_ignored && matches!(d.get(b"DecodeParms"), Ok(Object::Array(_)));
            if let Some(pos) = filters.iter().position(|f| f == b"Crypt").filter(|_| !array_ignored) {
                let parms: Option<&Dictionary> = match d.get(b"DecodeParms") {
                    Ok(Object::Dictionary(p)) if filters.len() == 1 => Some(p),
                    Ok(Object::Array(a)) => match a.get(pos) {
                        Some(Object::Dictionary(p)) => Some(p),
                        _ => None,
                    },
                    Ok(Object::Dictionary(p)) => Some(p),
                    _ => None,
                };
                let name = parms.and_then(|p| get_name(p, b"Name"));
                return match self.enc.resolve_for(name.as_deref(), &self.q, true) {
                    // lopdf reads an override that names an unknown filter as Identity
                    Err(_) if self.q.missing_filter_is_rc4 => Ok(Method::Identity),
                    x => x,
                };
            }
            if !self.enc.encrypt_metadata && matches!(d.get(b"Type"), Ok(Object::Name(n)) if n == b"Metadata") {
                return Ok(Method::Identity);
            }
        }
        self.enc.resolve(self.enc.stmf.as_deref(), &self.q)
    }
}

/// A signature dictionary in the narrow sense every reading of ISO 32000-2 7.6.2 / 12.8.1 agrees on:
/// /Type /Sig or /DocTimeStamp, a /ByteRange array, and a /Contents value that is a hexadecimal string
/// ("when ByteRange is present, the value shall be a hexadecimal string"). Dictionaries that merely have a
/// key named Contents (annotations, pages) are ordinary dictionaries: every string in them is processed.
pub fn is_signature_dictionary(d: &Dictionary) -> bool {
    matches!(d.get(b"Type"), Ok(Object::Name(n)) if n == b"Sig" || n == b"DocTimeStamp")
        && matches!(d.get(b"ByteRange"), Ok(Object::Array(_)))
        && matches!(d.get(b"Contents"), Ok(Object::String(_, lopdf::StringFormat::Hexadecimal)))
}

/// A dictionary some implementation might take for a signature dictionary: /Type /Sig or /DocTimeStamp, or a
/// /ByteRange entry (Type is optional in a signature dictionary). Used by C05 only, to decide for which
/// Contents strings *both* behaviours (processed / left alone) are accepted.
pub fn maybe_signature_dictionary(d: &Dictionary) -> bool {
    matches!(d.get(b"Type"), Ok(Object::Name(n)) if n == b"Sig" || n == b"DocTimeStamp") || d.has(b"ByteRange")
}

pub struct ApplyReport {
    pub errors: Vec<(String, String)>,
    pub strings: u64,
    pub streams: u64,
}

/// Encrypt or decrypt every string and stream of `objects` in place (§7.6.2), skipping the
/// encryption dictionary object `enc_id`. Objects that cannot be processed are left unchanged and
/// listed in the report.
pub fn apply(
    objects: &mut BTreeMap<ObjectId, Object>, enc_id: Option<ObjectId>, enc: &EncDict, file_key: &[u8], dir: Direction, q: Quirks,
) -> ApplyReport {
    let mut ctx = Ctx { enc, key: file_key, q, dir, errors: vec![], strings: 0, streams: 0 };
    for (id, o) in objects.iter_mut() {
        if Some(*id) == enc_id {
            continue;
        }
        ctx.walk(*id, o, &format!("obj({} {})", id.0, id.1), false);
    }
    ApplyReport { errors: ctx.errors, strings: ctx.strings, streams: ctx.streams }
}

// ---------------------------------------------------------------------------------------------
// making an encryption dictionary (reference as the encrypting side)

#[derive(Clone, Debug)]
pub struct MakeParams {
    pub v: i64,
    pub r: i64,
    /// value of Length (V2 only); also written for V4 as 128 when `write_length`
    pub key_bits: i64,
    pub write_length: bool,
    pub p: i32,
    pub encrypt_metadata: bool,
    /// None = do not write the entry (default true)
    pub write_encrypt_metadata: bool,
    /// crypt filters: name -> CFM name
    pub cf: Vec<(Vec<u8>, Vec<u8>)>,
    pub stmf: Option<Vec<u8>>,
    pub strf: Option<Vec<u8>>,
    /// revisions 5-6: the file encryption key (chosen by the writer)
    pub file_key: [u8; 32],
    /// arbitrary bytes the algorithms leave to the writer, taken from a menu
    pub u_tail: [u8; 16],
    pub salts: [[u8; 8]; 4],
    pub perms_tail: [u8; 4],
}

/// Algorithms 3, 4, 5 (R 2-4) or 8, 9, 10 (R 5-6): build the encryption dictionary for prepared
/// passwords; returns (dictionary, file encryption key).
pub fn make(mp: &MakeParams, id0: &[u8], user_pw: &[u8], owner_pw: &[u8]) -> (Dictionary, Vec<u8>) {
    let mut d = Dictionary::new();
    d.set("Filter", Object::Name(b"Standard".to_vec()));
    d.set("V", Object::Integer(mp.v));
    d.set("R", Object::Integer(mp.r));
    if mp.write_length {
        d.set("Length", Object::Integer(mp.key_bits));
    }
    d.set("P", Object::Integer(mp.p as i64));
    if mp.v >= 4 {
        let mut cf = Dictionary::new();
        for (name, cfm) in &mp.cf {
            let mut f = Dictionary::new();
            f.set("Type", Object::Name(b"CryptFilter".to_vec()));
            f.set("CFM", Object::Name(cfm.clone()));
            if mp.v == 4 {
                f.set("Length", Object::Integer(16));
            } else {
                f.set("Length", Object::Integer(32));
            }
            f.set("AuthEvent", Object::Name(b"DocOpen".to_vec()));
            cf.set(name.clone(), Object::Dictionary(f));
        }
        d.set("CF", Object::Dictionary(cf));
        if let Some(n) = &mp.stmf {
            d.set("StmF", Object::Name(n.clone()));
        }
        if let Some(n) = &mp.strf {
            d.set("StrF", Object::Name(n.clone()));
        }
        if mp.write_encrypt_metadata {
            d.set("EncryptMetadata", Object::Boolean(mp.encrypt_metadata));
        }
    }
    let hexs = |b: Vec<u8>| Object::String(b, lopdf::StringFormat::Hexadecimal);
    if mp.r <= 4 {
        let key_bits = match mp.v {
            1 => 40,
            2 => mp.key_bits,
            _ => 128,
        };
        let n = if mp.r == 2 { 5 } else { (key_bits / 8) as usize };
        let o = alg3_o(mp.r, n, owner_pw, user_pw, false);
        let enc = EncDict {
            v: mp.v,
            r: mp.r,
            key_bits,
            o: o.clone(),
            u: vec![],
            oe: vec![],
            ue: vec![],
            perms: vec![],
            p: mp.p,
            encrypt_metadata: if mp.v >= 4 { mp.encrypt_metadata } else { true },
            cf: BTreeMap::new(),
            stmf: None,
            strf: None,
        };
        let key = alg2_file_key(&enc, id0, user_pw);
        let u = if mp.r == 2 { alg4_u(&key) } else { alg5_u(&key, id0, &mp.u_tail) };
        d.set("O", hexs(o));
        d.set("U", hexs(u));
        (d, key)
    } else {
        let mut up = user_pw.to_vec();
        up.truncate(127);
        let mut op = owner_pw.to_vec();
        op.truncate(127);
        let (u, ue) = alg8(mp.r, &mp.file_key, &up, &mp.salts[0], &mp.salts[1]);
        let (o, oe) = alg9(mp.r, &mp.file_key, &op, &mp.salts[2], &mp.salts[3], &u);
        let perms = alg10(&mp.file_key, mp.p, mp.encrypt_metadata, &mp.perms_tail);
        d.set("O", hexs(o));
        d.set("U", hexs(u));
        d.set("OE", hexs(oe));
        d.set("UE", hexs(ue));
        d.set("Perms", hexs(perms));
        (d, mp.file_key.to_vec())
    }
}

// ---------------------------------------------------------------------------------------------
// self-test

fn unhex(s: &str) -> Vec<u8> {
    let s: String = s.chars().filter(|c| !c.is_whitespace()).collect();
    (0..s.len() / 2).map(|i| u8::from_str_radix(&s[2 * i..2 * i + 2], 16).unwrap()).collect()
}

fn expect(what: &str, got: &[u8], want_hex: &str) -> Result<(), String> {
    if got == unhex(want_hex).as_slice() {
        Ok(())
    } else {
        Err(format!("self-test {}: got {} want {}", what, crate::objjson::hex(got), want_hex))
    }
}

/// Known-answer tests of the primitives (FIPS 180-4, FIPS 197, SP 800-38A, RFC 1321, RFC 6229), of
/// the password preparation, and a round trip of the handler on itself for every revision.
/// Returns the number of checks made.
pub fn selftest() -> Result<u64, String> {
    let mut n = 0u64;
    // RFC 1321
    expect("md5('')", &md5(&[b""]), "d41d8cd98f00b204e9800998ecf8427e")?;
    expect("md5('abc')", &md5(&[b"a", b"bc"]), "900150983cd24fb0d6963f7d28e17f72")?;
    // FIPS 180-4 examples
    expect("sha256('abc')", &sha256(&[b"abc"]), "ba7816bf8f01cfea414140de5dae2223b00361a396177a9cb410ff61f20015ad")?;
    expect(
        "sha384('abc')",
        &Sha384::digest(b"abc"),
        "cb00753f45a35e8bb5a03d699ac65007272c32ab0eded1631a8b605a43ff5bed8086072ba1e7cc2358baeca134c825a7",
    )?;
    expect(
        "sha512('abc')",
        &Sha512::digest(b"abc"),
        "ddaf35a193617abacc417349ae20413112e6fa4e89a97ea20a9eeee64b55d39a2192992a274fc1a836ba3c23a3feebbd454d4423643ce80e2a9ac94fa54ca49f",
    )?;
    n += 5;
    // FIPS 197 appendix C
    let pt: [u8; 16] = unhex("00112233445566778899aabbccddeeff").try_into().unwrap();
    let k128 = unhex("000102030405060708090a0b0c0d0e0f");
    let k256 = unhex("000102030405060708090a0b0c0d0e0f101112131415161718191a1b1c1d1e1f");
    expect("aes128", &aes_ecb_encrypt_block(&k128, &pt)?, "69c4e0d86a7b0430d8cdb78070b4c55a")?;
    expect("aes256", &aes_ecb_encrypt_block(&k256, &pt)?, "8ea2b7ca516745bfeafc49904b496089")?;
    let ct: [u8; 16] = unhex("8ea2b7ca516745bfeafc49904b496089").try_into().unwrap();
    expect("aes256 inverse", &aes_ecb_decrypt_block(&k256, &ct)?, "00112233445566778899aabbccddeeff")?;
    // SP 800-38A F.2.1 / F.2.5 (CBC)
    let iv: [u8; 16] = k128.clone().try_into().unwrap();
    let p2 = unhex("6bc1bee22e409f96e93d7e117393172aae2d8a571e03ac9c9eb76fac45af8e51");
    let c = aes_cbc_encrypt_nopad(&unhex("2b7e151628aed2a6abf7158809cf4f3c"), &iv, &p2)?;
    expect("cbc-aes128", &c, "7649abac8119b246cee98e9b12e9197d5086cb9b507219ee95db113a917678b2")?;
    expect("cbc-aes128 inverse", &aes_cbc_decrypt_nopad(&unhex("2b7e151628aed2a6abf7158809cf4f3c"), &iv, &c)?, &crate::objjson::hex(&p2))?;
    let k = unhex("603deb1015ca71be2b73aef0857d77811f352c073b6108d72d9810a30914dff4");
    let c = aes_cbc_encrypt_nopad(&k, &iv, &p2)?;
    expect("cbc-aes256", &c, "f58c4c04d6e5f1ba779eabfb5f7bfbd69cfc4e967edb808d679f777bc6702c7d")?;
    n += 6;
    // RFC 6229: key stream = RC4 of zeros
    let zeros = vec![0u8; 272];
    let ks = rc4(&unhex("0102030405"), &zeros);
    expect("rc4-40 @0", &ks[..16], "b2396305f03dc027ccc3524a0a1118a8")?;
    expect("rc4-40 @16", &ks[16..32], "6982944f18fc82d589c403a47a0d0919")?;
    expect("rc4-40 @240", &ks[240..256], "28cb1132c96ce286421dcaadb8b69eae")?;
    expect("rc4-40 @256", &ks[256..272], "1cfcf62b03eddb641d77dfcf7f8d8c93")?;
    let ks = rc4(&unhex("01020304050607"), &zeros);
    expect("rc4-56 @0", &ks[..16], "293f02d47f37c9b633f2af5285feb46b")?;
    let ks = rc4(&unhex("0102030405060708"), &zeros);
    expect("rc4-64 @0", &ks[..16], "97ab8a1bf0afb96132f2f67258da15a8")?;
    let ks = rc4(&unhex("0102030405060708090a"), &zeros);
    expect("rc4-80 @0", &ks[..16], "ede3b04643e586cc907dc21851709902")?;
    let ks = rc4(&unhex("0102030405060708090a0b0c0d0e0f10"), &zeros);
    expect("rc4-128 @0", &ks[..16], "9ac7cc9a609d1ef7b2932899cde41b97")?;
    expect("rc4-128 @16", &ks[16..32], "5248c4959014126a6e8a84f11d1a9e1c")?;
    let ks = rc4(&unhex("833222772a"), &zeros);
    expect("rc4-40b @0", &ks[..16], "80ad97bdc973df8a2e879e92a497efda")?;
    n += 10;
    // password preparation
    if pdfdoc_bytes("p\u{e4}ss\u{20ac}\u{2022}") != Some(vec![b'p', 0xe4, b's', b's', 0xa0, 0x80]) {
        return Err("self-test pdfdoc".into());
    }
    if pdfdoc_bytes("\u{43f}").is_some() || pdfdoc_bytes("\u{ad}").is_some() {
        return Err("self-test pdfdoc (unencodable)".into());
    }
    // the PDFDocEncoding table, by code and by character: 232 defined cells, among them 0x18-0x1F and 0x80-0x9E;
    // every cell's character encodes to its code, no character has two codes, and no other character of the Basic
    // Multilingual Plane has a code (in particular U+0000-U+0008, U+007F, U+009F, U+00A0, U+00AD)
    {
        let cells = pdfdoc_cells();
        let codes: std::collections::BTreeSet<u8> = cells.iter().map(|c| c.0).collect();
        let chars: std::collections::BTreeSet<char> = cells.iter().map(|c| c.1).collect();
        if cells.len() != 232 || codes.len() != 232 || chars.len() != 232 {
            return Err(format!("self-test pdfdoc table: {} cells, {} codes, {} characters", cells.len(), codes.len(), chars.len()));
        }
        if !(0x18u8..=0x1F).chain(0x80..=0x9E).chain(0xA0..=0xAC).chain(0xAE..=0xFF).chain(0x20..=0x7E).all(|b| codes.contains(&b))
            || [0x00u8, 0x08, 0x0B, 0x0C, 0x0E, 0x17, 0x7F, 0x9F, 0xAD].iter().any(|b| codes.contains(b))
        {
            return Err("self-test pdfdoc table: set of defined codes".into());
        }
        for (code, ch) in &cells {
            if pdfdoc_code(*ch) != Some(*code) {
                return Err(format!("self-test pdfdoc table: U+{:04X} encodes to {:?}, Table D.2 has it at 0x{:02X}", *ch as u32, pdfdoc_code(*ch), code));
            }
        }
        for u in 0u32..=0xFFFF {
            if let Some(ch) = char::from_u32(u) {
                if !chars.contains(&ch) && pdfdoc_code(ch).is_some() {
                    return Err(format!("self-test pdfdoc table: U+{:04X} has a code but no cell", u));
                }
            }
        }
        n += 1;
    }
    if utf8_prep("\u{fb01}x\u{ad}pw\u{a0}1").ok() != Some(b"fixpw 1".to_vec()) {
        return Err("self-test saslprep".into());
    }
    if pad32(b"") != PAD || pad32(&[b'a'; 40])[..] != [b'a'; 32][..] || pad32(b"ab")[..4] != [b'a', b'b', 0x28, 0xBF] {
        return Err("self-test pad32".into());
    }
    n += 4;
    // PKCS#5 and IV framing
    for len in [0usize, 1, 15, 16, 17, 31, 32, 33] {
        let plain: Vec<u8> = (0..len).map(|i| (i * 7 + 1) as u8).collect();
        let c = aes_pdf_encrypt(&k128, &[0xA5; 16], &plain)?;
        if c.len() != 16 + (len / 16 + 1) * 16 || c[..16] != [0xA5; 16] || aes_pdf_decrypt(&k128, &c)? != plain {
            return Err(format!("self-test AES framing, length {}", len));
        }
        n += 1;
    }
    // handler round trip on itself
    let id0 = b"0123456789abcdef".to_vec();
    let mut objects: BTreeMap<ObjectId, Object> = BTreeMap::new();
    let mut d = Dictionary::new();
    d.set("S", Object::string_literal("a string of more than sixteen bytes"));
    d.set("A", Object::Array(vec![Object::string_literal(""), Object::Integer(3)]));
    objects.insert((1, 0), Object::Dictionary(d.clone()));
    objects.insert((70000, 3), Object::Stream(lopdf::Stream::new(d, (0u8..=255).collect())));
    for (v, r, bits, cfm) in [
        (1, 2, 40, "V2"),
        (2, 3, 40, "V2"),
        (2, 3, 96, "V2"),
        (2, 3, 128, "V2"),
        (4, 4, 128, "V2"),
        (4, 4, 128, "AESV2"),
        (5, 5, 256, "AESV3"),
        (5, 6, 256, "AESV3"),
    ] {
        for (up, op) in [(&b""[..], &b""[..]), (b"user", b"owner"), (b"user", b""), (b"", b"owner")] {
            let mp = MakeParams {
                v,
                r,
                key_bits: bits,
                write_length: v >= 2,
                p: -3904,
                encrypt_metadata: true,
                write_encrypt_metadata: true,
                cf: vec![(b"StdCF".to_vec(), cfm.as_bytes().to_vec())],
                stmf: Some(b"StdCF".to_vec()),
                strf: Some(b"StdCF".to_vec()),
                file_key: [7; 32],
                u_tail: [0; 16],
                salts: [[1; 8], [2; 8], [3; 8], [4; 8]],
                perms_tail: [9; 4],
            };
            let (dict, key) = make(&mp, &id0, up, op);
            let enc = EncDict::parse(&dict)?;
            let ku = derive(&enc, &id0, up, Role::User)?;
            // an absent owner password means the user password opens the document as owner (R<=4)
            let owner_string = if op.is_empty() && r <= 4 { up } else { op };
            let ko = derive(&enc, &id0, owner_string, Role::Owner)?;
            if r >= 5 {
                alg13(&enc, &key)?;
            }
            if ku != key || ko != key {
                return Err(format!("self-test V{} R{}: keys differ", v, r));
            }
            if derive(&enc, &id0, b"neither", Role::User).is_ok() || derive(&enc, &id0, b"neither", Role::Owner).is_ok() {
                return Err(format!("self-test V{} R{}: wrong password accepted", v, r));
            }
            let mut o2 = objects.clone();
            let rep = apply(&mut o2, None, &enc, &key, Direction::Encrypt(IvSource::new([0x11; 16])), Quirks::default());
            if !rep.errors.is_empty() || o2 == objects {
                return Err(format!("self-test V{} R{}: encrypt {:?}", v, r, rep.errors));
            }
            let rep = apply(&mut o2, None, &enc, &ku, Direction::Decrypt, Quirks::default());
            if !rep.errors.is_empty() || o2 != objects {
                return Err(format!("self-test V{} R{}: round trip {:?}", v, r, rep.errors));
            }
            n += 1;
        }
    }
    Ok(n)
}

// ---------------------------------------------------------------------------------------------
// Case menus shared by the C05 and C06 binaries (documents, handler configurations, passwords,
// permission words) and the glue that builds lopdf's `EncryptionState` through lopdf's *public API*.
// This part is harness plumbing, not part of the reference handler above: nothing in it is used by
// the reference algorithms.
pub mod menu {
    use lopdf::encryption::crypt_filters::{Aes128CryptFilter, Aes256CryptFilter, CryptFilter, IdentityCryptFilter, Rc4CryptFilter};
    use lopdf::{Dictionary, Document, EncryptionState, EncryptionVersion, Object, ObjectId, Permissions, Stream, StringFormat};
    use serde_json::{json, Value};
    use std::collections::BTreeMap;
    use std::sync::Arc;

    /// string / stream lengths around the AES block edges
    pub const LENS: [usize; 8] = [0, 1, 15, 16, 17, 31, 32, 33];

    pub fn pattern(len: usize, salt: u32) -> Vec<u8> {
        (0..len).map(|i| ((i as u32 * 7 + salt * 13 + 1) & 0xff) as u8).collect()
    }

    /// crypt method a configuration names for strings or streams
    #[derive(Clone, Copy, PartialEq, Eq, Debug, Hash)]
    pub enum F {
        Rc4,
        Aes128,
        Aes256,
        Identity,
    }

    impl F {
        pub fn name(self) -> &'static str {
            match self {
                F::Rc4 => "rc4",
                F::Aes128 => "aes128",
                F::Aes256 => "aes256",
                F::Identity => "identity",
            }
        }
        pub fn from_name(s: &str) -> F {
            match s {
                "rc4" => F::Rc4,
                "aes128" => F::Aes128,
                "aes256" => F::Aes256,
                _ => F::Identity,
            }
        }
    }

    #[derive(Clone, Copy, PartialEq, Eq, Debug, Hash)]
    pub enum Ver {
        V1,
        V2(usize),
        V4,
        R5,
        V5,
    }

    /// One handler configuration as a lopdf user would request it.
    #[derive(Clone, PartialEq, Eq, Debug, Hash)]
    pub struct Config {
        pub ver: Ver,
        pub stm: F,
        pub strf: F,
        /// /Identity is also put into the crypt filter map handed to lopdf (lopdf then writes a CF entry
        /// named Identity). false: StmF/StrF just name /Identity.
        pub identity_in_cf: bool,
        /// the identity filter is registered under the custom name /NoCrypt (C06 only)
        pub custom_identity: bool,
        pub em: bool,
        /// CF additionally holds crypt filters that neither StmF nor StrF names (one per CFM of the version,
        /// see `extra_entries`); only a stream's own Crypt filter can select them
        pub extra_cf: bool,
    }

    pub const FILE_KEY: [u8; 32] = [
        0x3a, 0x91, 0x07, 0xc4, 0x5e, 0xd2, 0x18, 0x6b, 0xf0, 0x2d, 0x84, 0x49, 0xb7, 0x1c, 0xe3, 0x75, 0x0f, 0xa8, 0x56, 0xcd,
        0x21, 0x9e, 0x63, 0xba, 0x47, 0xd8, 0x0c, 0x95, 0x7e, 0x32, 0xeb, 0x50,
    ];

    impl Config {
        pub fn revision(&self) -> i64 {
            match self.ver {
                Ver::V1 => 2,
                Ver::V2(_) => 3,
                Ver::V4 => 4,
                Ver::R5 => 5,
                Ver::V5 => 6,
            }
        }
        pub fn version(&self) -> i64 {
            match self.ver {
                Ver::V1 => 1,
                Ver::V2(_) => 2,
                Ver::V4 => 4,
                Ver::R5 | Ver::V5 => 5,
            }
        }
        pub fn key_bits(&self) -> i64 {
            match self.ver {
                Ver::V1 => 40,
                Ver::V2(b) => b as i64,
                Ver::V4 => 128,
                Ver::R5 | Ver::V5 => 256,
            }
        }
        pub fn has_filters(&self) -> bool {
            !matches!(self.ver, Ver::V1 | Ver::V2(_))
        }
        /// name under which a method is registered / referenced
        pub fn filter_name(&self, f: F) -> Vec<u8> {
            match f {
                F::Identity => {
                    if self.custom_identity {
                        b"NoCrypt".to_vec()
                    } else {
                        b"Identity".to_vec()
                    }
                }
                F::Rc4 => b"CFRC4".to_vec(),
                F::Aes128 | F::Aes256 => b"StdCF".to_vec(),
            }
        }
        pub fn to_json(&self) -> Value {
            let v = match self.ver {
                Ver::V1 => "V1".to_string(),
                Ver::V2(b) => format!("V2/{}", b),
                Ver::V4 => "V4".to_string(),
                Ver::R5 => "R5".to_string(),
                Ver::V5 => "V5".to_string(),
            };
            json!({"ver": v, "stm": self.stm.name(), "str": self.strf.name(), "identity_in_cf": self.identity_in_cf,
                   "custom_identity": self.custom_identity, "encrypt_metadata": self.em, "extra_cf": self.extra_cf,
                   "cf": self.cf_entries().iter().map(|(n, f)| json!([String::from_utf8_lossy(n), f.name()])).collect::<Vec<_>>()})
        }
        pub fn from_json(v: &Value) -> Config {
            let s = v["ver"].as_str().unwrap_or("V1");
            let ver = match s {
                "V1" => Ver::V1,
                "V4" => Ver::V4,
                "R5" => Ver::R5,
                "V5" => Ver::V5,
                _ => Ver::V2(s.trim_start_matches("V2/").parse().unwrap_or(40)),
            };
            Config {
                ver,
                stm: F::from_name(v["stm"].as_str().unwrap_or("rc4")),
                strf: F::from_name(v["str"].as_str().unwrap_or("rc4")),
                identity_in_cf: v["identity_in_cf"].as_bool().unwrap_or(false),
                custom_identity: v["custom_identity"].as_bool().unwrap_or(false),
                em: v["encrypt_metadata"].as_bool().unwrap_or(true),
                extra_cf: v["extra_cf"].as_bool().unwrap_or(false),
            }
        }
        /// Crypt filters CF holds beyond those StmF / StrF name: one per CFM the version allows, under names that
        /// sort before, between and after the names of the default filters (CFRC4, Identity, NoCrypt, StdCF).
        pub fn extra_entries(&self) -> Vec<(Vec<u8>, F)> {
            if !self.extra_cf || !self.has_filters() {
                return vec![];
            }
            match self.ver {
                Ver::V4 => vec![(b"AltV2".to_vec(), F::Rc4), (b"MidNone".to_vec(), F::Identity), (b"XAES".to_vec(), F::Aes128)],
                _ => vec![(b"AltAES".to_vec(), F::Aes256), (b"XNone".to_vec(), F::Identity)],
            }
        }
        /// Every entry of the configuration's CF dictionary: the filters StmF / StrF name (the predefined
        /// /Identity only when it is registered explicitly), then the extra ones.
        pub fn cf_entries(&self) -> Vec<(Vec<u8>, F)> {
            let mut out: Vec<(Vec<u8>, F)> = vec![];
            if !self.has_filters() {
                return out;
            }
            for f in [self.stm, self.strf] {
                let name = self.filter_name(f);
                if out.iter().any(|(n, _)| *n == name) || (f == F::Identity && !self.identity_in_cf && !self.custom_identity) {
                    continue;
                }
                out.push((name, f));
            }
            out.extend(self.extra_entries());
            out
        }
        /// method a crypt filter *name* stands for in this configuration (per the standard)
        pub fn method_of_name(&self, name: Option<&[u8]>) -> F {
            if !self.has_filters() {
                return F::Rc4;
            }
            match name {
                None => F::Identity,
                Some(n) => {
                    if n == self.filter_name(self.stm).as_slice() {
                        self.stm
                    } else if n == self.filter_name(self.strf).as_slice() {
                        self.strf
                    } else {
                        self.extra_entries().into_iter().find(|(x, _)| x.as_slice() == n).map(|x| x.1).unwrap_or(F::Identity)
                    }
                }
            }
        }
    }

    /// The configuration space of DESIGN C05: V1; V2 x 12 key lengths; V4 x {RC4, AES-128, Identity}^2 x
    /// EncryptMetadata (x the two ways of naming Identity); R5; V5 x {AES-256, Identity}^2.
    pub fn configs() -> Vec<Config> {
        let mut out = vec![Config { ver: Ver::V1, stm: F::Rc4, strf: F::Rc4, identity_in_cf: false, custom_identity: false, em: true, extra_cf: false }];
        for bits in (40..=128).step_by(8) {
            out.push(Config { ver: Ver::V2(bits), stm: F::Rc4, strf: F::Rc4, identity_in_cf: false, custom_identity: false, em: true, extra_cf: false });
        }
        for em in [true, false] {
            for stm in [F::Rc4, F::Aes128, F::Identity] {
                for strf in [F::Rc4, F::Aes128, F::Identity] {
                    let id = stm == F::Identity || strf == F::Identity;
                    for in_cf in if id { vec![false, true] } else { vec![false] } {
                        out.push(Config { ver: Ver::V4, stm, strf, identity_in_cf: in_cf, custom_identity: false, em, extra_cf: false });
                    }
                }
            }
        }
        for em in [true, false] {
            out.push(Config { ver: Ver::R5, stm: F::Aes256, strf: F::Aes256, identity_in_cf: false, custom_identity: false, em, extra_cf: false });
        }
        for em in [true, false] {
            for stm in [F::Aes256, F::Identity] {
                for strf in [F::Aes256, F::Identity] {
                    let id = stm == F::Identity || strf == F::Identity;
                    for in_cf in if id { vec![false, true] } else { vec![false] } {
                        out.push(Config { ver: Ver::V5, stm, strf, identity_in_cf: in_cf, custom_identity: false, em, extra_cf: false });
                    }
                }
            }
        }
        out
    }

    /// Configurations whose CF dictionary holds MORE crypt filters than StmF / StrF name (`extra_cf`): V4 x
    /// {RC4, AES-128, Identity}^2 for (StmF, StrF), revision 5 and V5 x {AES-256, Identity}^2; EncryptMetadata true,
    /// plus EncryptMetadata false for the all-encrypting and the all-Identity assignment. With StmF = StrF =
    /// /Identity the registered filters are reachable through a stream's own Crypt filter only.
    pub fn configs_extra_cf() -> Vec<Config> {
        let mut out = vec![];
        for (ver, menu) in [(Ver::V4, vec![F::Rc4, F::Aes128, F::Identity]), (Ver::R5, vec![F::Aes256, F::Identity]), (Ver::V5, vec![F::Aes256, F::Identity])] {
            for &stm in &menu {
                for &strf in &menu {
                    out.push(Config { ver, stm, strf, identity_in_cf: false, custom_identity: false, em: true, extra_cf: true });
                }
            }
            for f in [*menu.iter().find(|f| **f != F::Rc4 && **f != F::Identity).unwrap(), F::Identity] {
                out.push(Config { ver, stm: f, strf: f, identity_in_cf: false, custom_identity: false, em: false, extra_cf: true });
            }
        }
        out
    }

    /// CFM name the standard defines for a method
    pub fn nominal_cfm(f: F) -> &'static [u8] {
        match f {
            F::Rc4 => b"V2",
            F::Aes128 => b"AESV2",
            F::Aes256 => b"AESV3",
            F::Identity => b"None",
        }
    }

    /// Build lopdf's EncryptionState for a configuration through the public API only.
    pub fn build_state(cfg: &Config, doc: &Document, user: &str, owner: &str, perm_bits: u64) -> Result<EncryptionState, String> {
        let permissions = Permissions::from_bits_truncate(perm_bits);
        let mut cfs: BTreeMap<Vec<u8>, Arc<dyn CryptFilter>> = BTreeMap::new();
        for f in [cfg.stm, cfg.strf] {
            let name = cfg.filter_name(f);
            match f {
                F::Identity => {
                    if cfg.identity_in_cf || cfg.custom_identity {
                        cfs.insert(name, Arc::new(IdentityCryptFilter));
                    }
                }
                F::Rc4 => {
                    cfs.insert(name, Arc::new(Rc4CryptFilter));
                }
                F::Aes128 => {
                    cfs.insert(name, Arc::new(Aes128CryptFilter));
                }
                F::Aes256 => {
                    cfs.insert(name, Arc::new(Aes256CryptFilter));
                }
            }
        }
        for (name, f) in cfg.extra_entries() {
            let filter: Arc<dyn CryptFilter> = match f {
                F::Identity => Arc::new(IdentityCryptFilter),
                F::Rc4 => Arc::new(Rc4CryptFilter),
                F::Aes128 => Arc::new(Aes128CryptFilter),
                F::Aes256 => Arc::new(Aes256CryptFilter),
            };
            cfs.insert(name, filter);
        }
        let version = match cfg.ver {
            Ver::V1 => EncryptionVersion::V1 { document: doc, owner_password: owner, user_password: user, permissions },
            Ver::V2(bits) => EncryptionVersion::V2 { document: doc, owner_password: owner, user_password: user, key_length: bits, permissions },
            Ver::V4 => EncryptionVersion::V4 {
                document: doc,
                encrypt_metadata: cfg.em,
                crypt_filters: cfs,
                stream_filter: cfg.filter_name(cfg.stm),
                string_filter: cfg.filter_name(cfg.strf),
                owner_password: owner,
                user_password: user,
                permissions,
            },
            #[allow(deprecated)]
            Ver::R5 => EncryptionVersion::R5 {
                encrypt_metadata: cfg.em,
                crypt_filters: cfs,
                file_encryption_key: &FILE_KEY,
                stream_filter: cfg.filter_name(cfg.stm),
                string_filter: cfg.filter_name(cfg.strf),
                owner_password: owner,
                user_password: user,
                permissions,
            },
            Ver::V5 => EncryptionVersion::V5 {
                encrypt_metadata: cfg.em,
                crypt_filters: cfs,
                file_encryption_key: &FILE_KEY,
                stream_filter: cfg.filter_name(cfg.stm),
                string_filter: cfg.filter_name(cfg.strf),
                owner_password: owner,
                user_password: user,
                permissions,
            },
        };
        match crate::util::guard(|| EncryptionState::try_from(version)) {
            Ok(Ok(s)) => Ok(s),
            Ok(Err(e)) => Err(format!("EncryptionState::try_from: {:?}", e)),
            Err(p) => Err(p),
        }
    }

    /// The eight permission flags lopdf exposes (bit values of the P word).
    pub const FLAGS: [u64; 8] = [1 << 2, 1 << 3, 1 << 4, 1 << 5, 1 << 8, 1 << 9, 1 << 10, 1 << 11];

    pub fn all_flags() -> u64 {
        FLAGS.iter().sum()
    }

    /// all, none, each single flag
    pub fn perm_menu() -> Vec<u64> {
        let mut v = vec![all_flags(), 0];
        v.extend(FLAGS);
        v
    }

    /// all 256 conforming permission words (as flag sets)
    pub fn perm_all256() -> Vec<u64> {
        (0u32..256).map(|m| (0..8).filter(|i| m & (1 << i) != 0).map(|i| FLAGS[i]).sum()).collect()
    }

    /// The conforming 32-bit P word for a flag set: bits 7-8 and 13-32 set, bits 1-2 clear.
    pub fn p_word(flags: u64) -> i32 {
        ((flags as u32) | 0xFFFF_F0C0) as i32
    }

    #[derive(Clone, Copy, PartialEq, Eq, Debug, Hash)]
    pub enum DocKind {
        Strings,
        Streams,
        StreamDict,
        Ids,
        Crypt,
        Page,
        /// C05: non-stream dictionaries typed /Metadata (indirect, and nested inside other objects)
        MetaDict,
        /// C05: a document *loaded* from a file with an object stream (lopdf keeps the /ObjStm container in
        /// memory) in which a member object was modified after loading
        ObjStmLoaded,
        /// "ladders": one string at *every* nesting depth 1..=D inside arrays / dictionaries / both
        /// alternating / a stream dictionary, D within what the reader accepts (so the document can be
        /// saved and loaded), plus a wide array and a wide dictionary
        DeepLoadable,
        /// the same ladders with D far beyond what the reader accepts: exists in memory only
        DeepMemory,
        /// streams whose Crypt filter parameters are given in the *array* form of /DecodeParms
        CryptArray,
        /// streams with a Crypt filter and no /DecodeParms at all (every parameter at its default)
        CryptBare,
        /// per-stream Crypt overrides naming EVERY entry of the configuration's CF dictionary (also the ones
        /// neither StmF nor StrF names), /Identity, and no name, in the dictionary and the array form of /DecodeParms
        CryptNamed,
        /// per-stream Crypt overrides whose Name is not usable: a filter that is not defined, the empty name, a
        /// differently-cased name, a string instead of a name (outside the standard: only lopdf against itself)
        CryptUndefined,
        /// strings (literal and hexadecimal format, 16 bytes or more) under key names an implementation might be
        /// tempted to special-case (Contents, ID, O, U, OE, UE, Perms, Cert, Filter, Encrypt, ...) in ordinary
        /// dictionaries: top-level, nested, in arrays, in stream dictionaries; dictionaries typed /XRef, /ObjStm
        /// and one that looks like an encryption dictionary, nested in an ordinary object
        KeyNames,
        /// real signature dictionaries (/Type /Sig resp. /DocTimeStamp, /ByteRange, hexadecimal /Contents)
        SigDict,
        /// dictionaries that are signature dictionaries under some readings only (no /Type, no /ByteRange,
        /// literal-format Contents): only lopdf against itself, both treatments of Contents accepted
        SigAmbiguous,
        /// strings of 2^7-1 .. 2^12+1 bytes (each power of two and its two neighbours) x {literal, hexadecimal} format x
        /// {printable, mixed, all-binary, escape-heavy} content, in ordinary dictionaries and arrays AND as the Contents
        /// of signature dictionaries (top-level, nested in a field, in an array); signature Contents of 0..33 bytes
        BigStrings,
        /// the same axes at 2^16-1, 2^16, 2^16+1 bytes (twelve strings)
        HugeStrings,
    }

    impl DocKind {
        pub fn name(self) -> &'static str {
            match self {
                DocKind::Strings => "strings",
                DocKind::Streams => "streams",
                DocKind::StreamDict => "stream_dict_strings",
                DocKind::Ids => "ids",
                DocKind::Crypt => "crypt_override",
                DocKind::Page => "page",
                DocKind::MetaDict => "metadata_typed_dictionaries",
                DocKind::ObjStmLoaded => "loaded_from_object_stream_then_edited",
                DocKind::DeepLoadable => "nesting_ladders_within_reader_limit",
                DocKind::DeepMemory => "nesting_ladders_beyond_reader_limit",
                DocKind::CryptArray => "crypt_override_decodeparms_array",
                DocKind::CryptBare => "crypt_filter_without_decodeparms",
                DocKind::CryptNamed => "crypt_override_naming_every_cf_entry",
                DocKind::CryptUndefined => "crypt_override_with_unusable_name",
                DocKind::KeyNames => "strings_under_special_looking_keys",
                DocKind::SigDict => "signature_dictionaries",
                DocKind::SigAmbiguous => "signature_like_dictionaries",
                DocKind::BigStrings => "strings_of_128_to_4097_bytes_by_format_and_content",
                DocKind::HugeStrings => "strings_of_65535_to_65537_bytes_by_format_and_content",
            }
        }
        pub fn from_name(s: &str) -> DocKind {
            match s {
                "strings" => DocKind::Strings,
                "streams" => DocKind::Streams,
                "stream_dict_strings" => DocKind::StreamDict,
                "ids" => DocKind::Ids,
                "crypt_override" => DocKind::Crypt,
                "metadata_typed_dictionaries" => DocKind::MetaDict,
                "loaded_from_object_stream_then_edited" => DocKind::ObjStmLoaded,
                "nesting_ladders_within_reader_limit" => DocKind::DeepLoadable,
                "nesting_ladders_beyond_reader_limit" => DocKind::DeepMemory,
                "crypt_override_decodeparms_array" => DocKind::CryptArray,
                "crypt_filter_without_decodeparms" => DocKind::CryptBare,
                "crypt_override_naming_every_cf_entry" => DocKind::CryptNamed,
                "crypt_override_with_unusable_name" => DocKind::CryptUndefined,
                "strings_under_special_looking_keys" => DocKind::KeyNames,
                "signature_dictionaries" => DocKind::SigDict,
                "signature_like_dictionaries" => DocKind::SigAmbiguous,
                "strings_of_128_to_4097_bytes_by_format_and_content" => DocKind::BigStrings,
                "strings_of_65535_to_65537_bytes_by_format_and_content" => DocKind::HugeStrings,
                _ => DocKind::Page,
            }
        }
        pub const ALL: [DocKind; 6] = [DocKind::Strings, DocKind::Streams, DocKind::StreamDict, DocKind::Ids, DocKind::Crypt, DocKind::Page];
        /// the C05 menu: `ALL` plus the two documents only the lopdf-against-lopdf protocol needs
        pub const C05_ALL: [DocKind; 8] = [
            DocKind::Strings,
            DocKind::Streams,
            DocKind::StreamDict,
            DocKind::Ids,
            DocKind::Crypt,
            DocKind::Page,
            DocKind::MetaDict,
            DocKind::ObjStmLoaded,
        ];
        /// kinds that need crypt filters (V >= 4)
        pub fn needs_filters(self) -> bool {
            matches!(self, DocKind::Crypt | DocKind::CryptArray | DocKind::CryptBare | DocKind::CryptNamed | DocKind::CryptUndefined)
        }
        pub fn is_deep(self) -> bool {
            matches!(self, DocKind::DeepLoadable | DocKind::DeepMemory)
        }
    }

    /// ladder depth `build_doc` uses for the two deep kinds (C05 passes measured / larger depths to `build_deep`)
    pub const DEEP_LOADABLE_DEFAULT: usize = 120;
    pub const DEEP_MEMORY_DEFAULT: usize = 300;

    /// Which containers a ladder is made of, outermost first.
    #[derive(Clone, Copy, PartialEq, Eq, Debug)]
    pub enum Nest {
        Arrays,
        Dicts,
        ArrayFirst,
        DictFirst,
        /// level 1 is the dictionary of a stream, deeper levels alternate array / dictionary
        StreamDict,
    }

    pub const NESTS: [Nest; 5] = [Nest::Arrays, Nest::Dicts, Nest::ArrayFirst, Nest::DictFirst, Nest::StreamDict];

    /// A ladder: `depth` nested containers; the container at level k (1 = outermost) holds one string of
    /// 16..33 bytes - that string is enclosed by exactly k arrays/dictionaries of the indirect object -
    /// and the container of level k+1.
    pub fn ladder(nest: Nest, depth: usize, salt: u32) -> Object {
        assert!(depth >= 1);
        let mut child: Option<Object> = None;
        for k in (1..=depth).rev() {
            let st = s(16 + (k * 5 + salt as usize) % 18, salt.wrapping_mul(31).wrapping_add(k as u32), k % 7 == 0);
            let as_array = match nest {
                Nest::Arrays => true,
                Nest::Dicts => false,
                Nest::ArrayFirst => k % 2 == 1,
                Nest::DictFirst => k % 2 == 0,
                Nest::StreamDict => k % 2 == 0,
            };
            let o = if k == 1 && nest == Nest::StreamDict {
                let mut d = dict(vec![("S", st)]);
                if let Some(c) = child.take() {
                    d.set("K", c);
                }
                Object::Stream(Stream::new(d, pattern(24, salt + 7)))
            } else if as_array {
                let mut v = vec![Object::Integer(k as i64), st];
                if let Some(c) = child.take() {
                    v.push(c);
                }
                Object::Array(v)
            } else {
                let mut d = dict(vec![("N", Object::Integer(k as i64)), ("S", st)]);
                if let Some(c) = child.take() {
                    d.set("K", c);
                }
                Object::Dictionary(d)
            };
            child = Some(o);
        }
        child.unwrap()
    }

    /// The deep documents: object 1 catalog, objects 2..=6 one ladder per `Nest`; `DeepLoadable` adds a wide
    /// array (1030 strings) and a wide dictionary (260 strings) as objects 7 and 8.
    pub fn build_deep(kind: DocKind, depth: usize, id0: &[u8]) -> Document {
        let mut doc = Document::with_version("1.7");
        doc.objects.insert((1, 0), Object::Dictionary(dict(vec![("Type", Object::Name(b"Catalog".to_vec()))])));
        for (i, nest) in NESTS.iter().enumerate() {
            doc.objects.insert((2 + i as u32, 0), ladder(*nest, depth, 200 + 10 * i as u32));
        }
        doc.max_id = 6;
        if kind == DocKind::DeepLoadable {
            let wide: Vec<Object> = (0..1030).map(|i| if i % 10 == 9 { Object::Integer(i) } else { s(16 + (i as usize % 2), 300 + i as u32, i % 3 == 0) }).collect();
            doc.objects.insert((7, 0), Object::Array(wide));
            let mut d = Dictionary::new();
            for i in 0..260u32 {
                d.set(format!("K{}", i), s(16 + (i as usize % 3), 400 + i, i % 2 == 0));
            }
            doc.objects.insert((8, 0), Object::Dictionary(d));
            doc.max_id = 8;
        }
        finish_trailer(&mut doc, id0);
        doc
    }

    fn finish_trailer(doc: &mut Document, id0: &[u8]) {
        doc.trailer.set("Root", Object::Reference((1, 0)));
        let id1: Vec<u8> = id0.iter().map(|b| b ^ 0x5a).collect();
        doc.trailer.set(
            "ID",
            Object::Array(vec![Object::String(id0.to_vec(), StringFormat::Hexadecimal), Object::String(id1, StringFormat::Hexadecimal)]),
        );
    }

    /// Shallowest nesting depth at which a string of `expected` differs from the string at the same place
    /// in `actual` (None: no string differs, or the shapes differ).
    pub fn first_differing_string_depth(expected: &Object, actual: &Object) -> Option<usize> {
        fn go(a: &Object, b: &Object, depth: usize, best: &mut Option<usize>) {
            match (a, b) {
                (Object::String(x, _), Object::String(y, _)) => {
                    if x != y && best.map(|d| depth < d).unwrap_or(true) {
                        *best = Some(depth);
                    }
                }
                (Object::Array(x), Object::Array(y)) => {
                    for (p, q) in x.iter().zip(y.iter()) {
                        go(p, q, depth + 1, best);
                    }
                }
                (Object::Dictionary(x), Object::Dictionary(y)) => {
                    for (k, p) in x.iter() {
                        if let Ok(q) = y.get(k) {
                            go(p, q, depth + 1, best);
                        }
                    }
                }
                (Object::Stream(x), Object::Stream(y)) => {
                    for (k, p) in x.dict.iter() {
                        if let Ok(q) = y.dict.get(k) {
                            go(p, q, depth + 1, best);
                        }
                    }
                }
                _ => {}
            }
        }
        let mut best = None;
        go(expected, actual, 0, &mut best);
        best
    }

    // -----------------------------------------------------------------------------------------
    // shapes of the trailer's /ID entry

    #[derive(Clone, Copy, PartialEq, Eq, Debug, Hash)]
    pub enum IdShape {
        /// two hexadecimal strings (what every other document of the menu has)
        Hex,
        /// the same bytes written as literal strings
        Literal,
        /// the first element is the empty string
        EmptyString,
        /// an array with the first element only
        OneElement,
        /// no /ID entry
        Absent,
        /// /ID []
        EmptyArray,
        /// the first element is an integer
        FirstInteger,
        /// the first element is a name
        FirstName,
        /// /ID is a string, not an array
        NotArray,
    }

    impl IdShape {
        pub const ALL: [IdShape; 9] = [
            IdShape::Hex,
            IdShape::Literal,
            IdShape::EmptyString,
            IdShape::OneElement,
            IdShape::Absent,
            IdShape::EmptyArray,
            IdShape::FirstInteger,
            IdShape::FirstName,
            IdShape::NotArray,
        ];
        pub fn name(self) -> &'static str {
            match self {
                IdShape::Hex => "hex",
                IdShape::Literal => "literal",
                IdShape::EmptyString => "first_element_empty_string",
                IdShape::OneElement => "one_element",
                IdShape::Absent => "absent",
                IdShape::EmptyArray => "empty_array",
                IdShape::FirstInteger => "first_element_integer",
                IdShape::FirstName => "first_element_name",
                IdShape::NotArray => "string_instead_of_array",
            }
        }
        pub fn from_name(s: &str) -> IdShape {
            IdShape::ALL.into_iter().find(|x| x.name() == s).unwrap_or(IdShape::Hex)
        }
        /// true if the first element of /ID is a string, i.e. Algorithm 2 (R <= 4) has its input
        pub fn usable(self) -> bool {
            matches!(self, IdShape::Hex | IdShape::Literal | IdShape::EmptyString | IdShape::OneElement)
        }
        /// the bytes of the first element when it is a string
        pub fn id0(self, id0: &[u8]) -> Option<Vec<u8>> {
            match self {
                IdShape::Hex | IdShape::Literal | IdShape::OneElement => Some(id0.to_vec()),
                IdShape::EmptyString => Some(vec![]),
                _ => None,
            }
        }
        /// Rewrite the trailer's /ID entry of `doc` in this shape.
        pub fn apply(self, doc: &mut Document, id0: &[u8]) {
            let id1: Vec<u8> = id0.iter().map(|b| b ^ 0x5a).collect();
            let hexs = |b: &[u8]| Object::String(b.to_vec(), StringFormat::Hexadecimal);
            let lit = |b: &[u8]| Object::String(b.to_vec(), StringFormat::Literal);
            let v = match self {
                IdShape::Hex => Some(Object::Array(vec![hexs(id0), hexs(&id1)])),
                IdShape::Literal => Some(Object::Array(vec![lit(id0), lit(&id1)])),
                IdShape::EmptyString => Some(Object::Array(vec![lit(b""), hexs(&id1)])),
                IdShape::OneElement => Some(Object::Array(vec![hexs(id0)])),
                IdShape::Absent => None,
                IdShape::EmptyArray => Some(Object::Array(vec![])),
                IdShape::FirstInteger => Some(Object::Array(vec![Object::Integer(42), hexs(&id1)])),
                IdShape::FirstName => Some(Object::Array(vec![Object::Name(b"NoId".to_vec()), hexs(&id1)])),
                IdShape::NotArray => Some(hexs(id0)),
            };
            match v {
                Some(o) => doc.trailer.set("ID", o),
                None => {
                    doc.trailer.remove(b"ID");
                }
            }
        }
    }

    // -----------------------------------------------------------------------------------------
    // replay form of documents: the JSON of `objjson` nests one JSON level per array and three per
    // dictionary, and serde_json refuses to parse more than 128 levels. Deep documents are therefore
    // written as a flat list of tokens in prefix order.

    fn flat_obj(o: &Object, out: &mut Vec<Value>) {
        use crate::objjson::hex;
        match o {
            Object::Null => out.push(json!("null")),
            Object::Boolean(b) => out.push(json!(if *b { "true" } else { "false" })),
            Object::Integer(i) => out.push(json!(format!("i:{}", i))),
            Object::Real(r) => out.push(json!(format!("r:{}", r.to_bits()))),
            Object::Name(n) => out.push(json!(format!("n:{}", hex(n)))),
            Object::String(b, f) => out.push(json!(format!("{}:{}", if *f == StringFormat::Literal { "sL" } else { "sH" }, hex(b)))),
            Object::Reference(id) => out.push(json!(format!("ref:{}:{}", id.0, id.1))),
            Object::Array(a) => {
                out.push(json!(format!("a:{}", a.len())));
                for x in a {
                    flat_obj(x, out);
                }
            }
            Object::Dictionary(d) => {
                out.push(json!(format!("d:{}", d.len())));
                flat_dict(d, out);
            }
            Object::Stream(st) => {
                out.push(json!(format!("st:{}:{}", st.dict.len(), hex(&st.content))));
                flat_dict(&st.dict, out);
            }
        }
    }

    fn flat_dict(d: &Dictionary, out: &mut Vec<Value>) {
        for (k, v) in d.iter() {
            out.push(json!(format!("k:{}", crate::objjson::hex(k))));
            flat_obj(v, out);
        }
    }

    fn unflat_obj(t: &[Value], pos: &mut usize) -> Object {
        use crate::objjson::unhex;
        let tok = t[*pos].as_str().expect("flat token");
        *pos += 1;
        let (tag, rest) = tok.split_once(':').unwrap_or((tok, ""));
        match tag {
            "null" => Object::Null,
            "true" => Object::Boolean(true),
            "false" => Object::Boolean(false),
            "i" => Object::Integer(rest.parse().expect("integer token")),
            "r" => Object::Real(f32::from_bits(rest.parse().expect("real token"))),
            "n" => Object::Name(unhex(rest)),
            "sL" => Object::String(unhex(rest), StringFormat::Literal),
            "sH" => Object::String(unhex(rest), StringFormat::Hexadecimal),
            "ref" => {
                let (a, b) = rest.split_once(':').expect("reference token");
                Object::Reference((a.parse().unwrap(), b.parse().unwrap()))
            }
            "a" => {
                let n: usize = rest.parse().expect("array token");
                Object::Array((0..n).map(|_| unflat_obj(t, pos)).collect())
            }
            "d" => Object::Dictionary(unflat_dict(t, pos, rest.parse().expect("dictionary token"))),
            "st" => {
                let (n, content) = rest.split_once(':').expect("stream token");
                let dict = unflat_dict(t, pos, n.parse().unwrap());
                Object::Stream(Stream { dict, content: unhex(content), allows_compression: true, start_position: None })
            }
            other => panic!("bad flat token {:?}", other),
        }
    }

    fn unflat_dict(t: &[Value], pos: &mut usize, n: usize) -> Dictionary {
        let mut d = Dictionary::new();
        for _ in 0..n {
            let k = t[*pos].as_str().and_then(|s| s.strip_prefix("k:")).expect("key token").to_string();
            *pos += 1;
            d.set(crate::objjson::unhex(&k), unflat_obj(t, pos));
        }
        d
    }

    fn nesting(o: &Object) -> usize {
        match o {
            Object::Array(a) => 1 + a.iter().map(nesting).max().unwrap_or(0),
            Object::Dictionary(d) => 1 + d.iter().map(|(_, x)| nesting(x)).max().unwrap_or(0),
            Object::Stream(st) => 1 + st.dict.iter().map(|(_, x)| nesting(x)).max().unwrap_or(0),
            _ => 0,
        }
    }

    /// JSON form of a document for replay files: `objjson::doc_to_json`, or - when an object nests more than
    /// 24 containers - the same header with the objects as flat token lists.
    pub fn doc_to_portable(doc: &Document) -> Value {
        if doc.objects.values().all(|o| nesting(o) <= 24) {
            return crate::objjson::doc_to_json(doc);
        }
        let mut empty = doc.clone();
        empty.objects.clear();
        let mut v = crate::objjson::doc_to_json(&empty);
        let objs: Vec<Value> = doc
            .objects
            .iter()
            .map(|(id, o)| {
                let mut toks = vec![];
                flat_obj(o, &mut toks);
                json!([id.0, id.1, toks])
            })
            .collect();
        v["flat_objects"] = Value::Array(objs);
        v
    }

    pub fn doc_from_portable(v: &Value) -> Document {
        let mut doc = crate::objjson::doc_from_json(v);
        if let Some(a) = v.get("flat_objects").and_then(|x| x.as_array()) {
            for o in a {
                let toks = o[2].as_array().expect("flat object tokens");
                let mut pos = 0;
                let obj = unflat_obj(toks, &mut pos);
                assert_eq!(pos, toks.len(), "flat object has trailing tokens");
                doc.objects.insert((o[0].as_u64().unwrap() as u32, o[1].as_u64().unwrap() as u16), obj);
            }
        }
        doc
    }

    fn s(len: usize, salt: u32, hex: bool) -> Object {
        Object::String(pattern(len, salt), if hex { StringFormat::Hexadecimal } else { StringFormat::Literal })
    }

    fn dict(entries: Vec<(&str, Object)>) -> Dictionary {
        let mut d = Dictionary::new();
        for (k, v) in entries {
            d.set(k, v);
        }
        d
    }

    /// Key names an implementation of 7.6.2 might be tempted to treat specially: the exemptions of the standard
    /// concern the trailer's ID, the strings of THE encryption dictionary, cross-reference streams and the Contents
    /// of a signature dictionary - never a key name as such.
    pub const KEY_MENU: [&str; 34] = [
        "Contents", "ID", "O", "U", "OE", "UE", "Perms", "Cert", "Filter", "SubFilter", "Reason", "M", "Name", "Location", "V", "T", "TU", "JS", "URI", "F",
        "UF", "Desc", "CheckSum", "Recipients", "Encrypt", "CF", "StmF", "StrF", "Lang", "Title", "Length", "DecodeParms", "Type", "Subtype",
    ];

    /// A dictionary with a string (16..33 bytes) under every key of `KEY_MENU`. `mode`: 0 literal format, 1
    /// hexadecimal format, 2 / 3 alternating (starting with literal / hexadecimal). ID and Recipients hold an array of
    /// two strings, Encrypt and CF a dictionary of strings. `in_stream`: leave out the keys that mean something in a
    /// stream dictionary.
    pub fn key_dict(mode: u8, salt: u32, in_stream: bool) -> Dictionary {
        let mut d = Dictionary::new();
        for (i, k) in KEY_MENU.iter().enumerate() {
            if in_stream && matches!(*k, "Filter" | "Length" | "DecodeParms" | "Type" | "Subtype" | "F") {
                continue;
            }
            let hexf = match mode {
                0 => false,
                1 => true,
                2 => i % 2 == 1,
                _ => i % 2 == 0,
            };
            let len = 16 + (i * 5 + salt as usize) % 18;
            let st = s(len, salt + i as u32, hexf);
            let v = match *k {
                "ID" | "Recipients" => Object::Array(vec![st, s(16, salt + 50 + i as u32, !hexf)]),
                "Encrypt" | "CF" => Object::Dictionary(dict(vec![("O", st), ("U", s(32, salt + 60 + i as u32, !hexf)), ("Filter", Object::Name(b"Standard".to_vec()))])),
                _ => st,
            };
            d.set(*k, v);
        }
        d
    }

    /// What the bytes of a long string look like.
    #[derive(Clone, Copy, PartialEq, Eq, Debug)]
    pub enum Fill {
        /// text in printable ASCII (with balanced parentheses)
        Printable,
        /// runs of 16 bytes of text alternating with runs of 16 arbitrary bytes (all 256 values occur)
        Mixed,
        /// no printable byte at all: bytes >= 0x80 and control characters (NUL, TAB, LF, CR, ...)
        Binary,
        /// nothing but the bytes a literal string has to escape or balance: backslashes, parentheses (unbalanced both
        /// ways), CR, LF, CR LF; the string begins with `)` and ends with a backslash
        Tricky,
    }

    impl Fill {
        pub fn name(self) -> &'static str {
            match self {
                Fill::Printable => "printable",
                Fill::Mixed => "mixed",
                Fill::Binary => "binary",
                Fill::Tricky => "escapes",
            }
        }
    }

    /// 2^e - 1, 2^e, 2^e + 1 for e = 7..12
    pub const BIG_LENS: [usize; 18] = [127, 128, 129, 255, 256, 257, 511, 512, 513, 1023, 1024, 1025, 2047, 2048, 2049, 4095, 4096, 4097];
    pub const HUGE_LENS: [usize; 3] = [65535, 65536, 65537];

    pub fn fill(len: usize, class: Fill, salt: u32) -> Vec<u8> {
        const TEXT: &[u8] = b"The quick brown fox (jumps) over the lazy dog; 0123456789 times. ";
        const ESC: &[u8] = b"\\()\r\n)\r\n\\\\((\n\r)(";
        let s = salt as usize;
        let mut v: Vec<u8> = (0..len)
            .map(|i| match class {
                Fill::Printable => TEXT[(i + s) % TEXT.len()],
                Fill::Mixed => {
                    if (i / 16) % 2 == 0 {
                        TEXT[(i + s) % TEXT.len()]
                    } else {
                        ((i * 7 + s * 13 + 1) & 0xff) as u8
                    }
                }
                Fill::Binary => {
                    if i % 5 == 4 {
                        ((i * 3 + s) & 0x1f) as u8
                    } else {
                        0x80 | ((i * 7 + s) & 0x7f) as u8
                    }
                }
                Fill::Tricky => ESC[(i + s) % ESC.len()],
            })
            .collect();
        if class == Fill::Tricky && len > 0 {
            v[0] = b')';
            v[len - 1] = b'\\';
        }
        v
    }

    fn fs(len: usize, class: Fill, salt: u32, hex: bool) -> Object {
        Object::String(fill(len, class, salt), if hex { StringFormat::Hexadecimal } else { StringFormat::Literal })
    }

    /// A signature dictionary in the narrow sense (/Type /Sig or /DocTimeStamp, /ByteRange) around a Contents value.
    fn sig_around(contents: Object, timestamp: bool, salt: u32) -> Dictionary {
        let n = match &contents {
            Object::String(b, _) => b.len() as i64,
            _ => 0,
        };
        dict(vec![
            ("Type", Object::Name(if timestamp { b"DocTimeStamp".to_vec() } else { b"Sig".to_vec() })),
            ("Filter", Object::Name(b"Adobe.PPKLite".to_vec())),
            ("SubFilter", Object::Name(if timestamp { b"ETSI.RFC3161".to_vec() } else { b"adbe.pkcs7.detached".to_vec() })),
            ("ByteRange", Object::Array(vec![0.into(), 840.into(), (842 + 2 * n).into(), 240.into()])),
            ("Contents", contents),
            ("Reason", s(20, salt, false)),
        ])
    }

    /// The two documents of the string size / format / content axes. Every string is either an entry of an ordinary
    /// dictionary (or an element of an array) or the Contents value of a signature dictionary.
    fn build_sized(kind: DocKind, objs: &mut Vec<(ObjectId, Object)>) {
        objs.push(((1, 0), Object::Dictionary(dict(vec![("Type", Object::Name(b"Catalog".to_vec()))]))));
        let mut next = 2u32;
        let mut push = |objs: &mut Vec<(ObjectId, Object)>, o: Object| {
            objs.push(((next, 0), o));
            next += 1;
        };
        if kind == DocKind::HugeStrings {
            let mut i = 0usize;
            for class in [Fill::Printable, Fill::Mixed, Fill::Binary] {
                for hexf in [false, true] {
                    for as_sig in [false, true] {
                        let len = HUGE_LENS[i % 3];
                        let st = fs(len, class, 3000 + i as u32, hexf);
                        if as_sig {
                            push(objs, Object::Dictionary(sig_around(st, i % 4 == 3, 3100 + i as u32)));
                        } else {
                            push(objs, Object::Dictionary(dict(vec![("Type", Object::Name(b"Annot".to_vec())), ("Subtype", Object::Name(b"FreeText".to_vec())), ("Contents", st)])));
                        }
                        i += 1;
                    }
                }
            }
            // stream bodies of the same lengths (a whole number of AES blocks, one byte less, one byte more)
            for (j, len) in HUGE_LENS.iter().enumerate() {
                push(objs, Object::Stream(Stream::new(dict(vec![("K", Object::Integer(j as i64)), ("Note", fs(40, Fill::Mixed, 3200 + j as u32, j % 2 == 0))]), fill(*len, Fill::Binary, 3300 + j as u32))));
            }
            return;
        }
        for (ci, class) in [Fill::Printable, Fill::Mixed, Fill::Binary, Fill::Tricky].into_iter().enumerate() {
            // (a literal string of n escapes costs the writer n^2 steps: the escape-heavy class stops at 1025 bytes)
            let lens: Vec<usize> = BIG_LENS.iter().copied().filter(|l| class != Fill::Tricky || *l <= 1025).collect();
            for hexf in [false, true] {
                let salt = 2200 + 100 * ci as u32 + if hexf { 50 } else { 0 };
                // ordinary placements: one dictionary with a string of every length (one of them under the key Contents - the
                // dictionary has neither /Type /Sig nor /ByteRange), and an array with the strings around 2^10
                let mut d = dict(vec![("Type", Object::Name(b"Annot".to_vec())), ("Subtype", Object::Name(b"FreeText".to_vec()))]);
                for (li, len) in lens.iter().enumerate() {
                    d.set(format!("L{}", len), fs(*len, class, salt + li as u32, hexf));
                }
                d.set("Contents", fs(1500, class, salt + 30, hexf));
                push(objs, Object::Dictionary(d));
                push(objs, Object::Array(lens.iter().filter(|l| (1023..=1025).contains(*l)).map(|l| fs(*l, class, salt + 40, hexf)).collect()));
                // signature placements: one signature dictionary per length - an indirect object, the direct value of a
                // signature field, or an element of an array
                for (li, len) in lens.iter().enumerate() {
                    let sig = Object::Dictionary(sig_around(fs(*len, class, salt + 60 + li as u32, hexf), li % 3 == 2, salt + 80 + li as u32));
                    match li % 6 {
                        4 => push(objs, Object::Dictionary(dict(vec![("FT", Object::Name(b"Sig".to_vec())), ("T", s(18, salt + 90, false)), ("V", sig)]))),
                        5 => push(objs, Object::Array(vec![Object::Integer(*len as i64), sig])),
                        _ => push(objs, sig),
                    }
                }
            }
        }
        // stream bodies around 2^10 and 2^12 bytes
        for (j, len) in BIG_LENS.iter().filter(|l| (1023..=1025).contains(*l) || (4095..=4097).contains(*l)).enumerate() {
            push(objs, Object::Stream(Stream::new(dict(vec![("K", Object::Integer(j as i64))]), fill(*len, if j % 2 == 0 { Fill::Binary } else { Fill::Mixed }, 2990 + j as u32))));
        }
        // short signature values, both formats, arbitrary and printable bytes (AES block edges; the empty string)
        for (i, len) in LENS.iter().enumerate() {
            for hexf in [false, true] {
                for class in [Fill::Mixed, Fill::Printable] {
                    let st = if class == Fill::Mixed { s(*len, 2900 + i as u32, hexf) } else { fs(*len, class, 2950 + i as u32, hexf) };
                    push(objs, Object::Dictionary(sig_around(st, i % 2 == 1, 2960 + i as u32)));
                }
            }
        }
    }

    /// Passwords for revisions 2-4 that exercise one cell of PDFDocEncoding each: the character alone, at the start,
    /// in the middle and at the end of an ASCII password. `position` 0..4 gives the user password form; the owner
    /// password carries the same character in the form two further on, in another ASCII word.
    pub fn pdfdoc_cell_pair(code: u8, ch: char, position: usize) -> (String, String, String) {
        const FORMS: [&str; 4] = ["alone", "at_start", "in_middle", "at_end"];
        let place = |form: usize, word: &str| -> String {
            let mid = word.len() / 2;
            match form % 4 {
                0 => ch.to_string(),
                1 => format!("{}{}", ch, word),
                2 => format!("{}{}{}", &word[..mid], ch, &word[mid..]),
                _ => format!("{}{}", word, ch),
            }
        };
        (
            format!("pdfdoc_cell_{:02x}_user_{}_owner_{}", code, FORMS[position % 4], FORMS[(position + 2) % 4]),
            place(position, "user"),
            place(position + 2, "Owner1"),
        )
    }

    /// Password pairs for revisions 2-4 made of several characters PDFDocEncoding places outside ASCII and Latin-1:
    /// inside ASCII words, passwords consisting ONLY of such characters (an encoder that drops them leaves the empty
    /// password), only one of the two passwords affected, control characters, and such a character on either side of
    /// the 32-byte cut of Algorithm 2 step (a).
    pub fn pdfdoc_special_pairs() -> Vec<(&'static str, String, String)> {
        let accents: String = super::PDFDOC_18_1F.iter().map(|u| char::from_u32(*u).unwrap()).collect();
        let high: String = super::PDFDOC_80_9E.iter().map(|u| char::from_u32(*u).unwrap()).collect();
        let rev = |x: &str| x.chars().rev().collect::<String>();
        let rep = |c: char, n: usize| std::iter::repeat(c).take(n).collect::<String>();
        let latin = |from: u32, n: usize| (from..).filter(|u| *u != 0xAD).take(n).map(|u| char::from_u32(u).unwrap()).collect::<String>();
        let v: Vec<(&'static str, String, String)> = vec![
            ("pdfdoc_accents_inside", "se\u{2c6}cret".into(), "ow\u{2dc}ner\u{2c7}".into()),
            ("pdfdoc_only_accents", accents.clone(), rev(&accents)),
            ("pdfdoc_high_block_inside", "\u{2022}pw\u{20ac}\u{160}".into(), "\u{201c}own\u{201d}\u{2122}".into()),
            ("pdfdoc_controls", "a\tb\nc\rd".into(), "\t\n\r".into()),
            ("pdfdoc_ascii_user_accent_owner", "user".into(), "\u{2d8}\u{2c7}".into()),
            ("pdfdoc_accent_user_ascii_owner", "\u{2da}\u{2dc}".into(), "owner".into()),
            // the 32nd byte is the accent / the accent is the first byte and 32 more follow
            ("pdfdoc_accent_at_byte_32", format!("{}\u{2c6}", rep('a', 31)), format!("\u{2c7}{}", rep('B', 32))),
            // the accent is the 33rd byte (cut off) / the 17th of 33
            ("pdfdoc_accent_at_byte_33", format!("{}\u{2d9}", rep('c', 32)), format!("{}\u{2db}{}", rep('D', 16), rep('D', 16))),
            ("pdfdoc_all_of_80_9e", high.clone(), format!("{}\u{20ac}", rev(&high))),
            ("pdfdoc_latin1_blocks", latin(0xA1, 32), latin(0xE0, 32)),
        ];
        for (name, u, o) in &v {
            assert!(super::pdfdoc_encodable(u) && super::pdfdoc_encodable(o) && u != o, "pair {} is not in the domain", name);
        }
        v
    }

    /// Document menu (DESIGN C05): every path of encrypt_object / decrypt_object.
    /// `cfg` only matters for `Crypt` (the override names must exist in the configuration).
    pub fn build_doc(kind: DocKind, cfg: &Config, id0: &[u8], big_ids: bool) -> Document {
        let mut doc = Document::with_version("1.7");
        let mut objs: Vec<(ObjectId, Object)> = vec![];
        match kind {
            DocKind::Strings => {
                let mut d = dict(vec![("Type", Object::Name(b"Catalog".to_vec()))]);
                let mut arr = vec![];
                let mut sub = Dictionary::new();
                for (i, len) in LENS.iter().enumerate() {
                    d.set(format!("S{}", len), s(*len, i as u32, i % 2 == 1));
                    arr.push(s(*len, 10 + i as u32, i % 2 == 0));
                    sub.set(format!("T{}", len), s(*len, 20 + i as u32, false));
                }
                sub.set("Deep", Object::Array(vec![Object::Dictionary(dict(vec![("X", s(17, 31, false)), ("N", Object::Integer(5))]))]));
                arr.push(Object::Array(vec![s(16, 32, true), Object::Null, s(0, 0, false)]));
                d.set("Arr", Object::Array(arr.clone()));
                d.set("Sub", Object::Dictionary(sub));
                objs.push(((1, 0), Object::Dictionary(d)));
                objs.push(((2, 0), Object::Array(arr)));
                for (i, len) in LENS.iter().enumerate() {
                    objs.push(((3 + i as u32, 0), s(*len, 40 + i as u32, i % 2 == 0)));
                }
            }
            DocKind::Streams => {
                objs.push(((1, 0), Object::Dictionary(dict(vec![("Type", Object::Name(b"Catalog".to_vec())), ("Metadata", Object::Reference((12, 0)))]))));
                objs.push(((2, 0), Object::Stream(Stream::new(Dictionary::new(), (0u8..=255).collect()))));
                for (i, len) in LENS.iter().enumerate() {
                    objs.push(((3 + i as u32, 0), Object::Stream(Stream::new(dict(vec![("K", Object::Integer(i as i64))]), pattern(*len, 50 + i as u32)))));
                }
                let xml = b"<?xpacket begin='' id='W5M0MpCehiHzreSzNTczkc9d'?><x:xmpmeta xmlns:x='adobe:ns:meta/'/><?xpacket end='w'?>".to_vec();
                objs.push((
                    (12, 0),
                    Object::Stream(Stream::new(dict(vec![("Type", Object::Name(b"Metadata".to_vec())), ("Subtype", Object::Name(b"XML".to_vec()))]), xml)),
                ));
            }
            DocKind::StreamDict => {
                objs.push(((1, 0), Object::Dictionary(dict(vec![("Type", Object::Name(b"Catalog".to_vec()))]))));
                for (i, len) in LENS.iter().enumerate() {
                    let d = dict(vec![
                        ("F", s(*len, 60 + i as u32, false)),
                        ("A", Object::Array(vec![s(*len, 70 + i as u32, true)])),
                        ("D", Object::Dictionary(dict(vec![("UF", s(*len, 80 + i as u32, false))]))),
                    ]);
                    objs.push(((2 + i as u32, 0), Object::Stream(Stream::new(d, pattern(20, 90 + i as u32)))));
                }
            }
            DocKind::Ids => {
                let mut ids: Vec<ObjectId> =
                    vec![(1, 0), (255, 0), (256, 0), (65536, 0), (2, 1), (257, 65535), (65537, 1), (65538, 65535), (254, 65535), (3, 1)];
                if big_ids {
                    // in-memory only: beyond the 3 low-order bytes Algorithm 1 uses
                    ids.push((16777217, 0));
                    ids.push((16777472, 2));
                }
                for (i, id) in ids.iter().enumerate() {
                    let d = dict(vec![("S", s(17, 100 + i as u32, false)), ("T", s(3, 110 + i as u32, true))]);
                    if i % 2 == 0 {
                        objs.push((*id, Object::Dictionary(d)));
                    } else {
                        objs.push((*id, Object::Stream(Stream::new(Dictionary::new(), pattern(33, 120 + i as u32)))));
                    }
                }
            }
            DocKind::Crypt => {
                objs.push(((1, 0), Object::Dictionary(dict(vec![("Type", Object::Name(b"Catalog".to_vec())), ("S", s(20, 130, false))]))));
                let named = cfg.filter_name(cfg.strf);
                let parms = |name: Option<&[u8]>| {
                    let mut p = dict(vec![("Type", Object::Name(b"CryptFilterDecodeParms".to_vec()))]);
                    if let Some(n) = name {
                        p.set("Name", Object::Name(n.to_vec()));
                    }
                    Object::Dictionary(p)
                };
                let mk = |filter: Object, p: Option<Object>, salt: u32| {
                    let mut d = dict(vec![("Filter", filter)]);
                    if let Some(p) = p {
                        d.set("DecodeParms", p);
                    }
                    Object::Stream(Stream::new(d, pattern(40, salt)))
                };
                objs.push(((2, 0), mk(Object::Name(b"Crypt".to_vec()), Some(parms(Some(&named))), 131)));
                objs.push(((3, 0), mk(Object::Name(b"Crypt".to_vec()), Some(parms(Some(b"Identity"))), 132)));
                objs.push(((4, 0), mk(Object::Name(b"Crypt".to_vec()), Some(parms(None)), 133)));
                objs.push(((5, 0), mk(Object::Array(vec![Object::Name(b"Crypt".to_vec())]), Some(parms(Some(&named))), 134)));
                objs.push(((6, 0), Object::Stream(Stream::new(Dictionary::new(), pattern(40, 135)))));
            }
            DocKind::DeepLoadable => return build_deep(kind, DEEP_LOADABLE_DEFAULT, id0),
            DocKind::DeepMemory => return build_deep(kind, DEEP_MEMORY_DEFAULT, id0),
            DocKind::CryptArray => {
                objs.push(((1, 0), Object::Dictionary(dict(vec![("Type", Object::Name(b"Catalog".to_vec())), ("S", s(20, 500, false))]))));
                let named = cfg.filter_name(cfg.strf);
                let parms = |name: Option<&[u8]>| {
                    let mut p = dict(vec![("Type", Object::Name(b"CryptFilterDecodeParms".to_vec()))]);
                    if let Some(n) = name {
                        p.set("Name", Object::Name(n.to_vec()));
                    }
                    Object::Dictionary(p)
                };
                let names = |v: &[&str]| Object::Array(v.iter().map(|n| Object::Name(n.as_bytes().to_vec())).collect());
                // bodies are ASCII hex text so that the companion filter has something it could decode
                let body = |len: usize, salt: u32| -> Vec<u8> { crate::objjson::hex(&pattern(len, salt)).into_bytes() };
                let mk = |filters: Object, p: Object, content: Vec<u8>| Object::Stream(Stream::new(dict(vec![("Filter", filters), ("DecodeParms", p)]), content));
                // the Crypt filter alone in a Filter array, parameters in a one-element array
                objs.push(((2, 0), mk(names(&["Crypt"]), Object::Array(vec![parms(Some(&named))]), pattern(40, 501))));
                objs.push(((3, 0), mk(names(&["Crypt"]), Object::Array(vec![parms(Some(b"Identity"))]), pattern(10, 502))));
                // Crypt at position 0, 1 and 2 of a longer Filter array, null for the filters without parameters
                objs.push(((4, 0), mk(names(&["Crypt", "ASCIIHexDecode"]), Object::Array(vec![parms(Some(&named)), Object::Null]), body(20, 503))));
                objs.push(((5, 0), mk(names(&["ASCIIHexDecode", "Crypt"]), Object::Array(vec![Object::Null, parms(Some(b"Identity"))]), body(5, 504))));
                objs.push((
                    (6, 0),
                    mk(names(&["ASCIIHexDecode", "ASCIIHexDecode", "Crypt"]), Object::Array(vec![Object::Null, Object::Null, parms(Some(&named))]), body(24, 505)),
                ));
                // parameter array too short (no entry at the Crypt position: Name missing, Identity)
                objs.push(((7, 0), mk(names(&["ASCIIHexDecode", "Crypt"]), Object::Array(vec![Object::Null]), body(5, 506))));
                // too long (the entry at the Crypt position applies)
                objs.push(((8, 0), mk(names(&["Crypt", "ASCIIHexDecode"]), Object::Array(vec![parms(Some(&named)), Object::Null, Object::Null]), body(20, 507))));
                // the entry at the Crypt position is not a dictionary (Identity)
                objs.push(((9, 0), mk(names(&["ASCIIHexDecode", "Crypt"]), Object::Array(vec![Object::Null, Object::Integer(7)]), body(5, 508))));
                // a dictionary naming a filter sits at the position of the *other* filter; null at the Crypt position (Identity)
                objs.push(((10, 0), mk(names(&["ASCIIHexDecode", "Crypt"]), Object::Array(vec![parms(Some(&named)), Object::Null]), body(5, 509))));
                // a lone dictionary next to a multi-filter array (tolerated spelling)
                objs.push(((11, 0), mk(names(&["Crypt", "ASCIIHexDecode"]), parms(Some(&named)), body(20, 510))));
                // entry at the Crypt position without Name (Identity)
                objs.push(((12, 0), mk(names(&["Crypt"]), Object::Array(vec![parms(None)]), pattern(7, 511))));
                objs.push(((13, 0), Object::Stream(Stream::new(Dictionary::new(), pattern(40, 512)))));
            }
            DocKind::CryptBare => {
                objs.push(((1, 0), Object::Dictionary(dict(vec![("Type", Object::Name(b"Catalog".to_vec())), ("S", s(20, 520, false))]))));
                let crypt = Object::Name(b"Crypt".to_vec());
                objs.push(((2, 0), Object::Stream(Stream::new(dict(vec![("Filter", crypt.clone())]), pattern(40, 521)))));
                objs.push(((3, 0), Object::Stream(Stream::new(dict(vec![("Filter", Object::Array(vec![crypt.clone()]))]), pattern(9, 522)))));
                objs.push((
                    (4, 0),
                    Object::Stream(Stream::new(
                        dict(vec![("Filter", Object::Array(vec![Object::Name(b"ASCIIHexDecode".to_vec()), crypt.clone()]))]),
                        crate::objjson::hex(&pattern(6, 523)).into_bytes(),
                    )),
                ));
                objs.push(((5, 0), Object::Stream(Stream::new(dict(vec![("Filter", crypt), ("DecodeParms", Object::Null)]), pattern(11, 524)))));
                objs.push(((6, 0), Object::Stream(Stream::new(Dictionary::new(), pattern(40, 525)))));
            }
            DocKind::CryptNamed | DocKind::CryptUndefined => {
                objs.push(((1, 0), Object::Dictionary(dict(vec![("Type", Object::Name(b"Catalog".to_vec())), ("S", s(20, 530, false))]))));
                // what the Name entry of the Crypt filter's parameters is
                let mut names: Vec<Option<Object>> = vec![];
                if kind == DocKind::CryptNamed {
                    for (n, _) in cfg.cf_entries() {
                        names.push(Some(Object::Name(n)));
                    }
                    names.push(Some(Object::Name(b"Identity".to_vec())));
                    names.push(None);
                } else {
                    let defined = cfg.cf_entries().first().map(|x| x.0.clone()).unwrap_or_else(|| b"StdCF".to_vec());
                    names.push(Some(Object::Name(b"Undefined".to_vec())));
                    names.push(Some(Object::Name(defined.to_ascii_lowercase())));
                    names.push(Some(Object::String(defined.clone(), StringFormat::Literal)));
                    names.push(Some(Object::Array(vec![Object::Name(defined)])));
                    names.push(Some(Object::Null));
                }
                let parms = |name: &Option<Object>| {
                    let mut p = dict(vec![("Type", Object::Name(b"CryptFilterDecodeParms".to_vec()))]);
                    if let Some(n) = name {
                        p.set("Name", n.clone());
                    }
                    Object::Dictionary(p)
                };
                let names_arr = |v: &[&str]| Object::Array(v.iter().map(|n| Object::Name(n.as_bytes().to_vec())).collect());
                let mk = |filters: Object, p: Object, content: Vec<u8>| Object::Stream(Stream::new(dict(vec![("Filter", filters), ("DecodeParms", p)]), content));
                let mut next = 2u32;
                for (i, name) in names.iter().enumerate() {
                    let salt = 540 + 10 * i as u32;
                    // the dictionary form, the one-element array form, and the array form next to a second filter
                    objs.push(((next, 0), mk(Object::Name(b"Crypt".to_vec()), parms(name), pattern(40, salt))));
                    objs.push(((next + 1, 0), mk(names_arr(&["Crypt"]), Object::Array(vec![parms(name)]), pattern(33, salt + 1))));
                    objs.push((
                        (next + 2, 0),
                        mk(names_arr(&["ASCIIHexDecode", "Crypt"]), Object::Array(vec![Object::Null, parms(name)]), crate::objjson::hex(&pattern(20, salt + 2)).into_bytes()),
                    ));
                    next += 3;
                }
                // a stream without a Crypt filter (StmF applies), and strings in the dictionaries of streams with an
                // override (first name, last name, /Identity): the override concerns the stream data only, the strings
                // of the stream dictionary are strings of the document (StrF)
                objs.push(((next, 0), Object::Stream(Stream::new(Dictionary::new(), pattern(40, 700)))));
                let picks = [names[0].clone(), names[names.len().saturating_sub(3)].clone(), Some(Object::Name(b"Identity".to_vec()))];
                for (j, name) in picks.iter().enumerate() {
                    let salt = 701 + 10 * j as u32;
                    let mut d = dict(vec![("Filter", Object::Name(b"Crypt".to_vec())), ("DecodeParms", parms(name)), ("Note", s(24, salt, true))]);
                    d.set("After", s(17, salt + 1, false));
                    d.set("Arr", Object::Array(vec![s(16, salt + 2, true)]));
                    objs.push(((next + 1 + j as u32, 0), Object::Stream(Stream::new(d, pattern(48, salt + 3)))));
                }
            }
            DocKind::KeyNames => {
                objs.push(((1, 0), Object::Dictionary(dict(vec![("Type", Object::Name(b"Catalog".to_vec()))]))));
                objs.push(((2, 0), Object::Dictionary(key_dict(0, 800, false))));
                objs.push(((3, 0), Object::Dictionary(key_dict(1, 900, false))));
                let mut annot = key_dict(2, 1000, false);
                annot.set("Type", Object::Name(b"Annot".to_vec()));
                annot.set("Subtype", Object::Name(b"Widget".to_vec()));
                objs.push((
                    (4, 0),
                    Object::Dictionary(dict(vec![
                        ("Annot", Object::Dictionary(annot)),
                        ("Kids", Object::Array(vec![Object::Dictionary(key_dict(3, 1100, false)), Object::Array(vec![Object::Dictionary(key_dict(1, 1200, false))])])),
                    ])),
                ));
                objs.push(((5, 0), Object::Array(vec![Object::Dictionary(key_dict(1, 1300, false)), s(16, 1390, true), Object::Array(vec![s(17, 1391, true)])])));
                objs.push(((6, 0), Object::Stream(Stream::new(key_dict(2, 1400, true), pattern(40, 1490)))));
                objs.push(((7, 0), Object::Stream(Stream::new(key_dict(1, 1500, true), pattern(16, 1590)))));
                // dictionaries that carry the /Type of objects with an exemption, nested in an ordinary object: only
                // cross-reference STREAMS, the encryption dictionary itself and metadata STREAMS are exempt
                let typed = |t: &str, salt: u32| {
                    let mut d = key_dict(3, salt, false);
                    d.set("Type", Object::Name(t.as_bytes().to_vec()));
                    Object::Dictionary(d)
                };
                let mut like_enc = dict(vec![
                    ("Filter", Object::Name(b"Standard".to_vec())),
                    ("V", Object::Integer(4)),
                    ("R", Object::Integer(4)),
                    ("Length", Object::Integer(128)),
                    ("P", Object::Integer(-3904)),
                    ("O", s(32, 1690, false)),
                    ("U", s(32, 1691, true)),
                    ("OE", s(32, 1692, true)),
                    ("UE", s(32, 1693, false)),
                    ("Perms", s(16, 1694, true)),
                ]);
                like_enc.set("StmF", Object::Name(b"StdCF".to_vec()));
                objs.push((
                    (8, 0),
                    Object::Dictionary(dict(vec![
                        ("A", typed("XRef", 1600)),
                        ("B", typed("ObjStm", 1700)),
                        ("C", Object::Dictionary(like_enc.clone())),
                        ("D", Object::Array(vec![typed("XRef", 1800), Object::Dictionary(like_enc)])),
                        ("E", typed("Encrypt", 1900)),
                    ])),
                ));
                // number 9 stays free (a writer other than lopdf may put the encryption dictionary there, in front of
                // objects that still have to be processed); a top-level object shaped like an encryption dictionary that
                // is NOT the one the trailer's /Encrypt names, and a last object with strings
                let mut top_like = dict(vec![("Filter", Object::Name(b"Standard".to_vec())), ("V", Object::Integer(2)), ("R", Object::Integer(3)), ("P", Object::Integer(-4))]);
                top_like.set("O", s(32, 1950, true));
                top_like.set("U", s(32, 1951, false));
                objs.push(((10, 0), Object::Dictionary(top_like)));
                objs.push(((11, 0), Object::Array(vec![s(24, 1960, false), s(24, 1961, true), Object::Dictionary(key_dict(2, 1970, false))])));
            }
            DocKind::SigDict | DocKind::SigAmbiguous => {
                let sig = |ty: Option<&str>, byte_range: bool, contents: Object, salt: u32| {
                    let mut d = dict(vec![
                        ("Filter", Object::Name(b"Adobe.PPKLite".to_vec())),
                        ("SubFilter", Object::Name(b"adbe.pkcs7.detached".to_vec())),
                        ("Contents", contents),
                        ("Reason", s(20, salt + 1, false)),
                        ("Name", s(17, salt + 2, true)),
                        ("M", Object::string_literal("D:20261003120000+02'00'")),
                        ("Cert", Object::Array(vec![s(48, salt + 3, true)])),
                    ]);
                    if let Some(t) = ty {
                        d.set("Type", Object::Name(t.as_bytes().to_vec()));
                    }
                    if byte_range {
                        d.set("ByteRange", Object::Array(vec![0.into(), 840.into(), 960.into(), 240.into()]));
                    }
                    Object::Dictionary(d)
                };
                objs.push(((1, 0), Object::Dictionary(dict(vec![("Type", Object::Name(b"Catalog".to_vec())), ("S", s(20, 2000, false))]))));
                if kind == DocKind::SigDict {
                    // lengths: not a multiple of 16 / a multiple of 16 of at least 32 bytes (what AES data looks like) / short
                    objs.push(((2, 0), sig(Some("Sig"), true, s(40, 2010, true), 2011)));
                    objs.push(((3, 0), sig(Some("DocTimeStamp"), true, s(64, 2020, true), 2021)));
                    // a signature field whose value is a direct signature dictionary; the field's own strings are ordinary
                    objs.push((
                        (4, 0),
                        Object::Dictionary(dict(vec![
                            ("FT", Object::Name(b"Sig".to_vec())),
                            ("T", s(18, 2030, false)),
                            ("V", sig(Some("Sig"), true, s(48, 2031, true), 2032)),
                            ("Kids", Object::Array(vec![sig(Some("Sig"), true, s(7, 2040, true), 2041)])),
                        ])),
                    ));
                } else {
                    objs.push(((2, 0), sig(Some("Sig"), true, s(40, 2110, false), 2111)));
                    objs.push(((3, 0), sig(None, true, s(40, 2120, true), 2121)));
                    objs.push(((4, 0), sig(Some("Sig"), false, s(40, 2130, true), 2131)));
                    objs.push(((5, 0), sig(Some("DocTimeStamp"), false, s(64, 2140, false), 2141)));
                    objs.push(((6, 0), Object::Array(vec![sig(None, true, s(33, 2150, false), 2151)])));
                }
            }
            DocKind::BigStrings | DocKind::HugeStrings => build_sized(kind, &mut objs),
            DocKind::MetaDict => {
                let meta = |salt: u32| {
                    Object::Dictionary(dict(vec![
                        ("Type", Object::Name(b"Metadata".to_vec())),
                        ("S", s(20, salt, false)),
                        ("Short", s(5, salt + 1, true)),
                        ("A", Object::Array(vec![s(17, salt + 2, true), Object::Integer(1)])),
                        ("D", Object::Dictionary(dict(vec![("T", s(33, salt + 3, false))]))),
                    ]))
                };
                objs.push(((1, 0), Object::Dictionary(dict(vec![("Type", Object::Name(b"Catalog".to_vec())), ("Meta", Object::Reference((2, 0)))]))));
                // an indirect non-stream dictionary typed /Metadata
                objs.push(((2, 0), meta(140)));
                // the same kind of dictionary nested directly inside another dictionary / inside an array
                objs.push(((3, 0), Object::Dictionary(dict(vec![("K", meta(150)), ("Plain", s(20, 155, false))]))));
                objs.push(((4, 0), Object::Array(vec![meta(160), s(16, 165, true)])));
                // and a real metadata stream next to them
                objs.push((
                    (5, 0),
                    Object::Stream(Stream::new(
                        dict(vec![("Type", Object::Name(b"Metadata".to_vec())), ("Subtype", Object::Name(b"XML".to_vec()))]),
                        b"<x:xmpmeta xmlns:x='adobe:ns:meta/'>0123456789</x:xmpmeta>".to_vec(),
                    )),
                ));
            }
            DocKind::ObjStmLoaded => {
                // written by the reference writer with one object stream, loaded by lopdf (which keeps the
                // /ObjStm container and the cross-reference stream as objects), then edited
                let src = build_doc(DocKind::Page, cfg, id0, false);
                let mut objects = src.objects.clone();
                objects.insert((7, 0), Object::Dictionary(dict(vec![("Note", s(24, 170, false)), ("Arr", Object::Array(vec![s(16, 171, true)]))])));
                let spec = crate::refpdf::FileSpec {
                    version: "1.6".into(),
                    mark: vec![0xe2, 0xe3, 0xcf, 0xd3],
                    style: crate::refpdf::Style::Stream,
                    sections: vec![crate::refpdf::Section { objects, trailer: src.trailer.clone(), objstm: Some(1), omit_xref: vec![], extra_members: vec![] }],
                    helper_base: None,
                };
                let (bytes, _) = crate::refpdf::write(&spec, &mut crate::choose::Chooser::new());
                let mut loaded = crate::util::load(&bytes).expect("object-stream start document loads");
                // edit members of the object stream after loading: the live objects now differ from the
                // copies inside the container
                if let Some(Object::Dictionary(d)) = loaded.objects.get_mut(&(6, 0)) {
                    d.set("Title", Object::string_literal("edited after loading - 28 bytes"));
                    d.set("Keywords", Object::string_literal("added"));
                }
                if let Some(Object::Dictionary(d)) = loaded.objects.get_mut(&(7, 0)) {
                    d.set("Note", Object::string_literal("x"));
                }
                return loaded;
            }
            DocKind::Page => {
                objs.push(((1, 0), Object::Dictionary(dict(vec![("Type", Object::Name(b"Catalog".to_vec())), ("Pages", Object::Reference((2, 0)))]))));
                objs.push((
                    (2, 0),
                    Object::Dictionary(dict(vec![
                        ("Type", Object::Name(b"Pages".to_vec())),
                        ("Kids", Object::Array(vec![Object::Reference((3, 0))])),
                        ("Count", Object::Integer(1)),
                    ])),
                ));
                objs.push((
                    (3, 0),
                    Object::Dictionary(dict(vec![
                        ("Type", Object::Name(b"Page".to_vec())),
                        ("Parent", Object::Reference((2, 0))),
                        ("MediaBox", Object::Array(vec![0.into(), 0.into(), 200.into(), 200.into()])),
                        ("Contents", Object::Reference((4, 0))),
                        ("Resources", Object::Dictionary(dict(vec![("Font", Object::Dictionary(dict(vec![("F1", Object::Reference((5, 0)))])))]))),
                    ])),
                ));
                objs.push((
                    (4, 0),
                    Object::Stream(Stream::new(Dictionary::new(), b"BT /F1 12 Tf 20 100 Td (Hello, encrypted world) Tj ET".to_vec())),
                ));
                objs.push((
                    (5, 0),
                    Object::Dictionary(dict(vec![
                        ("Type", Object::Name(b"Font".to_vec())),
                        ("Subtype", Object::Name(b"Type1".to_vec())),
                        ("BaseFont", Object::Name(b"Helvetica".to_vec())),
                    ])),
                ));
                let mut author = vec![0xFE, 0xFF];
                for u in "J\u{fc}rgen \u{10c}apek".encode_utf16() {
                    author.extend(u.to_be_bytes());
                }
                objs.push((
                    (6, 0),
                    Object::Dictionary(dict(vec![
                        ("Title", Object::string_literal("A title (with parens) longer than 16 bytes\\")),
                        ("Author", Object::String(author, StringFormat::Hexadecimal)),
                        ("CreationDate", Object::string_literal("D:20261003120000+02'00'")),
                    ])),
                ));
                doc.trailer.set("Info", Object::Reference((6, 0)));
            }
        }
        for (id, o) in objs {
            doc.max_id = doc.max_id.max(id.0);
            doc.objects.insert(id, o);
        }
        finish_trailer(&mut doc, id0);
        doc
    }

    pub fn id_of_len(n: usize) -> Vec<u8> {
        (0..n).map(|i| (0xC3u8).wrapping_add((i * 29) as u8)).collect()
    }

    /// What a leaf (string or stream body) of a plaintext document is, and which method the
    /// configuration assigns to it under the standard's rules.
    #[derive(Clone, Copy, PartialEq, Eq, Debug)]
    pub enum Leaf {
        Str,
        StrInStreamDict,
        /// string inside a non-stream dictionary whose /Type is /Metadata
        StrInMetadataDict,
        /// the Contents string of a dictionary that is, or under some reading may be, a signature dictionary
        /// (`maybe_signature_dictionary`): ISO 32000-2 7.6.2 exempts the signature value from encryption
        SigContents,
        Body,
    }

    /// Walk a plaintext object and the corresponding object of another document in parallel and call
    /// `f(path, leaf kind, nominal method, plaintext bytes, other bytes)` for every string / stream body.
    /// Returns false if the two objects do not have the same shape.
    pub fn zip_leaves(cfg: &Config, plain: &Object, other: &Object, path: &str, f: &mut dyn FnMut(&str, Leaf, F, &[u8], &[u8])) -> bool {
        let mut buf = path.to_string();
        zip_inner(cfg, plain, other, &mut buf, 0, f)
    }

    /// `ctx`: 0 ordinary, 1 inside a stream dictionary, 2 inside a non-stream dictionary typed /Metadata.
    /// `path` is one buffer that grows and shrinks with the recursion (the deep documents nest > 1000 levels).
    fn zip_inner(cfg: &Config, plain: &Object, other: &Object, path: &mut String, ctx: u8, f: &mut dyn FnMut(&str, Leaf, F, &[u8], &[u8])) -> bool {
        use std::fmt::Write as _;
        match (plain, other) {
            (Object::String(a, _), Object::String(b, _)) => {
                let m = if cfg.has_filters() { cfg.strf } else { F::Rc4 };
                let leaf = match ctx {
                    1 => Leaf::StrInStreamDict,
                    2 => Leaf::StrInMetadataDict,
                    _ => Leaf::Str,
                };
                f(path, leaf, m, a, b);
                true
            }
            (Object::Array(a), Object::Array(b)) => {
                if a.len() != b.len() {
                    return false;
                }
                let keep = path.len();
                for (i, (x, y)) in a.iter().zip(b.iter()).enumerate() {
                    let _ = write!(path, "[{}]", i);
                    let ok = zip_inner(cfg, x, y, path, ctx, f);
                    path.truncate(keep);
                    if !ok {
                        return false;
                    }
                }
                true
            }
            (Object::Dictionary(a), Object::Dictionary(b)) => {
                let meta = ctx == 0 && matches!(a.get(b"Type"), Ok(Object::Name(n)) if n == b"Metadata");
                if super::maybe_signature_dictionary(a) {
                    if let (Ok(Object::String(x, _)), Ok(Object::String(y, _))) = (a.get(b"Contents"), b.get(b"Contents")) {
                        let keep = path.len();
                        path.push_str("/Contents");
                        f(path, Leaf::SigContents, if cfg.has_filters() { cfg.strf } else { F::Rc4 }, x, y);
                        path.truncate(keep);
                        return zip_dict_skip(cfg, a, b, path, if meta { 2 } else { ctx }, f, Some(b"Contents"));
                    }
                }
                zip_dict(cfg, a, b, path, if meta { 2 } else { ctx }, f)
            }
            (Object::Stream(a), Object::Stream(b)) => {
                // cross-reference streams and the strings of their dictionaries are never encrypted (7.6.2)
                if matches!(a.dict.get(b"Type"), Ok(Object::Name(n)) if n == b"XRef") {
                    return true;
                }
                let m = stream_method(cfg, &a.dict);
                let keep = path.len();
                path.push_str(".body");
                f(path, Leaf::Body, m, &a.content, &b.content);
                path.truncate(keep);
                path.push_str(".dict");
                let ok = zip_dict(cfg, &a.dict, &b.dict, path, 1, f);
                path.truncate(keep);
                ok
            }
            (a, b) => std::mem::discriminant(a) == std::mem::discriminant(b),
        }
    }

    fn zip_dict(cfg: &Config, a: &Dictionary, b: &Dictionary, path: &mut String, ctx: u8, f: &mut dyn FnMut(&str, Leaf, F, &[u8], &[u8])) -> bool {
        zip_dict_skip(cfg, a, b, path, ctx, f, None)
    }

    fn zip_dict_skip(
        cfg: &Config, a: &Dictionary, b: &Dictionary, path: &mut String, ctx: u8, f: &mut dyn FnMut(&str, Leaf, F, &[u8], &[u8]), skip: Option<&[u8]>,
    ) -> bool {
        let keep = path.len();
        for (k, x) in a.iter() {
            if skip == Some(k.as_slice()) {
                continue;
            }
            match b.get(k) {
                Ok(y) => {
                    path.push('/');
                    path.push_str(&String::from_utf8_lossy(k));
                    let ok = zip_inner(cfg, x, y, path, ctx, f);
                    path.truncate(keep);
                    if !ok {
                        return false;
                    }
                }
                Err(_) => return false,
            }
        }
        true
    }

    /// The Crypt filter of a stream dictionary: None = the stream has no Crypt filter; Some(None) = it has one whose
    /// parameters give no (usable) Name; Some(Some(name)) = the crypt filter it names. The parameters are a lone
    /// dictionary, or the entry at the filter's position in an array.
    pub fn crypt_override_name(d: &Dictionary) -> Option<Option<Vec<u8>>> {
        let pos = match d.get(b"Filter") {
            Ok(Object::Name(n)) if n == b"Crypt" => 0,
            Ok(Object::Array(a)) => a.iter().position(|x| matches!(x, Object::Name(n) if n == b"Crypt"))?,
            _ => return None,
        };
        let parms = match d.get(b"DecodeParms") {
            Ok(Object::Dictionary(p)) => Some(p),
            Ok(Object::Array(a)) => match a.get(pos) {
                Some(Object::Dictionary(p)) => Some(p),
                _ => None,
            },
            _ => None,
        };
        Some(match parms.map(|p| p.get(b"Name")) {
            Some(Ok(Object::Name(n))) => Some(n.clone()),
            _ => None,
        })
    }

    /// Method the configuration assigns to the body of a stream with this (plaintext) dictionary.
    pub fn stream_method(cfg: &Config, d: &Dictionary) -> F {
        if !cfg.has_filters() {
            return F::Rc4;
        }
        if let Some(name) = crypt_override_name(d) {
            return cfg.method_of_name(name.as_deref());
        }
        if !cfg.em && matches!(d.get(b"Type"), Ok(Object::Name(n)) if n == b"Metadata") {
            return F::Identity;
        }
        cfg.stm
    }

    /// Password pairs for revisions 5-6 whose SASLprep/UTF-8 form is longer than 127 bytes and has a 2-, 3-
    /// or 4-byte character across byte offset 127: Algorithm 2.A cuts the *byte string* at 127 bytes.
    pub fn straddling_pairs() -> Vec<(&'static str, String, String)> {
        let mk = |ascii: usize, fill: char, ch: char| -> String {
            let mut p: String = std::iter::repeat(fill).take(ascii).collect();
            p.push(ch);
            p.push_str("tail");
            assert!(p.len() > 127 && !p.is_char_boundary(127));
            p
        };
        vec![
            ("cut127_2byte", mk(126, 'a', '\u{e9}'), mk(126, 'B', '\u{f8}')),
            ("cut127_3byte", mk(125, 'c', '\u{20ac}'), mk(126, 'D', '\u{4e2d}')),
            ("cut127_4byte", mk(124, 'e', '\u{20000}'), mk(126, 'F', '\u{10330}')),
        ]
    }

    /// Password pairs for revisions 5-6 made of (mostly) non-Latin characters whose UTF-8 form is around or beyond
    /// the 127 bytes Algorithm 2.A keeps. The standard's order is: SASLprep the whole password, convert to UTF-8,
    /// keep the first 127 BYTES (which may split a character) - on the encrypting and on the opening side alike.
    pub fn long_nonlatin_pairs() -> Vec<(&'static str, String, String)> {
        let run = |first: u32, n: usize, span: u32| -> String { (0..n).map(|i| char::from_u32(first + (i as u32 * 7) % span).unwrap()).collect() };
        let cyr = |n: usize, off: u32| run(0x430 + off, n, 26);
        let cjk = |n: usize, off: u32| run(0x4e00 + off, n, 400);
        let ext_b = |n: usize, off: u32| run(0x20000 + off, n, 300);
        let mut v: Vec<(&'static str, String, String)> = vec![
            // 2-byte characters only: 128 / 140 bytes, byte 127 is the first byte of a character
            ("long_cyrillic", cyr(64, 0), cyr(70, 3)),
            // 3-byte characters only: 129 / 150 bytes, byte 127 falls inside a character
            ("long_cjk", cjk(43, 0), cjk(50, 9)),
            // 4-byte characters only: 128 / 160 bytes
            ("long_4byte", ext_b(32, 0), ext_b(40, 5)),
            // exactly 126 and exactly 127 bytes (nothing is cut), 63 resp. 63 + one ASCII character
            ("cyrillic_126_127", cyr(63, 1), format!("{}z", cyr(63, 2))),
            // the cut at 127 IS a character boundary (1 ASCII + 63 two-byte characters, then more)
            ("cut_on_boundary", format!("a{}{}", cyr(63, 4), cjk(3, 1)), format!("B{}{}", cjk(42, 2), cyr(5, 5))),
            // mixed scripts, 2-, 3- and 4-byte characters, a 3-byte resp. 4-byte character across offset 127
            ("mixed_scripts", format!("{}{}{}x{}", cyr(20, 6), cjk(20, 3), ext_b(6, 1), cjk(4, 7)), format!("pw{}{}{}", cjk(30, 4), cyr(16, 7), ext_b(4, 2))),
            // only one of the two passwords is long
            ("long_user_short_owner", cyr(80, 8), "owner".into()),
            ("short_user_long_owner", "user".into(), cjk(60, 11)),
            ("empty_user_long_owner", "".into(), cyr(66, 9)),
        ];
        // SASLprep changes the length: 40 soft hyphens (mapped to nothing) in front of 100 significant bytes - the raw
        // form has 180 bytes, the prepared form 100; and U+337F, which NFKC expands from 3 to 12 bytes (33 -> 132 bytes)
        let shy: String = std::iter::repeat('\u{ad}').take(40).collect();
        v.push(("prep_shrinks_below_127", format!("{}{}", shy, cyr(50, 10)), format!("{}{}{}", cyr(10, 11), shy, cjk(30, 13))));
        v.push(("prep_expands_beyond_127", std::iter::repeat('\u{337f}').take(11).collect(), format!("{}q", std::iter::repeat('\u{337f}').take(12).collect::<String>())));
        for (name, u, o) in &v {
            for p in [u, o] {
                assert!(super::utf8_prep_full(p).is_ok(), "SASLprep rejects a password of the pair {}", name);
            }
        }
        v
    }

    /// Password pairs (user, owner) of DESIGN C05.
    pub fn password_pairs() -> Vec<(&'static str, String, String)> {
        let u33: String = (0..33).map(|i| (b'a' + (i % 26) as u8) as char).collect();
        let o33: String = (0..33).map(|i| (b'A' + (i % 26) as u8) as char).collect();
        let u128: String = (0..128).map(|i| (b'0' + (i % 10) as u8) as char).collect();
        let o128: String = (0..128).map(|i| (b'!' + (i % 14) as u8) as char).collect();
        vec![
            ("both_empty", "".into(), "".into()),
            ("distinct", "user".into(), "owner".into()),
            ("same", "same-pw".into(), "same-pw".into()),
            ("empty_user", "".into(), "owner".into()),
            ("empty_owner", "user".into(), "".into()),
            ("len33", u33, o33),
            ("len128", u128, o128),
            ("non_latin", "\u{43f}\u{430}\u{440}\u{43e}\u{43b}\u{44c}".into(), "\u{432}\u{43b}\u{430}\u{434}\u{435}\u{43b}\u{435}\u{446}".into()),
            ("latin1", "p\u{e4}ssw\u{f6}rd".into(), "\u{f6}wn\u{e9}r\u{a3}".into()),
        ]
    }
}
