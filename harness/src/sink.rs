//! Fault-injecting `io::Write` driven by a script (DESIGN §2.4).
use std::io::{Error, ErrorKind, Result, Write};

#[derive(Debug, Clone, PartialEq)]
pub enum FailKind {
    /// `write` returns an error
    Error,
    /// `write` returns Ok(0)
    Zero,
    /// `write` returns an error of the i-th kind of `ERROR_KINDS`
    Kind(usize),
}

/// io::ErrorKind values a sink may report (the save path must treat them all alike, except Interrupted)
pub const ERROR_KINDS: [ErrorKind; 12] = [
    ErrorKind::InvalidData,
    ErrorKind::InvalidInput,
    ErrorKind::WouldBlock,
    ErrorKind::TimedOut,
    ErrorKind::BrokenPipe,
    ErrorKind::UnexpectedEof,
    ErrorKind::WriteZero,
    ErrorKind::Unsupported,
    ErrorKind::OutOfMemory,
    ErrorKind::PermissionDenied,
    ErrorKind::NotFound,
    ErrorKind::AlreadyExists,
];

#[derive(Debug, Clone, Default)]
pub struct Script {
    /// cyclic pattern of "accept at most k bytes per call"; empty = unlimited
    pub chunks: Vec<usize>,
    /// once this many bytes were accepted, every further write fails
    pub fail_at: Option<(usize, FailKind)>,
    /// write-call indices (0-based) that return Interrupted once
    pub interrupt_calls: Vec<usize>,
    /// the failure at `fail_at` happens only once; later writes succeed again (transient hard error)
    pub fail_once: bool,
    /// flush fails
    pub fail_flush: bool,
}

pub struct ScriptSink {
    pub script: Script,
    pub accepted: Vec<u8>,
    pub calls: usize,
    pub failures_reported: usize,
}

impl ScriptSink {
    pub fn new(script: Script) -> Self {
        ScriptSink { script, accepted: Vec::new(), calls: 0, failures_reported: 0 }
    }
}

impl Write for ScriptSink {
    fn write(&mut self, buf: &[u8]) -> Result<usize> {
        let idx = self.calls;
        self.calls += 1;
        if self.script.interrupt_calls.contains(&idx) {
            return Err(Error::new(ErrorKind::Interrupted, "injected EINTR"));
        }
        let mut n = buf.len();
        if !self.script.chunks.is_empty() {
            let c = self.script.chunks[idx % self.script.chunks.len()].max(1);
            n = n.min(c);
        }
        if let Some((p, kind)) = &self.script.fail_at {
            let remaining = p.saturating_sub(self.accepted.len());
            if remaining == 0 && !buf.is_empty() {
                self.failures_reported += 1;
                let kind = kind.clone();
                if self.script.fail_once {
                    self.script.fail_at = None;
                }
                return match &kind {
                    FailKind::Error => Err(Error::new(ErrorKind::Other, "injected sink failure")),
                    FailKind::Zero => Ok(0),
                    FailKind::Kind(i) => Err(Error::new(ERROR_KINDS[*i % ERROR_KINDS.len()], "injected sink failure")),
                };
            }
            n = n.min(remaining);
        }
        self.accepted.extend_from_slice(&buf[..n]);
        Ok(n)
    }

    fn flush(&mut self) -> Result<()> {
        if self.script.fail_flush {
            return Err(Error::new(ErrorKind::Other, "injected flush failure"));
        }
        Ok(())
    }
}
