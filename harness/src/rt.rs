//! Round-trip engine shared by C01 / C03 / C14-style checks: put many independent test items
//! into one document, save, load, compare per object, and bisect when the whole file fails.
use crate::cmp;
use crate::util;
use lopdf::{Dictionary, Document, Object, ObjectId};
use std::collections::BTreeMap;

/// A document skeleton for item batches: version 1.5, default binary mark, empty trailer.
pub fn doc_of_items(items: &[Object], table: bool) -> Document {
    let mut doc = Document::with_version("1.5");
    util::set_xref(&mut doc, table);
    for (i, o) in items.iter().enumerate() {
        doc.objects.insert((i as u32 + 1, 0), o.clone());
    }
    doc.max_id = items.len() as u32;
    doc
}

/// Outcome of one save+load of `doc`: document-level failure or per-object failures.
pub enum RoundTrip {
    DocLevel(String),
    Objects(Vec<(ObjectId, String)>),
}

/// What a reader recovered from a file (lopdf's loader or the strict reader).
pub struct View {
    pub version: String,
    pub objects: BTreeMap<ObjectId, Object>,
    pub trailer: Dictionary,
}

pub type Reader = fn(&[u8], &Document) -> Result<View, String>;

pub fn lopdf_reader(bytes: &[u8], _orig: &Document) -> Result<View, String> {
    util::load(bytes).map(|d| View { version: d.version, objects: d.objects, trailer: d.trailer })
}

/// Strict reader; the binary comment is required whenever the document has a non-empty mark.
pub fn strict_reader(bytes: &[u8], orig: &Document) -> Result<View, String> {
    let opts = crate::strict::Options { require_binary_mark: orig.binary_mark.len() >= 4 };
    let d = util::guard(|| crate::strict::read(bytes, &opts)).map_err(|p| format!("strict reader bug: {}", p))??;
    if d.bytes_accounted != bytes.len() {
        return Err(format!("strict reader accounted for {} of {} bytes", d.bytes_accounted, bytes.len()));
    }
    if let Some(m) = &d.binary_mark {
        if *m != orig.binary_mark {
            return Err(format!("binary comment {:?} differs from the document's mark {:?}", m, orig.binary_mark));
        }
    } else {
        return Err("binary comment line missing".into());
    }
    Ok(View { version: d.version, objects: d.objects, trailer: d.trailer })
}

pub fn roundtrip(doc: &Document, table: bool) -> RoundTrip {
    roundtrip_with(doc, table, lopdf_reader)
}

pub fn roundtrip_with(doc: &Document, table: bool, reader: Reader) -> RoundTrip {
    let bytes = match util::save_bytes(doc, table) {
        Ok(b) => b,
        Err(e) => return RoundTrip::DocLevel(e),
    };
    let loaded = match reader(&bytes, doc) {
        Ok(d) => d,
        Err(e) => return RoundTrip::DocLevel(e),
    };
    compare_loaded(doc, &loaded)
}

pub fn compare_loaded(doc: &Document, loaded: &View) -> RoundTrip {
    if doc.version != loaded.version {
        return RoundTrip::DocLevel(format!("version: expected {:?} got {:?}", doc.version, loaded.version));
    }
    if let Some(d) = cmp::diff_trailer(&doc.trailer, &loaded.trailer) {
        return RoundTrip::DocLevel(d);
    }
    let mut fails = vec![];
    for (id, o) in &doc.objects {
        match loaded.objects.get(id) {
            None => fails.push((*id, format!("object {} {} missing after load", id.0, id.1))),
            Some(p) => {
                if let Some(d) = cmp::diff_obj(o, p, &format!("obj({} {})", id.0, id.1)) {
                    fails.push((*id, d));
                }
            }
        }
    }
    for (id, o) in &loaded.objects {
        if !doc.objects.contains_key(id) && !matches!(o.type_name(), Ok(b"XRef") | Ok(b"ObjStm")) {
            fails.push((*id, format!("unexpected object {} {} after load", id.0, id.1)));
        }
    }
    RoundTrip::Objects(fails)
}

/// Check a batch of independent items; returns (index, message) for every failing item. Items
/// are re-checked alone (single-object document) before they are reported, so a report never
/// depends on its neighbours in the batch.
pub fn check_items(items: &[Object], table: bool) -> Vec<(usize, String)> {
    check_items_with(items, table, lopdf_reader)
}

pub fn check_items_with(items: &[Object], table: bool, reader: Reader) -> Vec<(usize, String)> {
    let mut out = vec![];
    check_range(items, 0, items.len(), table, reader, &mut out);
    out
}

fn check_range(items: &[Object], lo: usize, hi: usize, table: bool, reader: Reader, out: &mut Vec<(usize, String)>) {
    if lo >= hi {
        return;
    }
    let doc = doc_of_items(&items[lo..hi], table);
    match roundtrip_with(&doc, table, reader) {
        RoundTrip::Objects(fails) => {
            for (id, _msg) in fails {
                let idx = lo + id.0 as usize - 1;
                if idx < hi {
                    if let Some(m) = check_single_with(&items[idx], table, reader) {
                        out.push((idx, m));
                    }
                } else {
                    out.push((lo, format!("unexpected extra object {} {}", id.0, id.1)));
                }
            }
        }
        RoundTrip::DocLevel(msg) => {
            if hi - lo == 1 {
                out.push((lo, msg));
            } else {
                let mid = (lo + hi) / 2;
                check_range(items, lo, mid, table, reader, out);
                check_range(items, mid, hi, table, reader, out);
            }
        }
    }
}

/// Round-trip one item alone; Some(message) if it fails.
pub fn check_single(item: &Object, table: bool) -> Option<String> {
    check_single_with(item, table, lopdf_reader)
}

pub fn check_single_with(item: &Object, table: bool, reader: Reader) -> Option<String> {
    let doc = doc_of_items(std::slice::from_ref(item), table);
    match roundtrip_with(&doc, table, reader) {
        RoundTrip::DocLevel(m) => Some(m),
        RoundTrip::Objects(f) => f.into_iter().next().map(|x| x.1),
    }
}

/// Whole-document check with full diff (used for file-level dimensions).
pub fn check_doc(doc: &Document, table: bool) -> Option<String> {
    check_doc_with(doc, table, lopdf_reader)
}

pub fn check_doc_with(doc: &Document, table: bool, reader: Reader) -> Option<String> {
    match roundtrip_with(doc, table, reader) {
        RoundTrip::DocLevel(m) => Some(m),
        RoundTrip::Objects(f) => f.into_iter().next().map(|x| x.1),
    }
}

/// The same check through the path-taking entry point `Document::save(path)`, over a scratch file
/// that already holds `existing` junk bytes (None = fresh path). Err = machinery (scratch file).
pub fn check_doc_path_with(doc: &Document, table: bool, reader: Reader, existing: Option<usize>) -> Result<Option<String>, String> {
    let p = util::scratch_path()?;
    if let Some(k) = existing {
        std::fs::write(&p, vec![b'#'; k]).map_err(|e| format!("scratch file: {}", e))?;
    }
    let mut d = doc.clone();
    util::set_xref(&mut d, table);
    let r = util::guard(|| d.save(&p).map(|_| ()));
    let bytes = std::fs::read(&p);
    let _ = std::fs::remove_file(&p);
    let bytes = match r {
        Ok(Ok(())) => bytes.map_err(|e| format!("reading back the scratch file: {}", e))?,
        Ok(Err(e)) => return Ok(Some(format!("save(path) error: {}", e))),
        Err(pn) => return Ok(Some(format!("save(path) {}", pn))),
    };
    let loaded = match reader(&bytes, doc) {
        Ok(v) => v,
        Err(e) => return Ok(Some(format!("file written by save(path): {}", e))),
    };
    Ok(match compare_loaded(doc, &loaded) {
        RoundTrip::DocLevel(m) => Some(m),
        RoundTrip::Objects(f) => f.into_iter().next().map(|x| x.1),
    })
}

// ---------------------------------------------------------------------------------------------
// sequences of saves and edits on ONE Document value (state that survives a save: trailer, max_id)

pub const RESAVE_OPS: [&str; 6] = ["save_table", "save_stream", "renumber", "add_object", "delete_last", "renumber_with_3"];

/// Apply the op sequence to one Document; every save must be strictly valid and recover the
/// document as it is at that moment.
pub fn run_resave_with(base: &Document, ops: &[usize], reader: Reader) -> Result<u64, String> {
    let mut doc = base.clone();
    let mut saves = 0;
    for (step, op) in ops.iter().enumerate() {
        match RESAVE_OPS[*op] {
            "save_table" | "save_stream" => {
                let table = RESAVE_OPS[*op] == "save_table";
                util::set_xref(&mut doc, table);
                let snapshot = doc.clone();
                let mut out = vec![];
                match util::guard(|| doc.save_to(&mut out)) {
                    Ok(Ok(())) => {}
                    Ok(Err(e)) => return Err(format!("step {}: save error {}", step, e)),
                    Err(p) => return Err(p),
                }
                saves += 1;
                let view = reader(&out, &snapshot).map_err(|e| format!("step {} ({}): {}", step, RESAVE_OPS[*op], e))?;
                if let Some(m) = cmp::diff_objects(&snapshot.objects, &view.objects) {
                    return Err(format!("step {} ({}): {}", step, RESAVE_OPS[*op], m));
                }
                let mut want = snapshot.trailer.clone();
                for k in cmp::XREF_BOOKKEEPING {
                    want.remove(k);
                }
                if let Some(m) = cmp::diff_trailer(&want, &view.trailer) {
                    return Err(format!("step {} ({}): {}", step, RESAVE_OPS[*op], m));
                }
            }
            "renumber" => doc.renumber_objects(),
            "renumber_with_3" => doc.renumber_objects_with(3),
            "add_object" => {
                doc.add_object(Object::Array(vec![Object::Integer(step as i64), Object::string_literal("added")]));
            }
            _ => {
                // delete the object with the largest number that is not referenced by the trailer
                let root = doc.trailer.get(b"Root").and_then(Object::as_reference).ok();
                let victim = doc.objects.keys().rev().find(|id| Some(**id) != root).cloned();
                if let Some(v) = victim {
                    doc.objects.remove(&v);
                }
            }
        }
    }
    Ok(saves)
}


/// All op sequences of length 1..=depth that end in a save (prefixes are covered by shorter ones).
pub fn resave_sequences(depth: usize) -> Vec<Vec<usize>> {
    let mut seqs: Vec<Vec<usize>> = vec![];
    let mut level: Vec<Vec<usize>> = vec![vec![]];
    for _ in 0..depth {
        let mut next = vec![];
        for sq in &level {
            for op in 0..RESAVE_OPS.len() {
                let mut s2 = sq.clone();
                s2.push(op);
                next.push(s2);
            }
        }
        seqs.extend(next.iter().filter(|s| *s.last().unwrap() <= 1).cloned());
        level = next;
    }
    seqs
}

pub fn dict(entries: Vec<(&[u8], Object)>) -> Dictionary {
    let mut d = Dictionary::new();
    for (k, v) in entries {
        d.set(k.to_vec(), v);
    }
    d
}

pub fn objects_map(items: Vec<(ObjectId, Object)>) -> BTreeMap<ObjectId, Object> {
    items.into_iter().collect()
}

/// Walk an object tree.
pub fn walk(o: &Object, f: &mut dyn FnMut(&Object)) {
    f(o);
    match o {
        Object::Array(a) => a.iter().for_each(|x| walk(x, f)),
        Object::Dictionary(d) => d.iter().for_each(|(_, v)| walk(v, f)),
        Object::Stream(s) => s.dict.iter().for_each(|(_, v)| walk(v, f)),
        _ => {}
    }
}

/// Map every node of an object tree (bottom-up).
pub fn map_tree(o: &Object, f: &dyn Fn(&Object) -> Option<Object>) -> Object {
    if let Some(r) = f(o) {
        return r;
    }
    match o {
        Object::Array(a) => Object::Array(a.iter().map(|x| map_tree(x, f)).collect()),
        Object::Dictionary(d) => {
            let mut n = Dictionary::new();
            for (k, v) in d.iter() {
                n.set(k.clone(), map_tree(v, f));
            }
            Object::Dictionary(n)
        }
        Object::Stream(s) => {
            let mut n = Dictionary::new();
            for (k, v) in s.dict.iter() {
                n.set(k.clone(), map_tree(v, f));
            }
            let mut st = s.clone();
            st.dict = n;
            Object::Stream(st)
        }
        other => other.clone(),
    }
}

/// Maximum nesting depth of balanced parentheses in a byte string.
pub fn paren_depth(s: &[u8]) -> usize {
    let mut depth = 0usize;
    let mut max = 0usize;
    for &b in s {
        if b == b'(' {
            depth += 1;
            max = max.max(depth);
        } else if b == b')' && depth > 0 {
            depth -= 1;
        }
    }
    max
}
