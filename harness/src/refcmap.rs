//! C15: reference semantics of ToUnicode CMaps, the definition menu, the choice recorder and the
//! CMap text renderer (DESIGN §2.2, §4 C15). Nothing in this module calls lopdf.
use serde_json::{json, Value};

pub type Units = Vec<u16>;

/// One mapping definition of a ToUnicode CMap.
#[derive(Clone, Debug, PartialEq, Eq, Hash)]
pub enum Def {
    /// `<code> <t>` in a bfchar section
    Char { len: u8, code: u32, t: Units },
    /// `<lo> <hi> <t>` in a bfrange section: code maps to t with (code - lo) added to its last unit
    Range { len: u8, lo: u32, hi: u32, t: Units },
    /// `<lo> <hi> [<t0> <t1> ...]` in a bfrange section: code maps to ts[code - lo]
    Array { len: u8, lo: u32, hi: u32, ts: Vec<Units> },
}

impl Def {
    pub fn len(&self) -> u8 {
        match self {
            Def::Char { len, .. } | Def::Range { len, .. } | Def::Array { len, .. } => *len,
        }
    }
    pub fn lo(&self) -> u32 {
        match self {
            Def::Char { code, .. } => *code,
            Def::Range { lo, .. } | Def::Array { lo, .. } => *lo,
        }
    }
    pub fn hi(&self) -> u32 {
        match self {
            Def::Char { code, .. } => *code,
            Def::Range { hi, .. } | Def::Array { hi, .. } => *hi,
        }
    }
    pub fn covers(&self, len: u8, code: u32) -> bool {
        self.len() == len && self.lo() <= code && code <= self.hi()
    }
    /// true for definitions written in a bfrange section
    pub fn in_range_section(&self) -> bool {
        !matches!(self, Def::Char { .. })
    }
    /// The UTF-16 units this definition gives to `code` (which it must cover).
    pub fn value(&self, code: u32) -> Units {
        match self {
            Def::Char { t, .. } => t.clone(),
            Def::Range { lo, t, .. } => {
                // the offset is added to the last unit only, modulo 2^16 (a unit has 16 bits)
                let mut v = t.clone();
                let last = v.last_mut().expect("target has at least one unit");
                *last = last.wrapping_add((code - lo) as u16);
                v
            }
            Def::Array { lo, ts, .. } => ts[(code - lo) as usize].clone(),
        }
    }
    /// Well-formedness as the property's domain understands it: lo <= hi, code fits its length,
    /// non-empty targets, an array has exactly hi-lo+1 elements, an incrementing range does not carry
    /// out of the low byte of its last unit (ISO 32000-1 9.10.3 / Adobe TN 5014).
    pub fn well_formed(&self) -> bool {
        let l = self.len();
        if !(1..=4).contains(&l) || self.lo() > self.hi() {
            return false;
        }
        if l < 4 && self.hi() >= 1u32 << (8 * l as u32) {
            return false;
        }
        match self {
            Def::Char { t, .. } => !t.is_empty(),
            Def::Range { lo, hi, t, .. } => !t.is_empty() && (*t.last().unwrap() as u32 & 0xff) + (hi - lo) <= 0xff,
            Def::Array { lo, hi, ts, .. } => ts.len() as u64 == (*hi as u64 - *lo as u64 + 1) && ts.iter().all(|t| !t.is_empty()),
        }
    }
    /// `well_formed` without the ISO 32000-1 9.10.3 clause about the low byte: lo <= hi, the code fits
    /// its length, targets of 1..=256 units (512 bytes, the limit of a CMap string), an array has
    /// exactly hi-lo+1 elements. The property's own words ("adds the offset to the last UTF-16 unit")
    /// give such a range a value; the parts that use this say so in their assumptions.
    pub fn well_formed_lenient(&self) -> bool {
        let l = self.len();
        if !(1..=4).contains(&l) || self.lo() > self.hi() {
            return false;
        }
        if l < 4 && self.hi() >= 1u32 << (8 * l as u32) {
            return false;
        }
        let ok = |t: &Units| !t.is_empty() && t.len() <= 256;
        match self {
            Def::Char { t, .. } | Def::Range { t, .. } => ok(t),
            Def::Array { lo, hi, ts, .. } => ts.len() as u64 == (*hi as u64 - *lo as u64 + 1) && ts.iter().all(ok),
        }
    }
    /// an incrementing range whose offset carries out of the low byte of the last unit
    pub fn carries_low_byte(&self) -> bool {
        matches!(self, Def::Range { lo, hi, t, .. } if !t.is_empty() && (*t.last().unwrap() as u64 & 0xff) + (*hi as u64 - *lo as u64) > 0xff)
    }
    /// the offset of `code` takes the last unit of an incrementing range past FFFF (it wraps to 0000..)
    pub fn wraps_at(&self, code: u32) -> bool {
        matches!(self, Def::Range { lo, t, .. } if !t.is_empty() && *t.last().unwrap() as u64 + (code - lo) as u64 > 0xFFFF)
    }
    pub fn overlaps_or_touches(&self, other: &Def) -> bool {
        self.len() == other.len()
            && (self.lo() as u64) <= other.hi() as u64 + 1
            && (other.lo() as u64) <= self.hi() as u64 + 1
    }

    pub fn to_json(&self) -> Value {
        let l = self.len();
        match self {
            Def::Char { code, t, .. } => json!({"kind": "bfchar", "len": l, "code": hex_code(l, *code, false), "t": hex_units(t, false, false)}),
            Def::Range { lo, hi, t, .. } => {
                json!({"kind": "bfrange", "len": l, "lo": hex_code(l, *lo, false), "hi": hex_code(l, *hi, false), "t": hex_units(t, false, false)})
            }
            Def::Array { lo, hi, ts, .. } => json!({"kind": "bfrange_array", "len": l, "lo": hex_code(l, *lo, false), "hi": hex_code(l, *hi, false),
                "ts": ts.iter().map(|t| hex_units(t, false, false)).collect::<Vec<_>>()}),
        }
    }
    pub fn from_json(v: &Value) -> Result<Def, String> {
        let len = v["len"].as_u64().ok_or("len")? as u8;
        let code = |k: &str| -> Result<u32, String> { u32::from_str_radix(v[k].as_str().ok_or(k.to_string())?, 16).map_err(|e| e.to_string()) };
        let units = |s: &str| -> Result<Units, String> {
            if s.len() % 4 != 0 || s.is_empty() {
                return Err(format!("bad target {}", s));
            }
            (0..s.len() / 4).map(|i| u16::from_str_radix(&s[4 * i..4 * i + 4], 16).map_err(|e| e.to_string())).collect()
        };
        match v["kind"].as_str() {
            Some("bfchar") => Ok(Def::Char { len, code: code("code")?, t: units(v["t"].as_str().ok_or("t")?)? }),
            Some("bfrange") => Ok(Def::Range { len, lo: code("lo")?, hi: code("hi")?, t: units(v["t"].as_str().ok_or("t")?)? }),
            Some("bfrange_array") => {
                let mut ts = vec![];
                for t in v["ts"].as_array().ok_or("ts")? {
                    ts.push(units(t.as_str().ok_or("ts item")?)?);
                }
                Ok(Def::Array { len, lo: code("lo")?, hi: code("hi")?, ts })
            }
            _ => Err("unknown kind".into()),
        }
    }
}

// ---------------------------------------------------------------------------------------------
// reference semantics (the oracle)

/// The last definition covering the code wins.
pub fn winner(defs: &[Def], len: u8, code: u32) -> Option<usize> {
    (0..defs.len()).rev().find(|&i| defs[i].covers(len, code))
}

pub fn lookup(defs: &[Def], len: u8, code: u32) -> Option<Units> {
    winner(defs, len, code).map(|i| defs[i].value(code))
}

/// UTF-16 decoding of the units of the WHOLE input: a high surrogate followed by a low surrogate is one
/// character; every surrogate without a partner is U+FFFD (an assumption where the statement is silent:
/// see `Tok` / `fixed_pattern` for what is demanded when an implementation differs there).
pub fn utf16_to_string(units: &[u16]) -> String {
    let mut out = String::new();
    let mut i = 0;
    while i < units.len() {
        let u = units[i] as u32;
        if (0xD800..0xDC00).contains(&u) && i + 1 < units.len() && (0xDC00..0xE000).contains(&(units[i + 1] as u32)) {
            let c = 0x10000 + ((u - 0xD800) << 10) + (units[i + 1] as u32 - 0xDC00);
            out.push(char::from_u32(c).unwrap());
            i += 2;
        } else if (0xD800..0xE000).contains(&u) {
            out.push('\u{FFFD}');
            i += 1;
        } else {
            out.push(char::from_u32(u).unwrap());
            i += 1;
        }
    }
    out
}

/// What the property's statement fixes of the decoded text, whatever an implementation makes of an
/// unpaired surrogate: `Ch` = exactly this character, `Any` = zero or more characters of any kind.
#[derive(Clone, Copy, Debug, PartialEq, Eq)]
pub enum Tok {
    Ch(char),
    Any,
}

/// The pattern of one value: surrogate pairs and other units are fixed characters; a surrogate that has
/// no partner INSIDE THE VALUE OF ITS OWN CODE is `Any` (the statement says that surrogate pairs become
/// one character; it says nothing about a surrogate without a partner, nor about a high surrogate that
/// ends one code's value and a low surrogate that starts the next one's).
pub fn value_pattern(units: &[u16], out: &mut Vec<Tok>) {
    let mut i = 0;
    while i < units.len() {
        let u = units[i] as u32;
        if (0xD800..0xDC00).contains(&u) && i + 1 < units.len() && (0xDC00..0xE000).contains(&(units[i + 1] as u32)) {
            out.push(Tok::Ch(char::from_u32(0x10000 + ((u - 0xD800) << 10) + (units[i + 1] as u32 - 0xDC00)).unwrap()));
            i += 2;
        } else if (0xD800..0xE000).contains(&u) {
            out.push(Tok::Any);
            i += 1;
        } else {
            out.push(Tok::Ch(char::from_u32(u).unwrap()));
            i += 1;
        }
    }
}

pub fn fixed_pattern(defs: &[Def], input: &[(u8, u32)]) -> Option<Vec<Tok>> {
    let mut p = vec![];
    for &(len, code) in input {
        value_pattern(&lookup(defs, len, code)?, &mut p);
    }
    Some(p)
}

pub fn has_unpaired(units: &[u16]) -> bool {
    let mut p = vec![];
    value_pattern(units, &mut p);
    p.contains(&Tok::Any)
}

/// Glob match: every `Ch` in order, `Any` absorbing zero or more characters.
pub fn pattern_matches(p: &[Tok], s: &str) -> bool {
    let cs: Vec<char> = s.chars().collect();
    // reach[j] = the tokens read so far can produce cs[..j]
    let mut reach = vec![false; cs.len() + 1];
    reach[0] = true;
    for t in p {
        let mut next = vec![false; cs.len() + 1];
        match t {
            Tok::Ch(c) => {
                for j in 0..cs.len() {
                    if reach[j] && cs[j] == *c {
                        next[j + 1] = true;
                    }
                }
            }
            Tok::Any => {
                let mut on = false;
                for j in 0..=cs.len() {
                    on |= reach[j];
                    next[j] = on;
                }
            }
        }
        reach = next;
    }
    reach[cs.len()]
}

/// Text the CMap defines for a string of mapped codes; None if a code is unmapped (outside the domain).
pub fn expected_text(defs: &[Def], input: &[(u8, u32)]) -> Option<String> {
    let mut units = vec![];
    for &(len, code) in input {
        units.extend(lookup(defs, len, code)?);
    }
    Some(utf16_to_string(&units))
}

pub fn code_bytes(len: u8, code: u32) -> Vec<u8> {
    code.to_be_bytes()[4 - len as usize..].to_vec()
}

pub fn input_bytes(input: &[(u8, u32)]) -> Vec<u8> {
    input.iter().flat_map(|&(l, c)| code_bytes(l, c)).collect()
}

/// Split a byte string into mapped codes: at every position the shortest mapped code (the code sets
/// used are prefix-free, so this is the only split). None if some position starts no mapped code.
pub fn segment(defs: &[Def], bytes: &[u8]) -> Option<Vec<(u8, u32)>> {
    let mut out = vec![];
    let mut i = 0;
    'next: while i < bytes.len() {
        let mut code = 0u32;
        for l in 1..=4usize {
            if i + l > bytes.len() {
                break;
            }
            code = (code << 8) | bytes[i + l - 1] as u32;
            if winner(defs, l as u8, code).is_some() {
                out.push((l as u8, code));
                i += l;
                continue 'next;
            }
        }
        return None;
    }
    Some(out)
}

/// All mapped codes, sorted by (length, value), distinct.
pub fn mapped_codes(defs: &[Def]) -> Vec<(u8, u32)> {
    let mut v = vec![];
    for d in defs {
        for c in d.lo()..=d.hi() {
            v.push((d.len(), c));
        }
    }
    v.sort();
    v.dedup();
    v
}

/// The set of codes is prefix-free when no code of one length is the leading bytes of a longer code.
pub fn prefix_free(codes: &[(u8, u32)]) -> bool {
    for &(l1, c1) in codes {
        for &(l2, c2) in codes {
            if l1 < l2 && (c2 >> (8 * (l2 - l1) as u32)) == c1 {
                return false;
            }
        }
    }
    true
}

/// How lopdf's `ToUnicodeCMap::from_sections` stores a definition. Used ONLY by the known-finding
/// classifier predicates (which kinds are position-relative), never by the oracle.
#[derive(Clone, Debug, PartialEq, Eq)]
pub enum Stored {
    Offset(u32),
    Hex(Units),
    Arr(Vec<Units>),
}

pub fn stored_kind(d: &Def) -> Stored {
    match d {
        Def::Char { code, t, .. } if t.len() == 1 => Stored::Offset((t[0] as u32).wrapping_sub(*code)),
        Def::Char { t, .. } => Stored::Hex(t.clone()),
        Def::Range { lo, t, .. } if t.len() == 1 => Stored::Offset((t[0] as u32).wrapping_sub(*lo)),
        Def::Range { t, .. } => Stored::Hex(t.clone()),
        Def::Array { lo, ts, .. } if ts.len() == 1 && ts[0].len() == 1 => Stored::Offset((ts[0][0] as u32).wrapping_sub(*lo)),
        Def::Array { ts, .. } if ts.len() == 1 => Stored::Hex(ts[0].clone()),
        Def::Array { ts, .. } => Stored::Arr(ts.clone()),
    }
}

// ---------------------------------------------------------------------------------------------
// definition menu

pub const T_A: [u16; 1] = [0x0041];
pub const T_LIG: [u16; 2] = [0x0066, 0x0069];
pub const T_EMO: [u16; 2] = [0xD83D, 0xDE00];
/// eight pairwise different array elements of all four target shapes
pub const MIXED: [&[u16]; 8] = [
    &[0x0061],
    &[0x0066, 0x006C],
    &[0xD83D, 0xDE42],
    &[0x00FF],
    &[0x0062],
    &[0x0066, 0x0066, 0x0069],
    &[0xD83C, 0xDF0D],
    &[0x00FE],
];

#[derive(Clone, Copy, Debug, PartialEq, Eq)]
pub enum Tgt {
    A,
    /// one unit chosen so that the LAST code of the definition maps to 00FF (no carry out of the low byte)
    Ff,
    Lig,
    Emo,
}

fn target(t: Tgt, span: u32) -> Units {
    match t {
        Tgt::A => T_A.to_vec(),
        Tgt::Ff => vec![(0x00FF - span) as u16],
        Tgt::Lig => T_LIG.to_vec(),
        Tgt::Emo => T_EMO.to_vec(),
    }
}

fn array_target(n: u32, rot: u32) -> Vec<Units> {
    (0..n).map(|i| MIXED[((i + rot) % 8) as usize].to_vec()).collect()
}

pub struct MenuParts {
    pub menu: Vec<Def>,
    /// index range of the 1-byte entries inside `menu` (used for the 3-/4-byte spot checks)
    pub one_byte: std::ops::Range<usize>,
}

/// The ~175-entry definition menu of DESIGN §4 C15.
pub fn menu() -> MenuParts {
    let all = [Tgt::A, Tgt::Ff, Tgt::Lig, Tgt::Emo];
    let mut m = vec![];
    // 2-byte codes, window 0010..0017
    let b2 = 0x0010u32;
    let iv2: [(u32, u32); 12] = [(0, 7), (0, 3), (4, 7), (2, 5), (0, 1), (2, 3), (4, 5), (6, 7), (1, 2), (3, 4), (1, 6), (0, 5)];
    for &(a, b) in &iv2 {
        for t in all {
            m.push(Def::Range { len: 2, lo: b2 + a, hi: b2 + b, t: target(t, b - a) });
        }
        for rot in [0, 1] {
            m.push(Def::Array { len: 2, lo: b2 + a, hi: b2 + b, ts: array_target(b - a + 1, rot) });
        }
    }
    for off in [0u32, 1, 2, 3, 4, 5, 7] {
        for t in all {
            m.push(Def::Char { len: 2, code: b2 + off, t: target(t, 0) });
        }
    }
    // one-code ranges (lo == hi) written as bfrange, incl. one-element arrays of each shape
    for t in all {
        m.push(Def::Range { len: 2, lo: b2 + 3, hi: b2 + 3, t: target(t, 0) });
    }
    for rot in [0, 1, 2] {
        m.push(Def::Array { len: 2, lo: b2 + 3, hi: b2 + 3, ts: array_target(1, rot) });
    }
    // 2-byte codes across the 00FF/0100 boundary
    for &(lo, hi) in &[(0x00FEu32, 0x0101u32), (0x00FE, 0x00FF), (0x0100, 0x0101), (0x00FF, 0x0100)] {
        for t in all {
            m.push(Def::Range { len: 2, lo, hi, t: target(t, hi - lo) });
        }
        m.push(Def::Array { len: 2, lo, hi, ts: array_target(hi - lo + 1, 1) });
    }
    for code in [0x00FEu32, 0x00FF, 0x0100, 0x0101] {
        for t in [Tgt::A, Tgt::Emo] {
            m.push(Def::Char { len: 2, code, t: target(t, 0) });
        }
    }
    // 1-byte codes, window 10..17
    let start1 = m.len();
    let b1 = 0x10u32;
    for &(a, b) in &[(0u32, 7u32), (0, 3), (4, 7), (2, 5), (2, 3)] {
        for t in all {
            m.push(Def::Range { len: 1, lo: b1 + a, hi: b1 + b, t: target(t, b - a) });
        }
        m.push(Def::Array { len: 1, lo: b1 + a, hi: b1 + b, ts: array_target(b - a + 1, 1) });
    }
    for off in [0u32, 2, 3, 4, 7] {
        for t in [Tgt::Lig, Tgt::Ff] {
            m.push(Def::Char { len: 1, code: b1 + off, t: target(t, 0) });
        }
    }
    let end1 = m.len();
    debug_assert!(m.iter().all(|d| d.well_formed()));
    MenuParts { menu: m, one_byte: start1..end1 }
}

/// Move a 1-byte definition to a longer code length: code c becomes base + c.
pub fn transpose(d: &Def, len: u8, base: u32) -> Def {
    match d {
        Def::Char { code, t, .. } => Def::Char { len, code: base + code, t: t.clone() },
        Def::Range { lo, hi, t, .. } => Def::Range { len, lo: base + lo, hi: base + hi, t: t.clone() },
        Def::Array { lo, hi, ts, .. } => Def::Array { len, lo: base + lo, hi: base + hi, ts: ts.clone() },
    }
}

// ---------------------------------------------------------------------------------------------
// overlap menus: every interval of a small code window in forms whose VALUES agree between intervals

/// How an overlap-menu entry spells the mapping of the interval [a, b] of window positions.
#[derive(Clone, Copy, Debug, PartialEq, Eq)]
pub enum Form {
    /// position p maps to the one unit id0 + p: bfchar when a == b, else an incrementing bfrange.
    /// Every Id entry of a menu gives a code the same value, whatever interval it is written for.
    Id,
    /// the one-code intervals of `Id` written as a bfrange with lo == hi
    IdRange1,
    /// position p maps to the one unit sh0 + p (a second family of mutually consistent entries)
    Sh,
    /// the values of `Id` written as an array of one-unit elements (one element when a == b)
    IdArr,
    /// the fixed two-unit target 0066 0069 (+ offset in the range): bfchar when a == b
    Lig,
    /// array whose element for position p is MIXP[p]: one, two (also a surrogate pair) and three units
    Mix,
}

/// per-position array elements of `Form::Mix`
pub const MIXP: [&[u16]; 5] = [&[0x0061], &[0x0066, 0x006C], &[0xD83D, 0xDE42], &[0x0062], &[0x0066, 0x0066, 0x0069]];

/// Every interval [a, b], 0 <= a <= b < n (n <= 5), of the code window base..base+n-1 in every form.
/// With id0 / sh0 close to xxFF some incrementing ranges would carry out of the low byte: the caller
/// drops those (`retain(well_formed)`); the explorer refuses ill-formed definitions.
pub fn overlap_menu(len: u8, base: u32, n: u32, forms: &[Form], id0: u16, sh0: u16) -> Vec<Def> {
    assert!(n as usize <= MIXP.len());
    let mut m = vec![];
    for a in 0..n {
        for b in a..n {
            let (lo, hi) = (base + a, base + b);
            let unit = |t: Units| if a == b { Def::Char { len, code: lo, t } } else { Def::Range { len, lo, hi, t } };
            for f in forms {
                match f {
                    Form::Id => m.push(unit(vec![id0 + a as u16])),
                    Form::IdRange1 if a == b => m.push(Def::Range { len, lo, hi, t: vec![id0 + a as u16] }),
                    Form::IdRange1 => {}
                    Form::Sh => m.push(unit(vec![sh0 + a as u16])),
                    Form::IdArr => m.push(Def::Array { len, lo, hi, ts: (a..=b).map(|p| vec![id0 + p as u16]).collect() }),
                    Form::Lig => m.push(unit(T_LIG.to_vec())),
                    Form::Mix => m.push(Def::Array { len, lo, hi, ts: (a..=b).map(|p| MIXP[p as usize].to_vec()).collect() }),
                }
            }
        }
    }
    m
}

// ---------------------------------------------------------------------------------------------
// array targets

/// Array element of `k` units (1..=3) with leading unit `lead`: lead, 0301, 0302.
pub fn element(lead: u16, k: usize) -> Units {
    [lead, 0x0301, 0x0302][..k].to_vec()
}

/// Arrays of 2..=4 elements in every profile of element lengths {1, 2, 3}, with leading units that
/// ascend by one / stay equal / descend by one from `lead0` (wrapping at 16 bits).
pub fn profile_arrays(lead0: u16) -> Vec<Vec<Units>> {
    let mut out = vec![];
    for n in 2..=4usize {
        for prof in 0..3usize.pow(n as u32) {
            for step in [1i32, 0, -1] {
                let mut p = prof;
                let mut ts = vec![];
                for i in 0..n {
                    let lead = (lead0 as i32 + step * i as i32 + if step < 0 { n as i32 - 1 } else { 0 }) as u16;
                    ts.push(element(lead, p % 3 + 1));
                    p /= 3;
                }
                out.push(ts);
            }
        }
    }
    out
}

/// All arrays of exactly `n` elements over `alphabet`, addressed by index.
pub fn array_at(alphabet: &[Units], n: usize, mut idx: u64) -> Vec<Units> {
    let k = alphabet.len() as u64;
    let mut ts = vec![vec![]; n];
    for p in (0..n).rev() {
        ts[p] = alphabet[(idx % k) as usize].clone();
        idx /= k;
    }
    ts
}

/// Elements with leading unit 0041..0044 and 1, 2 or 3 units: arrays over it have every length
/// profile with ascending, equal, descending and mixed leading units.
pub fn alphabet_lead() -> Vec<Units> {
    let mut a = vec![];
    for lead in 0x0041..=0x0044u16 {
        for k in 1..=3 {
            a.push(element(lead, k));
        }
    }
    a
}

/// Elements that share their leading unit and differ in the last one (an array that looks like an
/// incrementing multi-unit range), plus one- and three-unit neighbours.
pub fn alphabet_last() -> Vec<Units> {
    vec![vec![0x0066, 0x0069], vec![0x0066, 0x006A], vec![0x0066, 0x006B], vec![0x0066], vec![0x0067], vec![0x0066, 0x0069, 0x006A]]
}

// ---------------------------------------------------------------------------------------------
// choice recorder (DESIGN §2.2)

#[derive(Clone, Debug, PartialEq, Eq)]
pub struct Site {
    pub class: &'static str,
    pub n: usize,
    /// liberal = PostScript allows the spelling but it is outside the conservative template variations
    pub liberal: bool,
}

/// Replays a choice vector (missing entries = 0, the plainest spelling) and records the sites met.
pub struct Chooser<'a> {
    script: &'a [usize],
    pub sites: Vec<Site>,
    pub error: Option<String>,
}

impl<'a> Chooser<'a> {
    pub fn new(script: &'a [usize]) -> Chooser<'a> {
        Chooser { script, sites: vec![], error: None }
    }
    pub fn choose(&mut self, class: &'static str, n: usize, liberal: bool) -> usize {
        let i = self.sites.len();
        self.sites.push(Site { class, n, liberal });
        let v = self.script.get(i).copied().unwrap_or(0);
        if v >= n {
            self.error = Some(format!("choice {} at site {} ({}) out of range 0..{}", v, i, class, n));
            return 0;
        }
        v
    }
    /// After rendering: the script must not be longer than the sites met.
    pub fn finish(&mut self) -> Result<(), String> {
        if let Some(e) = self.error.take() {
            return Err(e);
        }
        if self.script.len() > self.sites.len() {
            return Err(format!("choice vector has {} entries but only {} sites were met", self.script.len(), self.sites.len()));
        }
        Ok(())
    }
}

// ---------------------------------------------------------------------------------------------
// renderer

pub fn hex_code(len: u8, code: u32, lower: bool) -> String {
    let s = format!("{:0width$X}", code, width = 2 * len as usize);
    if lower {
        s.to_lowercase()
    } else {
        s
    }
}

pub fn hex_units(t: &[u16], lower: bool, spaced: bool) -> String {
    let v: Vec<String> = t.iter().map(|u| if lower { format!("{:04x}", u) } else { format!("{:04X}", u) }).collect();
    v.join(if spaced { " " } else { "" })
}

struct Style {
    eol: &'static str,
    sep: &'static str,
    lower: bool,
    gap: usize,
    trail: &'static str,
    indent: &'static str,
    unitsp: bool,
    arrpad: bool,
    arrsep: usize,
    lohibreak: bool,
    tgtbreak: bool,
    oneline: bool,
}

/// Rendering options that are not derived from the definitions (degenerate CMaps, DESIGN §4 C15):
/// an explicit code space, one codespace section per range, and empty mapping sections.
#[derive(Clone, Debug, Default, PartialEq, Eq)]
pub struct Extra {
    /// explicit code space ranges (len, lo, hi); empty = derived from the definitions
    pub codespace: Vec<(u8, u32, u32)>,
    /// one `1 begincodespacerange` section per range instead of one section holding all ranges
    pub codespace_split: bool,
    /// `0 beginbfchar endbfchar` / `0 beginbfrange endbfrange` sections: (index of the definition in
    /// front of which the section stands, defs.len() = after the last one; true = bfrange). Liberal:
    /// PostScript allows a section of zero entries, lopdf's grammar may not.
    pub empty_sections: Vec<(usize, bool)>,
}

impl Extra {
    pub fn is_default(&self) -> bool {
        *self == Extra::default()
    }
    pub fn to_json(&self) -> Value {
        json!({
            "codespace": self.codespace.iter().map(|&(l, lo, hi)| json!([hex_code(l, lo, false), hex_code(l, hi, false)])).collect::<Vec<_>>(),
            "codespace_split": self.codespace_split,
            "empty_sections": self.empty_sections.iter().map(|&(p, r)| json!([p, if r { "bfrange" } else { "bfchar" }])).collect::<Vec<_>>(),
        })
    }
    pub fn from_json(v: &Value) -> Result<Extra, String> {
        if v.is_null() {
            return Ok(Extra::default());
        }
        let mut e = Extra { codespace_split: v["codespace_split"].as_bool().unwrap_or(false), ..Extra::default() };
        for r in v["codespace"].as_array().ok_or("extra.codespace")? {
            let (lo, hi) = (r[0].as_str().ok_or("codespace lo")?, r[1].as_str().ok_or("codespace hi")?);
            if lo.len() != hi.len() || lo.len() % 2 != 0 || lo.is_empty() || lo.len() > 8 {
                return Err(format!("bad codespace range {} {}", lo, hi));
            }
            let p = |s: &str| u32::from_str_radix(s, 16).map_err(|e| e.to_string());
            e.codespace.push(((lo.len() / 2) as u8, p(lo)?, p(hi)?));
        }
        for s in v["empty_sections"].as_array().ok_or("extra.empty_sections")? {
            let kind = match s[1].as_str() {
                Some("bfrange") => true,
                Some("bfchar") => false,
                _ => return Err("empty section kind".into()),
            };
            e.empty_sections.push((s[0].as_u64().ok_or("empty section position")? as usize, kind));
        }
        Ok(e)
    }
}

fn codespace_lines(defs: &[Def], extra: &Extra, lower: bool) -> Vec<String> {
    if !extra.codespace.is_empty() {
        return extra.codespace.iter().map(|&(l, lo, hi)| format!("<{}> <{}>", hex_code(l, lo, lower), hex_code(l, hi, lower))).collect();
    }
    if defs.is_empty() {
        return vec![format!("<{}> <{}>", hex_code(2, 0, lower), hex_code(2, 0xFFFF, lower))];
    }
    let mut lens: Vec<u8> = defs.iter().map(|d| d.len()).collect();
    lens.sort();
    lens.dedup();
    let mut out = vec![];
    for l in &lens {
        let (lo, hi) = if lens.len() == 1 {
            (0u32, if *l == 4 { u32::MAX } else { (1u32 << (8 * *l as u32)) - 1 })
        } else {
            // several code lengths: non-overlapping code spaces, each the tight hull of its codes
            let lo = defs.iter().filter(|d| d.len() == *l).map(|d| d.lo()).min().unwrap();
            let hi = defs.iter().filter(|d| d.len() == *l).map(|d| d.hi()).max().unwrap();
            (lo, hi)
        };
        out.push(format!("<{}> <{}>", hex_code(*l, lo, lower), hex_code(*l, hi, lower)));
    }
    out
}

fn mapping_line(d: &Def, s: &Style) -> String {
    let l = d.len();
    let tgt = |t: &Units| format!("<{}>", hex_units(t, s.lower, s.unitsp));
    let before_target = if s.tgtbreak { s.eol } else { s.sep };
    let mut line = String::from(s.indent);
    match d {
        Def::Char { code, t, .. } => {
            line += &format!("<{}>{}{}", hex_code(l, *code, s.lower), before_target, tgt(t));
        }
        Def::Range { lo, hi, .. } | Def::Array { lo, hi, .. } => {
            let between = if s.lohibreak { s.eol } else { s.sep };
            line += &format!("<{}>{}<{}>{}", hex_code(l, *lo, s.lower), between, hex_code(l, *hi, s.lower), before_target);
            match d {
                Def::Range { t, .. } => line += &tgt(t),
                Def::Array { ts, .. } => {
                    let pad = if s.arrpad { " " } else { "" };
                    let esep = match s.arrsep {
                        1 => s.eol,
                        2 => "",
                        _ if s.sep.is_empty() => " ",
                        _ => s.sep,
                    };
                    line += "[";
                    line += if s.arrsep == 1 { s.eol } else { pad };
                    line += &ts.iter().map(|t| tgt(t)).collect::<Vec<_>>().join(esep);
                    line += pad;
                    line += "]";
                }
                _ => unreachable!(),
            }
        }
    }
    line += s.trail;
    line
}

/// Render the definitions as the text of a ToUnicode CMap stream. Every syntactic freedom is one
/// `choose` call; with an all-zero chooser the ISO 32000-1 9.10.3 template comes out, one section per
/// definition in order. Section order is never changed (it is semantic).
pub fn render(defs: &[Def], ch: &mut Chooser) -> Vec<u8> {
    render_ex(defs, &Extra::default(), ch)
}

/// `render` with the options of `extra` (which never add or remove choice sites of a given case).
pub fn render_ex(defs: &[Def], extra: &Extra, ch: &mut Chooser) -> Vec<u8> {
    let multi_unit = defs.iter().any(|d| match d {
        Def::Char { t, .. } | Def::Range { t, .. } => t.len() > 1,
        Def::Array { ts, .. } => ts.iter().any(|t| t.len() > 1),
    });
    let any_array = defs.iter().any(|d| matches!(d, Def::Array { .. }));
    let any_array2 = defs.iter().any(|d| matches!(d, Def::Array { ts, .. } if ts.len() > 1));
    let any_range = defs.iter().any(|d| d.in_range_section());

    let header = ch.choose("header", 4, false);
    let eol = ["\n", "\r\n", "\r"][ch.choose("eol", 3, false)];
    let sep = [" ", "  ", "\t", ""][ch.choose("sep", 4, false)];
    let lower = ch.choose("hexcase", 2, false) == 1;
    let gap = ch.choose("gap", 4, false);
    let trail = ["", " "][ch.choose("trail", 2, false)];
    let indent = ["", "  ", "\t"][ch.choose("indent", 3, false)];
    let unitsp = multi_unit && ch.choose("unitsp", 2, false) == 1;
    let arrpad = any_array && ch.choose("arrpad", 2, false) == 1;
    let arrsep = if any_array2 { ch.choose("L:arrsep", 3, true) } else { 0 };
    let lohibreak = any_range && ch.choose("L:lohibreak", 2, true) == 1;
    let tgtbreak = ch.choose("L:tgtbreak", 2, true) == 1;
    let oneline = ch.choose("L:oneline", 2, true) == 1;
    let s = Style { eol, sep, lower, gap, trail, indent, unitsp, arrpad, arrsep, lohibreak, tgtbreak, oneline };

    // sections: runs of consecutive same-kind definitions may be merged (one choice per boundary)
    let mut sections: Vec<Vec<&Def>> = vec![];
    let mut section_start: Vec<usize> = vec![];
    for (i, d) in defs.iter().enumerate() {
        let mergeable = i > 0 && defs[i - 1].in_range_section() == d.in_range_section() && !extra.empty_sections.iter().any(|&(p, _)| p == i);
        if mergeable && ch.choose("merge", 2, false) == 1 {
            sections.last_mut().unwrap().push(d);
        } else {
            sections.push(vec![d]);
            section_start.push(i);
        }
    }

    let mut out = String::new();
    let mut line = |out: &mut String, l: &str| {
        out.push_str(l);
        out.push_str(s.eol);
    };
    match header {
        0 => {
            for l in [
                "/CIDInit /ProcSet findresource begin",
                "12 dict begin",
                "begincmap",
                "/CIDSystemInfo",
                "<< /Registry (Adobe)",
                "/Ordering (UCS)",
                "/Supplement 0",
                ">> def",
                "/CMapName /Adobe-Identity-UCS def",
                "/CMapType 2 def",
            ] {
                line(&mut out, l);
            }
        }
        1 => {
            for l in [
                "/CIDInit/ProcSet findresource begin",
                "12 dict begin",
                "begincmap",
                "/CIDSystemInfo<<",
                "/Registry (Adobe)",
                "/Ordering (UCS)",
                "/Supplement 0",
                ">> def",
                "/CMapName/Adobe-Identity-UCS def",
                "/CMapType 2 def",
            ] {
                line(&mut out, l);
            }
        }
        2 => {
            for l in ["/CIDInit /ProcSet findresource begin", "12 dict begin", "begincmap", "/CMapType 2 def", "/CMapName/R27 def"] {
                line(&mut out, l);
            }
        }
        _ => {
            for l in [
                "%!PS-Adobe-3.0 Resource-CMap",
                "%%DocumentNeededResources: ProcSet (CIDInit)",
                "%%IncludeResource: ProcSet (CIDInit)",
                "%%BeginResource: CMap (Verif-UCMap)",
                "%%Title: (Verif-UCMap verif Verif-UCMap 0)",
                "%%EndComments",
                "",
                "/CIDInit /ProcSet findresource begin",
                "",
                "12 dict begin",
                "",
                "begincmap",
                "",
                "/CIDSystemInfo 3 dict dup begin",
                "  /Registry (verif) def",
                "  /Ordering (Verif-UCMap) def",
                "  /Supplement 0 def",
                "end def",
                "",
                "/CMapName /Verif-UCMap def",
                "/CMapType 2 def",
                "",
            ] {
                line(&mut out, l);
            }
        }
    }
    let cs = codespace_lines(defs, extra, s.lower);
    if extra.codespace_split {
        for l in &cs {
            line(&mut out, "1 begincodespacerange");
            line(&mut out, l);
            line(&mut out, "endcodespacerange");
        }
    } else {
        line(&mut out, &format!("{} begincodespacerange", cs.len()));
        for l in &cs {
            line(&mut out, l);
        }
        line(&mut out, "endcodespacerange");
    }

    let word_sep = if s.sep.is_empty() { " " } else { s.sep };
    let empty_section = |out: &mut String, is_range: bool| {
        let kind = if is_range { "bfrange" } else { "bfchar" };
        out.push_str(&format!("0{}begin{}{}{}end{}{}", word_sep, kind, s.trail, if s.oneline { " " } else { s.eol }, kind, s.eol));
    };
    for (si, sec) in sections.iter().enumerate() {
        for &(p, r) in &extra.empty_sections {
            if p == section_start[si] {
                empty_section(&mut out, r);
            }
        }
        match s.gap {
            1 => line(&mut out, ""),
            2 => line(&mut out, "% next section"),
            3 => {
                line(&mut out, "");
                line(&mut out, "%%comment <0010> <0041> endbfchar");
                line(&mut out, "");
            }
            _ => {}
        }
        let kind = if sec[0].in_range_section() { "bfrange" } else { "bfchar" };
        let inner_eol = if s.oneline { " " } else { s.eol };
        out.push_str(&format!("{}{}begin{}{}{}", sec.len(), word_sep, kind, s.trail, inner_eol));
        for d in sec {
            out.push_str(&mapping_line(d, &s));
            out.push_str(inner_eol);
        }
        out.push_str(&format!("end{}", kind));
        out.push_str(s.eol);
    }
    for &(p, r) in &extra.empty_sections {
        if p >= defs.len() {
            empty_section(&mut out, r);
        }
    }
    line(&mut out, "endcmap");
    line(&mut out, "CMapName currentdict /CMap defineresource pop");
    match header {
        2 => line(&mut out, "end end"),
        3 => {
            for l in ["end", "end", "", "%%EndResource", "%%EOF"] {
                line(&mut out, l);
            }
        }
        _ => {
            line(&mut out, "end");
            line(&mut out, "end");
        }
    }
    out.into_bytes()
}

#[cfg(test)]
mod tests {
    use super::*;

    #[test]
    fn reference_semantics() {
        let defs = vec![
            Def::Range { len: 2, lo: 0x10, hi: 0x17, t: T_EMO.to_vec() },
            Def::Char { len: 2, code: 0x11, t: T_A.to_vec() },
        ];
        assert_eq!(lookup(&defs, 2, 0x12), Some(vec![0xD83D, 0xDE02]));
        assert_eq!(lookup(&defs, 2, 0x11), Some(vec![0x41]));
        assert_eq!(lookup(&defs, 1, 0x11), None);
        assert_eq!(expected_text(&defs, &[(2, 0x12), (2, 0x11)]).unwrap(), "\u{1F602}A");
        assert_eq!(utf16_to_string(&[0xD83D, 0x41]), "\u{FFFD}A");
        // last-unit arithmetic: modulo 2^16, never into the unit before
        let r = Def::Range { len: 2, lo: 0x10, hi: 0x17, t: vec![0xD83D, 0xDFFC] };
        assert!(!r.well_formed() && r.well_formed_lenient() && r.carries_low_byte() && !r.wraps_at(0x17));
        assert_eq!(r.value(0x14), vec![0xD83D, 0xE000]);
        assert_eq!(utf16_to_string(&r.value(0x14)), "\u{FFFD}\u{E000}");
        let w = Def::Range { len: 4, lo: 0, hi: u32::MAX, t: vec![0x0041, 0xFFFE] };
        assert_eq!(w.value(2), vec![0x0041, 0x0000]);
        assert_eq!(w.value(u32::MAX), vec![0x0041, 0xFFFD]);
        assert!(w.wraps_at(2) && !w.wraps_at(1));
        let p = fixed_pattern(&[r.clone()], &[(2, 0x13), (2, 0x14)]).unwrap();
        assert_eq!(p, vec![Tok::Ch('\u{1F7FF}'), Tok::Any, Tok::Ch('\u{E000}')]);
        assert!(pattern_matches(&p, "\u{1F7FF}\u{FFFD}\u{E000}") && pattern_matches(&p, "\u{1F7FF}\u{E000}") && pattern_matches(&p, "\u{1F7FF}xy\u{E000}"));
        assert!(!pattern_matches(&p, "\u{1F7FF}\u{1F800}") && !pattern_matches(&p, "\u{1F7FF}\u{FFFD}") && !pattern_matches(&p, "\u{FFFD}\u{E000}"));
        assert!(pattern_matches(&[], "") && !pattern_matches(&[], "a") && pattern_matches(&[Tok::Any], "") && pattern_matches(&[Tok::Any, Tok::Any], "abc"));
        assert!(has_unpaired(&[0xDC00, 0xD800]) && !has_unpaired(&[0xD800, 0xDC00, 0x41]));
    }

    #[test]
    fn overlap_menu_extra_and_segment() {
        let all = [Form::Id, Form::IdRange1, Form::Sh, Form::IdArr, Form::Lig, Form::Mix];
        let m = overlap_menu(2, 0x0041, 5, &all, 0x0041, 0x0061);
        assert_eq!(m.len(), 80);
        assert!(m.iter().all(|d| d.well_formed()));
        // every Id / IdArr entry gives a code the same value
        for d in overlap_menu(2, 0x0041, 5, &[Form::Id, Form::IdRange1, Form::IdArr], 0x0041, 0x0061) {
            for c in d.lo()..=d.hi() {
                assert_eq!(d.value(c), vec![c as u16]);
            }
        }
        assert_eq!(profile_arrays(0x0041).len(), 3 * (9 + 27 + 81));
        assert_eq!(profile_arrays(0x0041)[2], vec![vec![0x0042], vec![0x0041]]);
        let e = Extra { codespace: vec![(1, 0x80, 0xFF), (4, 0, u32::MAX)], codespace_split: true, empty_sections: vec![(0, true), (2, false)] };
        assert_eq!(Extra::from_json(&e.to_json()).unwrap(), e);
        assert!(Extra::from_json(&Value::Null).unwrap().is_default());
        let defs = vec![Def::Char { len: 1, code: 0x41, t: vec![0x41] }, Def::Range { len: 2, lo: 0x0041, hi: 0x0042, t: vec![0x61] }];
        assert_eq!(segment(&defs, &[0x41, 0x00, 0x42]), Some(vec![(1, 0x41), (2, 0x0042)]));
        assert_eq!(segment(&defs, &[0x00, 0x43]), None);
        assert_eq!(segment(&[], &[]), Some(vec![]));
        let mut ch = Chooser::new(&[]);
        let text = String::from_utf8(render_ex(&[], &e, &mut ch)).unwrap();
        assert!(text.contains("1 begincodespacerange\n<80> <FF>\nendcodespacerange\n1 begincodespacerange\n<00000000> <FFFFFFFF>\nendcodespacerange\n0 beginbfrange\nendbfrange\n0 beginbfchar\nendbfchar\nendcmap"), "{}", text);
    }

    #[test]
    fn menu_is_well_formed() {
        let m = menu();
        assert!(m.menu.iter().all(|d| d.well_formed()));
        assert!((160..=190).contains(&m.menu.len()), "menu size {}", m.menu.len());
        for d in &m.menu {
            assert_eq!(&Def::from_json(&d.to_json()).unwrap(), d);
        }
        let codes = mapped_codes(&m.menu);
        assert!(prefix_free(&codes));
    }
}
