//! (module owned by its property check; see HARNESS_GUIDE.md)
