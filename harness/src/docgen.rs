//! Document and object enumerators shared by C01, C03, C19 and the seed generators of C04.
use crate::rt;
use lopdf::{Dictionary, Document, Object, Stream, StringFormat};

pub fn carrier_items(b: &[u8]) -> Vec<Object> {
    let mut out = Vec::with_capacity(9);
    let ctx = |c: Object| -> Object {
        let mut d = Dictionary::new();
        d.set("K", c.clone());
        d.set("L", Object::Array(vec![c.clone()]));
        Object::Array(vec![c.clone(), c, Object::Dictionary(d)])
    };
    for c in [
        Object::Name(b.to_vec()),
        Object::String(b.to_vec(), StringFormat::Literal),
        Object::String(b.to_vec(), StringFormat::Hexadecimal),
    ] {
        out.push(c.clone());
        out.push(ctx(c));
    }
    // dictionary key
    let mut d = Dictionary::new();
    d.set(b.to_vec(), Object::Integer(1));
    let mut k2 = b.to_vec();
    k2.push(b'Z');
    d.set(k2, Object::Name(b"v".to_vec()));
    let mut d2 = Dictionary::new();
    d2.set(b.to_vec(), Object::Null);
    out.push(Object::Array(vec![Object::Dictionary(d2)]));
    out.push(Object::Dictionary(d));
    // stream body (and the same bytes as a key of the stream dictionary)
    let mut sd = Dictionary::new();
    sd.set(b.to_vec(), Object::Boolean(true));
    out.push(Object::Stream(Stream::new(sd, b.to_vec())));
    out
}

pub fn atoms() -> Vec<Object> {
    vec![
        Object::Null,
        Object::Boolean(true),
        Object::Boolean(false),
        Object::Integer(0),
        Object::Integer(-1),
        Object::Integer(i64::MIN),
        Object::Integer(i64::MAX),
        Object::Real(0.5),
        Object::Real(-0.0),
        Object::Real(1e10),
        Object::Real(1e-7),
        Object::Real(f32::MAX),
        Object::Name(vec![]),
        Object::Name(b"R".to_vec()),
        Object::Name(b"true".to_vec()),
        Object::Name(b"obj".to_vec()),
        Object::String(vec![], StringFormat::Literal),
        Object::String(vec![], StringFormat::Hexadecimal),
        Object::String(b"a".to_vec(), StringFormat::Literal),
        Object::Array(vec![]),
        Object::Dictionary(Dictionary::new()),
        Object::Reference((1, 0)),
        Object::Reference((u32::MAX, 65535)),
        Object::Real(-12345.678),
    ]
}

pub fn adjacency_items(reduced: bool) -> Vec<Object> {
    let a = atoms();
    let n = a.len();
    let mut items: Vec<Object> = vec![Object::Array(vec![])];
    for x in &a {
        items.push(x.clone());
        items.push(Object::Array(vec![x.clone()]));
        // as a stream dictionary value
        let mut d = Dictionary::new();
        d.set("V", x.clone());
        items.push(Object::Stream(Stream::new(d, b"abc".to_vec())));
    }
    for x in &a {
        for y in &a {
            items.push(Object::Array(vec![x.clone(), y.clone()]));
        }
    }
    if !reduced {
        for x in &a {
            for y in &a {
                for z in &a {
                    items.push(Object::Array(vec![x.clone(), y.clone(), z.clone()]));
                }
            }
        }
    }
    // dictionaries with <= 2 entries: key menu x value menu
    let keys: [&[u8]; 5] = [b"A", b"", b"Length", b"K#", b"true"];
    for k in keys {
        for v in &a {
            let mut d = Dictionary::new();
            d.set(k.to_vec(), v.clone());
            items.push(Object::Dictionary(d));
        }
    }
    let vstep = if reduced { 3 } else { 1 };
    for (ki, k1) in keys.iter().enumerate() {
        for k2 in keys.iter().skip(ki + 1) {
            for v1 in a.iter().step_by(vstep) {
                for v2 in &a {
                    let mut d = Dictionary::new();
                    d.set(k1.to_vec(), v1.clone());
                    d.set(k2.to_vec(), v2.clone());
                    items.push(Object::Dictionary(d));
                }
            }
        }
    }
    items
}

pub fn leaves() -> Vec<Object> {
    vec![
        Object::Null,
        Object::Boolean(true),
        Object::Integer(-7),
        Object::Real(2.5),
        Object::Name(b"N m".to_vec()),
        Object::String(b"(s\\".to_vec(), StringFormat::Literal),
        Object::String(b"\x00\xff".to_vec(), StringFormat::Hexadecimal),
        Object::Reference((3, 1)),
        Object::Array(vec![]),
        Object::Dictionary(Dictionary::new()),
    ]
}

pub fn compositions(n: usize) -> Vec<Vec<usize>> {
    if n == 0 {
        return vec![vec![]];
    }
    let mut out = vec![];
    for first in 1..=n {
        for mut rest in compositions(n - first) {
            let mut v = vec![first];
            v.append(&mut rest);
            out.push(v);
        }
    }
    out
}

pub fn gen_trees(nodes: usize, depth: usize) -> Vec<Object> {
    if nodes == 1 {
        return leaves();
    }
    if depth <= 1 {
        return vec![];
    }
    let mut out = vec![];
    for comp in compositions(nodes - 1) {
        let mut lists: Vec<Vec<Object>> = vec![vec![]];
        for part in &comp {
            let subs = gen_trees(*part, depth - 1);
            let mut next = Vec::with_capacity(lists.len() * subs.len());
            for l in &lists {
                for s in &subs {
                    let mut l2 = l.clone();
                    l2.push(s.clone());
                    next.push(l2);
                }
            }
            lists = next;
        }
        for children in lists {
            out.push(Object::Array(children.clone()));
            let mut d = Dictionary::new();
            for (i, c) in children.into_iter().enumerate() {
                d.set(format!("K{}", i).into_bytes(), c);
            }
            out.push(Object::Dictionary(d));
        }
    }
    out
}

pub fn tree_items() -> Vec<Object> {
    let mut items = vec![];
    for n in 1..=4 {
        items.extend(gen_trees(n, 3));
    }
    // the same trees as stream dictionaries (streams only at top level)
    let mut streams = vec![];
    for t in &items {
        if let Object::Dictionary(d) = t {
            streams.push(Object::Stream(Stream::new(d.clone(), b"q\nQ".to_vec())));
        }
    }
    items.extend(streams);
    items
}

pub fn family_items() -> Vec<Object> {
    let mut items = vec![];
    for n in [1usize, 2, 99, 100, 101, 102, 1000] {
        let mut s = vec![b'('; n];
        s.push(b'x');
        s.extend(vec![b')'; n]);
        items.push(Object::String(s.clone(), StringFormat::Literal));
        // unbalanced prefixes/suffixes are escaped by the writer
        items.push(Object::String(vec![b'('; n], StringFormat::Literal));
        items.push(Object::String(vec![b')'; n], StringFormat::Literal));
        let mut t = vec![b')'; n];
        t.extend(vec![b'('; n]);
        items.push(Object::String(t, StringFormat::Literal));
    }
    for body in [
        &b""[..], b"\r", b"\n", b"\r\n", b"x\r", b"x\n", b"x\r\n", b"\nendstream", b"endstream", b"endstream\nendobj\n",
        b"a\nendstream\nendobj\n2 0 obj\nnull\nendobj", b"stream\r\nX", b"%PDF-1.4\n%%EOF", b"\x00\xff\x00",
    ] {
        items.push(Object::Stream(Stream::new(Dictionary::new(), body.to_vec())));
    }
    // long strings / names
    for n in [255usize, 256, 1000, 65536] {
        items.push(Object::String(vec![b'\\'; n], StringFormat::Literal));
        items.push(Object::Name(vec![b'#'; n.min(1000)]));
        items.push(Object::String((0..n).map(|i| (i % 256) as u8).collect(), StringFormat::Literal));
        items.push(Object::String((0..n).map(|i| (i % 256) as u8).collect(), StringFormat::Hexadecimal));
        items.push(Object::Stream(Stream::new(Dictionary::new(), (0..n).map(|i| (i * 7 % 256) as u8).collect())));
    }
    items
}

pub fn subsets_upto(n: u32, k: usize) -> Vec<Vec<u32>> {
    let mut out = vec![];
    for mask in 0u32..(1 << n) {
        if mask.count_ones() as usize <= k && mask != 0 {
            out.push((0..n).filter(|i| mask & (1 << i) != 0).map(|i| i + 1).collect());
        }
    }
    out
}

pub fn file_level_docs() -> Vec<(Document, String)> {
    let mut docs: Vec<(Document, String)> = vec![];
    let mut sets = subsets_upto(6, 4);
    sets.push(vec![1, 70000, 3_000_000]);
    sets.push(vec![65535, 65536, 65537]);
    sets.push(vec![255, 256, 16777216 / 8]);
    for s in &sets {
        for gp in 0..4 {
            for extra in [0u32, 3] {
                let mut doc = Document::with_version("1.7");
                for (i, id) in s.iter().enumerate() {
                    let g: u16 = match gp {
                        0 => 0,
                        1 => 1,
                        2 => 65535,
                        _ => [0u16, 1, 65535][i % 3],
                    };
                    let mut d = Dictionary::new();
                    d.set("Tag", Object::Integer(*id as i64));
                    d.set("Next", Object::Reference((s[(i + 1) % s.len()], g)));
                    if i % 2 == 1 {
                        doc.objects.insert((*id, g), Object::Stream(Stream::new(d, format!("body{}", id).into_bytes())));
                    } else {
                        doc.objects.insert((*id, g), Object::Dictionary(d));
                    }
                }
                doc.max_id = s.iter().max().unwrap() + extra;
                doc.trailer.set("Root", Object::Reference((s[0], 0)));
                docs.push((doc, format!("ids={:?} gens={} max_id+{}", s, gp, extra)));
            }
        }
    }
    // versions x binary marks
    let versions = ["1.4", "2.0", "", "1.7 extra words", "1.\u{e9}\u{4e2d}", "1.5%x", " 1.3", "1.4 ", "1.4\t", "1.4  ", "1.4\u{a0}", "1.4\u{0}", "1.4\u{c}", "\t1.4\t", "1.4 x ", "1.4%", "1.4()<>[]{}/"];
    let marks: [&[u8]; 5] = [&[0xBB, 0xAD, 0xC0, 0xDE], &[], &[0x80], &[0xff; 8], &[0xe2, 0xe3, 0xcf, 0xd3]];
    for v in versions {
        for m in marks {
            let mut doc = Document::with_version(v);
            doc.binary_mark = m.to_vec();
            doc.objects.insert((1, 0), Object::Integer(1));
            doc.max_id = 1;
            docs.push((doc, format!("version={:?} mark={:?}", v, m)));
        }
    }
    // trailers: Root/Info/ID and arbitrary extra keys with values of every kind
    for (i, v) in atoms().into_iter().enumerate() {
        let mut doc = Document::with_version("1.6");
        doc.objects.insert((1, 0), Object::Dictionary(rt::dict(vec![(b"Type", Object::Name(b"Catalog".to_vec()))])));
        doc.objects.insert((2, 0), Object::Dictionary(rt::dict(vec![(b"Title", Object::string_literal("t"))])));
        doc.max_id = 2;
        doc.trailer.set("Root", Object::Reference((1, 0)));
        doc.trailer.set("Info", Object::Reference((2, 0)));
        doc.trailer.set(
            "ID",
            Object::Array(vec![
                Object::String(vec![0x00, 0x28, 0x29, 0x5c, 0xff], StringFormat::Hexadecimal),
                Object::String(b")(\\\r\n".to_vec(), StringFormat::Literal),
            ]),
        );
        doc.trailer.set(format!("X{}", i).into_bytes(), v.clone());
        doc.trailer.set(b"K #(".to_vec(), Object::Array(vec![v]));
        docs.push((doc, format!("trailer extra atom {}", i)));
    }
    // the last object of the file holds text that looks like the end of a PDF file
    for (i, tail) in [
        &b"%%EOF"[..], b"startxref\n0\n%%EOF", b"startxref\n12345\n%%EOF\n", b"x\nstartxref\n7\n%%EOF\nstartxref\n9\n%%EOF", b"trailer\n<</Size 1>>\nstartxref\n0\n%%EOF",
        b"%PDF-1.4\n1 0 obj\nnull\nendobj\nxref\n0 2\n0000000000 65535 f \n0000000009 00000 n \ntrailer\n<</Size 2>>\nstartxref\n28\n%%EOF", b"startxref", b"%%EOF%%EOF%%EOF",
    ]
    .iter()
    .enumerate()
    {
        for as_stream in [true, false] {
            for pad in [0usize, 480, 600] {
                let mut doc = Document::with_version("1.5");
                doc.objects.insert((1, 0), Object::Dictionary(rt::dict(vec![(b"Type", Object::Name(b"Catalog".to_vec()))])));
                let mut body = vec![b'p'; pad];
                body.extend_from_slice(tail);
                if as_stream {
                    doc.objects.insert((2, 0), Object::Stream(Stream::new(Dictionary::new(), body)));
                } else {
                    doc.objects.insert((2, 0), Object::String(body, StringFormat::Literal));
                }
                doc.max_id = 2;
                doc.trailer.set("Root", Object::Reference((1, 0)));
                docs.push((doc, format!("eof-like tail #{} stream={} pad={}", i, as_stream, pad)));
            }
        }
    }
    // files that cross the 64 KiB boundary inside their last object: the cross-reference data holds
    // one offset (its own) that needs one more byte than every other
    for delta in [0usize, 1, 2, 40, 200] {
        for big_last in [true, false] {
            docs.push((boundary_doc(16, delta, big_last), format!("64KiB boundary delta={} big_last={}", delta, big_last)));
        }
    }
    // empty document, and a document with only max_id
    docs.push((Document::with_version("1.4"), "empty".into()));
    let mut d = Document::with_version("1.4");
    d.max_id = 9;
    docs.push((d, "no objects, max_id 9".into()));
    docs
}

/// A three-object document whose saved file crosses the 2^log2 byte boundary inside (big_last) or
/// just before (!big_last) its last object.
pub fn boundary_doc(log2: u32, delta: usize, big_last: bool) -> Document {
    let mut doc = Document::with_version("1.5");
    doc.objects.insert((1, 0), Object::Dictionary(rt::dict(vec![(b"Type", Object::Name(b"Catalog".to_vec()))])));
    let filler = (1usize << log2) - 150 - delta;
    if big_last {
        doc.objects.insert((2, 0), Object::Integer(2));
        doc.objects.insert((3, 0), Object::Stream(Stream::new(Dictionary::new(), vec![b'z'; filler])));
    } else {
        doc.objects.insert((2, 0), Object::Stream(Stream::new(Dictionary::new(), vec![b'z'; filler])));
        doc.objects.insert((3, 0), Object::String(vec![b's'; 100 + delta], StringFormat::Literal));
    }
    doc.max_id = 3;
    doc.trailer.set("Root", Object::Reference((1, 0)));
    doc
}

pub fn start_docs() -> Vec<Document> {
    let mut out = vec![];
    let a = atoms();
    let t = gen_trees(3, 3);
    for k in 0..12usize {
        let mut doc = Document::with_version(["1.4", "1.7", "2.0"][k % 3]);
        let mut id = 1u32;
        for (j, x) in a.iter().enumerate() {
            if (j + k) % 3 == 0 {
                doc.objects.insert((id, (k % 2) as u16), x.clone());
                id += 1 + (k as u32 % 3);
            }
        }
        for j in 0..6 {
            let tr = &t[(k * 37 + j * 11) % t.len()];
            doc.objects.insert((id, 0), tr.clone());
            id += 1;
            if let Object::Dictionary(d) = tr {
                doc.objects.insert((id, 0), Object::Stream(Stream::new(d.clone(), vec![k as u8, b'\r', b'\n', 0xff, j as u8])));
                id += 2;
            }
        }
        doc.max_id = id + (k as u32 % 2) * 5;
        doc.trailer.set("Root", Object::Reference((1, 0)));
        if k % 2 == 0 {
            doc.trailer.set("Info", Object::Reference((2, 0)));
            doc.trailer.set("ID", Object::Array(vec![Object::string_literal("(a)"), Object::string_literal("b\\")]));
        }
        out.push(doc);
    }
    out
}

