//! Lossless JSON form of lopdf objects and documents, used in replay files and samples.
use lopdf::xref::XrefType;
use lopdf::{Dictionary, Document, Object, Stream, StringFormat};
use serde_json::{json, Value};

pub fn hex(b: &[u8]) -> String {
    let mut s = String::with_capacity(b.len() * 2);
    for x in b {
        s.push_str(&format!("{:02x}", x));
    }
    s
}

pub fn unhex(s: &str) -> Vec<u8> {
    let b = s.as_bytes();
    (0..b.len() / 2)
        .map(|i| u8::from_str_radix(std::str::from_utf8(&b[2 * i..2 * i + 2]).unwrap(), 16).unwrap())
        .collect()
}

pub fn obj_to_json(o: &Object) -> Value {
    match o {
        Object::Null => Value::Null,
        Object::Boolean(b) => json!(b),
        Object::Integer(i) => json!({"i": i}),
        Object::Real(r) => json!({"r": r.to_bits(), "v": format!("{}", r)}),
        Object::Name(n) => json!({"n": hex(n), "t": String::from_utf8_lossy(n)}),
        Object::String(s, f) => json!({"s": hex(s), "f": if *f == StringFormat::Literal {"L"} else {"H"}}),
        Object::Array(a) => Value::Array(a.iter().map(obj_to_json).collect()),
        Object::Dictionary(d) => json!({"d": dict_to_json(d)}),
        Object::Stream(s) => json!({"st": {"d": dict_to_json(&s.dict), "c": hex(&s.content)}}),
        Object::Reference(id) => json!({"ref": [id.0, id.1]}),
    }
}

pub fn dict_to_json(d: &Dictionary) -> Value {
    Value::Array(d.iter().map(|(k, v)| json!([hex(k), obj_to_json(v)])).collect())
}

pub fn obj_from_json(v: &Value) -> Object {
    match v {
        Value::Null => Object::Null,
        Value::Bool(b) => Object::Boolean(*b),
        Value::Array(a) => Object::Array(a.iter().map(obj_from_json).collect()),
        Value::Object(m) => {
            if let Some(i) = m.get("i") {
                Object::Integer(i.as_i64().unwrap())
            } else if let Some(r) = m.get("r") {
                Object::Real(f32::from_bits(r.as_u64().unwrap() as u32))
            } else if let Some(n) = m.get("n") {
                Object::Name(unhex(n.as_str().unwrap()))
            } else if let Some(s) = m.get("s") {
                let f = if m.get("f").and_then(|f| f.as_str()) == Some("H") {
                    StringFormat::Hexadecimal
                } else {
                    StringFormat::Literal
                };
                Object::String(unhex(s.as_str().unwrap()), f)
            } else if let Some(d) = m.get("d") {
                Object::Dictionary(dict_from_json(d))
            } else if let Some(st) = m.get("st") {
                let dict = dict_from_json(&st["d"]);
                Object::Stream(Stream {
                    dict,
                    content: unhex(st["c"].as_str().unwrap()),
                    allows_compression: true,
                    start_position: None,
                })
            } else if let Some(r) = m.get("ref") {
                Object::Reference((r[0].as_u64().unwrap() as u32, r[1].as_u64().unwrap() as u16))
            } else {
                panic!("bad object json {:?}", v)
            }
        }
        _ => panic!("bad object json {:?}", v),
    }
}

pub fn dict_from_json(v: &Value) -> Dictionary {
    let mut d = Dictionary::new();
    for kv in v.as_array().unwrap() {
        d.set(unhex(kv[0].as_str().unwrap()), obj_from_json(&kv[1]));
    }
    d
}

pub fn doc_to_json(doc: &Document) -> Value {
    let objects: Vec<Value> = doc
        .objects
        .iter()
        .map(|(id, o)| json!([id.0, id.1, obj_to_json(o)]))
        .collect();
    json!({
        "version": doc.version,
        "binary_mark": hex(&doc.binary_mark),
        "xref": match doc.reference_table.cross_reference_type { XrefType::CrossReferenceTable => "table", XrefType::CrossReferenceStream => "stream" },
        "max_id": doc.max_id,
        "objects": objects,
        "trailer": dict_to_json(&doc.trailer),
    })
}

pub fn doc_from_json(v: &Value) -> Document {
    let mut doc = Document::new();
    doc.version = v["version"].as_str().unwrap().to_string();
    doc.binary_mark = unhex(v["binary_mark"].as_str().unwrap());
    doc.reference_table.cross_reference_type = if v["xref"].as_str() == Some("table") {
        XrefType::CrossReferenceTable
    } else {
        XrefType::CrossReferenceStream
    };
    doc.max_id = v["max_id"].as_u64().unwrap() as u32;
    for o in v["objects"].as_array().unwrap() {
        doc.objects.insert(
            (o[0].as_u64().unwrap() as u32, o[1].as_u64().unwrap() as u16),
            obj_from_json(&o[2]),
        );
    }
    doc.trailer = dict_from_json(&v["trailer"]);
    doc
}

/// Short human-readable rendering (for `observed` / `expected` strings).
pub fn show(o: &Object) -> String {
    match o {
        Object::Null => "null".into(),
        Object::Boolean(b) => format!("{}", b),
        Object::Integer(i) => format!("{}", i),
        Object::Real(r) => format!("Real({:?})", r),
        Object::Name(n) => format!("/{}", esc(n)),
        Object::String(s, StringFormat::Literal) => format!("({})", esc(s)),
        Object::String(s, StringFormat::Hexadecimal) => format!("<{}>", hex(s)),
        Object::Array(a) => format!("[{}]", a.iter().map(show).collect::<Vec<_>>().join(" ")),
        Object::Dictionary(d) => show_dict(d),
        Object::Stream(s) => format!("{}stream[{}]{{{}}}", show_dict(&s.dict), s.content.len(), esc(&s.content[..s.content.len().min(48)])),
        Object::Reference(id) => format!("{} {} R", id.0, id.1),
    }
}

pub fn show_dict(d: &Dictionary) -> String {
    format!(
        "<<{}>>",
        d.iter().map(|(k, v)| format!("/{} {}", esc(k), show(v))).collect::<Vec<_>>().join(" ")
    )
}

pub fn esc(b: &[u8]) -> String {
    let mut s = String::new();
    for &c in b {
        if (0x20..0x7f).contains(&c) && c != b'\\' {
            s.push(c as char);
        } else {
            s.push_str(&format!("\\x{:02x}", c));
        }
    }
    s
}
