//! Reference filter ENCODERS for C09, written from the definitions (PNG 1.2 §6 filter types,
//! Adobe ASCII base-85 as in ISO 32000-1 §7.4.3, LZW as in ISO 32000-1 §7.4.4 / TIFF 6.0 §13,
//! RFC 1950/1951 stored blocks). They never call lopdf. The tiny decoders at the end exist only
//! so that the encoders can be self-tested (`self_test`) before any verdict relies on them.

// ---------------------------------------------------------------------------------------------
// PNG row filters (PNG spec: Filt(x) = Orig(x) - Predictor(Orig(a), Orig(b), Orig(c)) mod 256,
// a = byte of the pixel to the left, b = byte above, c = byte above-left; bytes outside the
// image are 0; the first row's "above" row is all zero).

pub const PNG_NONE: u8 = 0;
pub const PNG_SUB: u8 = 1;
pub const PNG_UP: u8 = 2;
pub const PNG_AVG: u8 = 3;
pub const PNG_PAETH: u8 = 4;

/// PaethPredictor of the PNG specification, literally.
pub fn paeth(a: u8, b: u8, c: u8) -> u8 {
    let p = a as i32 + b as i32 - c as i32;
    let pa = (p - a as i32).abs();
    let pb = (p - b as i32).abs();
    let pc = (p - c as i32).abs();
    if pa <= pb && pa <= pc {
        a
    } else if pb <= pc {
        b
    } else {
        c
    }
}

/// The predictor value for one byte (filter type 0..4).
pub fn png_predict(ft: u8, a: u8, b: u8, c: u8) -> u8 {
    match ft {
        PNG_NONE => 0,
        PNG_SUB => a,
        PNG_UP => b,
        PNG_AVG => ((a as u32 + b as u32) / 2) as u8,
        PNG_PAETH => paeth(a, b, c),
        _ => panic!("refcodec: PNG filter type {} does not exist", ft),
    }
}

/// Filter one row of original bytes `cur` given the original bytes of the row above; appends the
/// filter-type byte and the filtered bytes to `out`.
pub fn png_encode_row(ft: u8, bpp: usize, prev: &[u8], cur: &[u8], out: &mut Vec<u8>) {
    out.push(ft);
    for i in 0..cur.len() {
        let a = if i >= bpp { cur[i - bpp] } else { 0 };
        let b = prev[i];
        let c = if i >= bpp { prev[i - bpp] } else { 0 };
        out.push(cur[i].wrapping_sub(png_predict(ft, a, b, c)));
    }
}

/// Encode `data` (rows of `row_bytes` bytes) with the given filter type per row.
pub fn png_encode_frame(data: &[u8], row_bytes: usize, bpp: usize, row_filters: &[u8]) -> Vec<u8> {
    assert!(row_bytes > 0 && data.len() == row_bytes * row_filters.len(), "refcodec: frame geometry");
    let mut out = Vec::with_capacity(data.len() + row_filters.len());
    let zero = vec![0u8; row_bytes];
    for (r, ft) in row_filters.iter().enumerate() {
        let cur = &data[r * row_bytes..(r + 1) * row_bytes];
        let prev = if r == 0 { &zero[..] } else { &data[(r - 1) * row_bytes..r * row_bytes] };
        png_encode_row(*ft, bpp, prev, cur, &mut out);
    }
    out
}

/// Reference decoder (self-test only).
pub fn png_decode_frame(enc: &[u8], row_bytes: usize, bpp: usize) -> Result<Vec<u8>, String> {
    if enc.len() % (row_bytes + 1) != 0 {
        return Err("truncated row".into());
    }
    let rows = enc.len() / (row_bytes + 1);
    let mut out: Vec<u8> = Vec::with_capacity(rows * row_bytes);
    for r in 0..rows {
        let ft = enc[r * (row_bytes + 1)];
        if ft > 4 {
            return Err("bad filter type".into());
        }
        let f = &enc[r * (row_bytes + 1) + 1..(r + 1) * (row_bytes + 1)];
        for i in 0..row_bytes {
            let a = if i >= bpp { out[r * row_bytes + i - bpp] } else { 0 };
            let b = if r > 0 { out[(r - 1) * row_bytes + i] } else { 0 };
            let c = if r > 0 && i >= bpp { out[(r - 1) * row_bytes + i - bpp] } else { 0 };
            out.push(f[i].wrapping_add(png_predict(ft, a, b, c)));
        }
    }
    Ok(out)
}

/// Bytes per complete pixel, rounded up to 1 (PNG) for `colors` components of `bpc` bits.
pub fn png_bpp(colors: usize, bpc: usize) -> usize {
    (colors * bpc).div_ceil(8).max(1)
}

/// Bytes per row.
pub fn png_row_bytes(colors: usize, bpc: usize, columns: usize) -> usize {
    (colors * bpc * columns).div_ceil(8)
}

// ---------------------------------------------------------------------------------------------
// ASCII base-85 (Adobe): 4 bytes b1..b4 -> value b1*256^3+..+b4 -> 5 digits base 85, most
// significant first, each + '!'. An all-zero full group is written `z`. A final partial group of
// n bytes (1..3) is padded with zero bytes, converted WITHOUT the z special case, and only the
// first n+1 characters are written. The data ends with `~>`.

/// Append the encoding of one full group.
#[inline]
pub fn a85_group(v: u32, use_z: bool, out: &mut Vec<u8>) {
    if v == 0 && use_z {
        out.push(b'z');
        return;
    }
    let mut d = [0u8; 5];
    let mut x = v;
    for k in (0..5).rev() {
        d[k] = (x % 85) as u8 + b'!';
        x /= 85;
    }
    out.extend_from_slice(&d);
}

/// Body without the EOD marker.
pub fn a85_encode_body(data: &[u8], use_z: bool) -> Vec<u8> {
    let mut out = Vec::with_capacity(data.len() / 4 * 5 + 8);
    let mut it = data.chunks_exact(4);
    for g in &mut it {
        a85_group(u32::from_be_bytes([g[0], g[1], g[2], g[3]]), use_z, &mut out);
    }
    let rest = it.remainder();
    if !rest.is_empty() {
        let mut g = [0u8; 4];
        g[..rest.len()].copy_from_slice(rest);
        let mut tmp = Vec::with_capacity(5);
        a85_group(u32::from_be_bytes(g), false, &mut tmp);
        out.extend_from_slice(&tmp[..rest.len() + 1]);
    }
    out
}

pub fn a85_encode(data: &[u8]) -> Vec<u8> {
    let mut out = a85_encode_body(data, true);
    out.extend_from_slice(b"~>");
    out
}

/// Reference decoder (self-test only): strict, white-space = the six PDF white-space bytes.
pub fn a85_decode(enc: &[u8]) -> Result<Vec<u8>, String> {
    let mut out = vec![];
    let mut grp: Vec<u8> = vec![];
    let mut i = 0;
    loop {
        if i >= enc.len() {
            return Err("missing EOD".into());
        }
        let c = enc[i];
        i += 1;
        match c {
            0 | 9 | 10 | 12 | 13 | 32 => continue,
            b'~' => {
                if enc.get(i) != Some(&b'>') {
                    return Err("~ without >".into());
                }
                break;
            }
            b'z' => {
                if !grp.is_empty() {
                    return Err("z inside a group".into());
                }
                out.extend_from_slice(&[0, 0, 0, 0]);
            }
            b'!'..=b'u' => {
                grp.push(c - b'!');
                if grp.len() == 5 {
                    let v = grp.iter().fold(0u64, |a, d| a * 85 + *d as u64);
                    if v > u32::MAX as u64 {
                        return Err("group value >= 2^32".into());
                    }
                    out.extend_from_slice(&(v as u32).to_be_bytes());
                    grp.clear();
                }
            }
            _ => return Err(format!("illegal byte {:#x}", c)),
        }
    }
    if grp.len() == 1 {
        return Err("final group of one character".into());
    }
    if !grp.is_empty() {
        let n = grp.len();
        while grp.len() < 5 {
            grp.push(84);
        }
        let v = grp.iter().fold(0u64, |a, d| a * 85 + *d as u64);
        if v > u32::MAX as u64 {
            return Err("final group value >= 2^32".into());
        }
        out.extend_from_slice(&(v as u32).to_be_bytes()[..n - 1]);
    }
    Ok(out)
}

// ---------------------------------------------------------------------------------------------
// LZW (ISO 32000-1 §7.4.4.2, TIFF 6.0 §13): codes 0..255 literal, 256 clear-table, 257 EOD, new
// entries from 258; codes packed MSB first, 9 bits initially; at most 12 bits, entry 4095 is the
// last. With EarlyChange 1 (default) "the first output code that is 10 bits long shall be the
// one following the creation of table entry 511" (1023 -> 11, 2047 -> 12); with EarlyChange 0
// the increase is postponed as long as possible, i.e. it follows the creation of entry 512
// (1024, 2048). Every emitted code counts towards that decision, also the last one before EOD
// or clear-table (TIFF 6.0 p.60), because the decoder adds an entry when it reads it.
// The encoder begins with clear-table and emits clear-table when the table is full:
// EarlyChange 1 after creating entry 4094 (TIFF: "as soon as we use entry 4094"), EarlyChange 0
// after creating entry 4095. `clear_after` may name an earlier entry (a clear-table code is legal
// at any time).

#[derive(Clone, Copy, Debug, PartialEq)]
pub struct LzwOpts {
    pub early_change: bool,
    /// emit clear-table right after creating this entry (None = the default for the mode)
    pub clear_after: Option<u16>,
}

impl LzwOpts {
    pub fn new(early_change: bool) -> Self {
        LzwOpts { early_change, clear_after: None }
    }
    fn clear_entry(&self) -> u16 {
        let max = if self.early_change { 4094 } else { 4095 };
        self.clear_after.map(|c| c.clamp(258, max)).unwrap_or(max)
    }
}

struct BitWriter {
    out: Vec<u8>,
    acc: u32,
    nbits: u32,
}

impl BitWriter {
    fn put(&mut self, code: u16, width: u32) {
        debug_assert!((code as u32) < (1 << width));
        self.acc = (self.acc << width) | code as u32;
        self.nbits += width;
        while self.nbits >= 8 {
            self.out.push((self.acc >> (self.nbits - 8)) as u8);
            self.nbits -= 8;
        }
        self.acc &= (1 << self.nbits) - 1;
    }
    fn finish(mut self) -> Vec<u8> {
        if self.nbits > 0 {
            self.out.push((self.acc << (8 - self.nbits)) as u8);
        }
        self.out
    }
}

/// Statistics of one encoding (used to show that the long inputs reach what they are meant to).
#[derive(Default, Clone, Debug)]
pub struct LzwStats {
    pub codes: u64,
    pub clears: u64,
    pub max_width: u32,
    pub max_entry: u16,
    /// codes emitted that were the most recently created entry (decoder sees code == next free)
    pub newest_entry_codes: u64,
    /// input length at which entry e was created, for the first pass through the table
    pub created_at: Vec<(u16, usize)>,
}

pub fn lzw_encode(data: &[u8], opts: LzwOpts) -> Vec<u8> {
    lzw_encode_stats(data, opts, false).0
}

thread_local! {
    // child[(w << 8) | c] = code of string(w)+c, 0 = none; kept per thread and always left zeroed
    static LZW_CHILD: std::cell::RefCell<Vec<u16>> = const { std::cell::RefCell::new(Vec::new()) };
}

pub fn lzw_encode_stats(data: &[u8], opts: LzwOpts, trace: bool) -> (Vec<u8>, LzwStats) {
    LZW_CHILD.with(|c| {
        let mut child = c.borrow_mut();
        if child.is_empty() {
            child.resize(4096 * 256, 0);
        }
        lzw_encode_inner(data, opts, trace, &mut child)
    })
}

fn lzw_encode_inner(data: &[u8], opts: LzwOpts, trace: bool, child: &mut [u16]) -> (Vec<u8>, LzwStats) {
    let mut st = LzwStats::default();
    let mut bw = BitWriter { out: Vec::with_capacity(data.len() / 2 + 16), acc: 0, nbits: 0 };
    let mut used: Vec<u32> = Vec::with_capacity(4096);
    let mut width: u32 = 9;
    let mut next: u16 = 258;
    let clear_entry = opts.clear_entry();
    let bump = |added: u16, width: &mut u32| {
        let lim: u32 = if opts.early_change { (1u32 << *width) - 1 } else { 1u32 << *width };
        if added as u32 == lim && *width < 12 {
            *width += 1;
        }
    };
    bw.put(256, width);
    st.codes += 1;
    st.max_width = 9;
    if data.is_empty() {
        bw.put(257, width);
        return (bw.finish(), st);
    }
    let mut w: u16 = data[0] as u16;
    let mut first_pass = true;
    for (i, &c) in data.iter().enumerate().skip(1) {
        let key = ((w as u32) << 8) | c as u32;
        let k = child[key as usize];
        if k != 0 {
            w = k;
            continue;
        }
        bw.put(w, width);
        st.codes += 1;
        if next > 258 && w == next - 1 {
            st.newest_entry_codes += 1;
        }
        child[key as usize] = next;
        used.push(key);
        let added = next;
        next += 1;
        st.max_entry = st.max_entry.max(added);
        if trace && first_pass {
            st.created_at.push((added, i));
        }
        bump(added, &mut width);
        st.max_width = st.max_width.max(width);
        if added == clear_entry {
            bw.put(256, width);
            st.codes += 1;
            st.clears += 1;
            for k in used.drain(..) {
                child[k as usize] = 0;
            }
            next = 258;
            width = 9;
            first_pass = false;
        }
        w = c as u16;
    }
    bw.put(w, width);
    st.codes += 1;
    if next > 258 && w == next - 1 {
        st.newest_entry_codes += 1;
    }
    // the decoder adds an entry on reading this code: it counts towards the width decision
    bump(next, &mut width);
    st.max_width = st.max_width.max(width);
    bw.put(257, width);
    for k in used.drain(..) {
        child[k as usize] = 0;
    }
    (bw.finish(), st)
}

/// Reference decoder (self-test only), written from the same definition from the decoder's side:
/// the decoder is one entry behind the encoder, so it widens after ITS entry 510 (EarlyChange 1)
/// or 511 (EarlyChange 0).
pub fn lzw_decode(enc: &[u8], early_change: bool) -> Result<Vec<u8>, String> {
    let mut out: Vec<u8> = vec![];
    let mut prefix: Vec<u16> = vec![0; 4096];
    let mut last: Vec<u8> = vec![0; 4096];
    let mut first: Vec<u8> = vec![0; 4096];
    for i in 0..256 {
        last[i] = i as u8;
        first[i] = i as u8;
    }
    let mut width = 9u32;
    let mut next: usize = 258;
    let mut prev: Option<u16> = None;
    let mut bitpos: usize = 0;
    let emit = |code: u16, prefix: &Vec<u16>, last: &Vec<u8>, out: &mut Vec<u8>| {
        let start = out.len();
        let mut c = code;
        loop {
            out.push(last[c as usize]);
            if c < 256 {
                break;
            }
            c = prefix[c as usize];
        }
        out[start..].reverse();
    };
    loop {
        if bitpos + width as usize > enc.len() * 8 {
            return Err("ran out of data before EOD".into());
        }
        let mut code: u32 = 0;
        for k in 0..width as usize {
            let b = bitpos + k;
            code = (code << 1) | ((enc[b / 8] >> (7 - b % 8)) & 1) as u32;
        }
        bitpos += width as usize;
        let code = code as u16;
        if code == 256 {
            width = 9;
            next = 258;
            prev = None;
            continue;
        }
        if code == 257 {
            break;
        }
        match prev {
            None => {
                if code > 255 {
                    return Err("first code after clear is not a literal".into());
                }
                out.push(code as u8);
            }
            Some(p) => {
                if (code as usize) < next || code < 256 {
                    if next < 4096 {
                        prefix[next] = p;
                        first[next] = first[p as usize];
                        last[next] = first[code as usize];
                    }
                    emit(code, &prefix, &last, &mut out);
                } else if code as usize == next && next < 4096 {
                    prefix[next] = p;
                    first[next] = first[p as usize];
                    last[next] = first[p as usize];
                    emit(code, &prefix, &last, &mut out);
                } else {
                    return Err(format!("code {} beyond the table ({})", code, next));
                }
                if next < 4096 {
                    next += 1;
                }
                let lim = if early_change { (1usize << width) - 1 } else { 1usize << width };
                if next == lim && width < 12 {
                    width += 1;
                }
            }
        }
        prev = Some(code);
    }
    if enc.len() * 8 - bitpos >= 8 {
        return Err("more than 7 padding bits after EOD".into());
    }
    Ok(out)
}

// ---------------------------------------------------------------------------------------------
// zlib (RFC 1950) with stored deflate blocks (RFC 1951 §3.2.4) and Adler-32.

pub fn adler32(data: &[u8]) -> u32 {
    let (mut a, mut b) = (1u32, 0u32);
    for chunk in data.chunks(5552) {
        for &x in chunk {
            a += x as u32;
            b += a;
        }
        a %= 65521;
        b %= 65521;
    }
    (b << 16) | a
}

/// zlib stream made of stored blocks of at most `block` (1..=65535) bytes.
pub fn zlib_stored(data: &[u8], block: usize) -> Vec<u8> {
    let block = block.clamp(1, 65535);
    let mut out = Vec::with_capacity(data.len() + data.len() / block * 5 + 16);
    out.extend_from_slice(&[0x78, 0x01]);
    if data.is_empty() {
        out.extend_from_slice(&[0x01, 0x00, 0x00, 0xff, 0xff]);
    }
    let n = data.len().div_ceil(block);
    for (i, ch) in data.chunks(block).enumerate() {
        out.push(if i + 1 == n { 1 } else { 0 });
        let len = ch.len() as u16;
        out.extend_from_slice(&len.to_le_bytes());
        out.extend_from_slice(&(!len).to_le_bytes());
        out.extend_from_slice(ch);
    }
    out.extend_from_slice(&adler32(data).to_be_bytes());
    out
}

/// The two header bytes of a zlib stream (RFC 1950 §2.2): CM = 8, CINFO = log2(window) - 8 in
/// 0..=7, FLEVEL 0..=3, FDICT = 0, FCHECK chosen so that CMF*256 + FLG is a multiple of 31.
pub fn zlib_header(cinfo: u8, flevel: u8) -> [u8; 2] {
    let cmf = ((cinfo & 7) << 4) | 8;
    let mut flg = (flevel & 3) << 6;
    let rem = (((cmf as u32) << 8) | flg as u32) % 31;
    if rem != 0 {
        flg += (31 - rem) as u8;
    }
    [cmf, flg]
}

/// `zlib_stored` with any legal header (a stored block refers to no window, so every window size
/// is legal for it).
pub fn zlib_stored_hdr(data: &[u8], block: usize, cinfo: u8, flevel: u8) -> Vec<u8> {
    let mut out = zlib_stored(data, block);
    out[..2].copy_from_slice(&zlib_header(cinfo, flevel));
    out
}

/// xorshift64 (Marsaglia 13/7/17) byte generator: a fixed, practically incompressible family of
/// inputs ("already compressed payload"); seed 0 is replaced by a fixed odd constant.
pub fn xorshift_bytes(seed: u64, n: usize) -> Vec<u8> {
    let mut s = if seed == 0 { 0x9E37_79B9_7F4A_7C15 } else { seed };
    (0..n)
        .map(|_| {
            s ^= s << 13;
            s ^= s >> 7;
            s ^= s << 17;
            (s >> 24) as u8
        })
        .collect()
}

/// Second Flate encoder: flate2 (miniz_oxide) at a given level 0..9. Trusted primitive.
pub fn zlib_flate2(data: &[u8], level: u32) -> Vec<u8> {
    use std::io::Write;
    let mut e = flate2::write::ZlibEncoder::new(Vec::new(), flate2::Compression::new(level));
    e.write_all(data).expect("refcodec: flate2 write");
    e.finish().expect("refcodec: flate2 finish")
}

/// Reference decoder for stored-block zlib streams (self-test only).
pub fn zlib_stored_decode(enc: &[u8]) -> Result<Vec<u8>, String> {
    if enc.len() < 6 || (enc[0] & 0x0f) != 8 || ((enc[0] as u32) << 8 | enc[1] as u32) % 31 != 0 || enc[1] & 0x20 != 0 {
        return Err("bad zlib header".into());
    }
    let mut pos = 2;
    let mut out = vec![];
    loop {
        if pos + 5 > enc.len() {
            return Err("truncated block header".into());
        }
        let hdr = enc[pos];
        if hdr & 0xfe != 0 {
            return Err("not a stored block".into());
        }
        let len = u16::from_le_bytes([enc[pos + 1], enc[pos + 2]]);
        let nlen = u16::from_le_bytes([enc[pos + 3], enc[pos + 4]]);
        if len != !nlen {
            return Err("LEN/NLEN".into());
        }
        pos += 5;
        if pos + len as usize > enc.len() {
            return Err("truncated block".into());
        }
        out.extend_from_slice(&enc[pos..pos + len as usize]);
        pos += len as usize;
        if hdr & 1 == 1 {
            break;
        }
    }
    if enc.len() != pos + 4 || enc[pos..] != adler32(&out).to_be_bytes() {
        return Err("adler".into());
    }
    Ok(out)
}

// ---------------------------------------------------------------------------------------------

fn lcg_bytes(seed: u32, n: usize, mask: u8) -> Vec<u8> {
    let mut x = seed;
    (0..n)
        .map(|_| {
            x = x.wrapping_mul(1664525).wrapping_add(1013904223);
            ((x >> 24) as u8) & mask
        })
        .collect()
}

/// Self-test of every encoder against the reference decoders of this file and against fixed
/// vectors from the defining documents. Returns the number of checks made.
pub fn self_test() -> Result<u64, String> {
    let mut n = 0u64;
    // --- fixed vectors
    // Adobe/Wikipedia ASCII85 example
    if a85_encode(b"Man ") != b"9jqo^~>" || a85_encode(b"Man") != b"9jqo~>" || a85_encode(b"Ma") != b"9jn~>" || a85_encode(b"M") != b"9`~>" {
        return Err("a85 vector 'Man '".into());
    }
    if a85_encode(&[0, 0, 0, 0]) != b"z~>" || a85_encode(&[0, 0, 0]) != b"!!!!~>" || a85_encode(&[0xff; 4]) != b"s8W-!~>" || a85_encode(b"") != b"~>" {
        return Err("a85 vector zero/ff".into());
    }
    // ISO 32000-1 §7.4.4.2 example: 45 45 45 45 45 65 45 45 45 66 -> 80 0B 60 50 22 0C 0C 85 01
    let iso = [45u8, 45, 45, 45, 45, 65, 45, 45, 45, 66];
    for early in [true, false] {
        if lzw_encode(&iso, LzwOpts::new(early)) != [0x80, 0x0B, 0x60, 0x50, 0x22, 0x0C, 0x0C, 0x85, 0x01] {
            return Err("lzw ISO 32000 example".into());
        }
    }
    // PNG spec Paeth: ties prefer a, then b
    if paeth(10, 10, 10) != 10 || paeth(1, 2, 3) != 1 || paeth(0, 0, 255) != 0 || paeth(50, 100, 75) != 75 || paeth(100, 50, 75) != 75 {
        return Err("paeth vectors".into());
    }
    if paeth(200, 100, 50) != 200 || paeth(100, 200, 50) != 200 || paeth(3, 5, 4) != 4 {
        return Err("paeth vectors 2".into());
    }
    // Adler-32 of "Wikipedia" = 0x11E60398 (RFC 1950 algorithm)
    if adler32(b"Wikipedia") != 0x11E60398 || adler32(b"") != 1 {
        return Err("adler32 vector".into());
    }
    n += 12;
    // --- round trips through the reference decoders
    let mut plains: Vec<Vec<u8>> = vec![vec![], vec![0], vec![0; 9], (0..=255u8).collect(), b"hello hello hello hello".to_vec()];
    plains.push(lcg_bytes(7, 5000, 0xff));
    plains.push(lcg_bytes(9, 70000, 0x01));
    plains.push(vec![b'a'; 70000]);
    plains.push(lcg_bytes(11, 140000, 0xff));
    for p in &plains {
        for z in [true, false] {
            let mut e = a85_encode_body(p, z);
            e.extend_from_slice(b"~>");
            if a85_decode(&e).as_deref() != Ok(&p[..]) {
                return Err(format!("a85 round trip len {}", p.len()));
            }
        }
        for early in [true, false] {
            for ca in [None, Some(300u16), Some(511), Some(512), Some(4093)] {
                let e = lzw_encode(p, LzwOpts { early_change: early, clear_after: ca });
                match lzw_decode(&e, early) {
                    Ok(d) if d == *p => {}
                    other => return Err(format!("lzw round trip len {} early {} clear {:?}: {:?}", p.len(), early, ca, other.map(|d| d.len()))),
                }
            }
        }
        for blk in [1usize, 7, 65535] {
            if p.len() > 5000 && blk < 100 {
                continue;
            }
            if zlib_stored_decode(&zlib_stored(p, blk)).as_deref() != Ok(&p[..]) {
                return Err(format!("zlib stored round trip len {}", p.len()));
            }
        }
        // cross-check the stored encoder with an independent inflater (flate2)
        {
            use std::io::Read;
            let mut d = vec![];
            let enc = zlib_stored(p, 65535);
            if flate2::read::ZlibDecoder::new(&enc[..]).read_to_end(&mut d).is_err() || d != *p {
                return Err(format!("zlib stored vs flate2 inflate len {}", p.len()));
            }
        }
        n += 2 + 10 + 3 + 1;
    }
    // zlib headers: every CINFO x FLEVEL gives a legal header; 78 01 / 78 9C / 78 DA are the usual ones
    if zlib_header(7, 0) != [0x78, 0x01] || zlib_header(7, 2) != [0x78, 0x9c] || zlib_header(7, 3) != [0x78, 0xda] || zlib_header(0, 0) != [0x08, 0x1d] {
        return Err("zlib header vectors".into());
    }
    for cinfo in 0..8u8 {
        for fl in 0..4u8 {
            let e = zlib_stored_hdr(b"abc", 65535, cinfo, fl);
            if zlib_stored_decode(&e).as_deref() != Ok(&b"abc"[..]) || e[1] & 0x20 != 0 || e[0] >> 4 != cinfo || e[1] >> 6 != fl {
                return Err(format!("zlib header cinfo {} flevel {}", cinfo, fl));
            }
            n += 1;
        }
    }
    // xorshift data must be incompressible for the trusted encoder (that is what the family is for)
    let x = xorshift_bytes(1, 100_000);
    if zlib_flate2(&x, 9).len() <= x.len() || xorshift_bytes(1, 10) == xorshift_bytes(2, 10) {
        return Err("xorshift data is compressible".into());
    }
    n += 1;
    // PNG: all filter types, several bpp, round trip + pointwise definition
    let data = lcg_bytes(3, 3 * 48, 0xff);
    for bpp in [1usize, 2, 3, 4, 6, 8] {
        for f0 in 0..5u8 {
            for f1 in 0..5u8 {
                let e = png_encode_frame(&data, 48, bpp, &[f0, f1, (f0 + f1) % 5]);
                if png_decode_frame(&e, 48, bpp).as_deref() != Ok(&data[..]) {
                    return Err(format!("png round trip bpp {} filters {} {}", bpp, f0, f1));
                }
                n += 1;
            }
        }
    }
    // early/late must actually differ once entry 511 exists
    let p = lcg_bytes(5, 600, 0xff);
    if lzw_encode(&p, LzwOpts::new(true)) == lzw_encode(&p, LzwOpts::new(false)) {
        return Err("EarlyChange has no effect".into());
    }
    if lzw_decode(&lzw_encode(&p, LzwOpts::new(true)), false).as_deref() == Ok(&p[..]) {
        return Err("reference LZW decoder ignores EarlyChange".into());
    }
    n += 2;
    Ok(n)
}
