//! Isolated worker processes for hostile-input sweeps (DESIGN §2.5).
//!
//! Panics are caught in-process, but stack overflow, allocation failure and hangs kill or stall
//! the process, so cases run in child processes of the same binary (`--worker`). A supervisor
//! thread per worker feeds case lines and reads `END` lines with a per-case time budget; a
//! missing `END` is a hang (worker killed), a dead worker is an abort (signal recorded).
use std::alloc::{GlobalAlloc, Layout, System};
use std::collections::VecDeque;
use std::io::{BufRead, BufReader, Write};
use std::process::{Child, Command, Stdio};
use std::sync::atomic::{AtomicU64, AtomicUsize, Ordering};
use std::sync::mpsc::{channel, Receiver, RecvTimeoutError};
use std::sync::Mutex;
use std::time::{Duration, Instant};

// ---------------------------------------------------------------------------------------------
// counting allocator (installed as the global allocator of every harness binary)

pub struct CountingAlloc;

static MAX_REQUEST: AtomicU64 = AtomicU64::new(0);
static LIVE: AtomicU64 = AtomicU64::new(0);
static PEAK: AtomicU64 = AtomicU64::new(0);
/// requests above this size make a worker exit with code 77 before the allocation is attempted
static HARD_CAP: AtomicU64 = AtomicU64::new(u64::MAX);
/// bookkeeping is only done in worker processes: shared counters would otherwise make every
/// allocation of every check bounce one cache line between all cores
static COUNTING: std::sync::atomic::AtomicBool = std::sync::atomic::AtomicBool::new(false);

unsafe impl GlobalAlloc for CountingAlloc {
    unsafe fn alloc(&self, layout: Layout) -> *mut u8 {
        if !COUNTING.load(Ordering::Relaxed) {
            return System.alloc(layout);
        }
        note(layout.size() as u64);
        let p = System.alloc(layout);
        if !p.is_null() {
            let l = LIVE.fetch_add(layout.size() as u64, Ordering::Relaxed) + layout.size() as u64;
            PEAK.fetch_max(l, Ordering::Relaxed);
        }
        p
    }
    unsafe fn dealloc(&self, ptr: *mut u8, layout: Layout) {
        if COUNTING.load(Ordering::Relaxed) {
            LIVE.fetch_sub(layout.size() as u64, Ordering::Relaxed);
        }
        System.dealloc(ptr, layout)
    }
    unsafe fn alloc_zeroed(&self, layout: Layout) -> *mut u8 {
        if !COUNTING.load(Ordering::Relaxed) {
            return System.alloc_zeroed(layout);
        }
        note(layout.size() as u64);
        let p = System.alloc_zeroed(layout);
        if !p.is_null() {
            let l = LIVE.fetch_add(layout.size() as u64, Ordering::Relaxed) + layout.size() as u64;
            PEAK.fetch_max(l, Ordering::Relaxed);
        }
        p
    }
    unsafe fn realloc(&self, ptr: *mut u8, layout: Layout, new_size: usize) -> *mut u8 {
        if !COUNTING.load(Ordering::Relaxed) {
            return System.realloc(ptr, layout, new_size);
        }
        note(new_size as u64);
        let p = System.realloc(ptr, layout, new_size);
        if !p.is_null() {
            if new_size >= layout.size() {
                let l = LIVE.fetch_add((new_size - layout.size()) as u64, Ordering::Relaxed) + (new_size - layout.size()) as u64;
                PEAK.fetch_max(l, Ordering::Relaxed);
            } else {
                LIVE.fetch_sub((layout.size() - new_size) as u64, Ordering::Relaxed);
            }
        }
        p
    }
}

#[inline]
fn note(size: u64) {
    if size > MAX_REQUEST.load(Ordering::Relaxed) {
        MAX_REQUEST.fetch_max(size, Ordering::Relaxed);
    }
    if size > HARD_CAP.load(Ordering::Relaxed) {
        // report and leave without unwinding: the supervisor reads the exit code
        let msg = format!("OVERSIZE {}\n", size);
        unsafe {
            libc::write(1, msg.as_ptr() as *const libc::c_void, msg.len());
            libc::_exit(77);
        }
    }
}

pub fn reset_alloc_stats() {
    MAX_REQUEST.store(0, Ordering::Relaxed);
    PEAK.store(LIVE.load(Ordering::Relaxed), Ordering::Relaxed);
}
pub fn max_request() -> u64 {
    MAX_REQUEST.load(Ordering::Relaxed)
}
pub fn peak_live() -> u64 {
    PEAK.load(Ordering::Relaxed)
}

// ---------------------------------------------------------------------------------------------
// worker side

/// Serve cases from stdin until EOF. Line format: `<id> <entry> <hex input>`; `exec` runs the
/// real entry point and returns a short description ("ok ..." / "err ..."). Panics are caught.
pub fn serve(exec: impl Fn(&str, &[u8]) -> String) -> ! {
    serve_with_init(|| {}, exec)
}

/// Like `serve`, with a warm-up step (building seed tables etc.) that runs before any case is
/// read, so that its time and allocations are not attributed to a case.
pub fn serve_with_init(init: impl FnOnce(), exec: impl Fn(&str, &[u8]) -> String) -> ! {
    crate::util::quiet_panics();
    init();
    // address space limit: runaway allocations fail fast instead of exhausting the machine
    unsafe {
        let lim = libc::rlimit { rlim_cur: 6 << 30, rlim_max: 6 << 30 };
        libc::setrlimit(libc::RLIMIT_AS, &lim);
    }
    HARD_CAP.store(1 << 30, Ordering::Relaxed);
    // counting starts here; LIVE may briefly go "negative" (wrap) for blocks allocated before,
    // which only affects the informational peak figure, not the per-request maximum
    COUNTING.store(true, Ordering::SeqCst);
    let stdin = std::io::stdin();
    let mut line = String::new();
    loop {
        line.clear();
        match stdin.lock().read_line(&mut line) {
            Ok(0) | Err(_) => std::process::exit(0),
            Ok(_) => {}
        }
        let mut it = line.trim_end().splitn(3, ' ');
        let id = it.next().unwrap_or("");
        let entry = it.next().unwrap_or("");
        let input = crate::objjson::unhex(it.next().unwrap_or(""));
        println!("BEGIN {}", id);
        let _ = std::io::stdout().flush();
        reset_alloc_stats();
        let t = Instant::now();
        let res = crate::util::guard(|| exec(entry, &input));
        let ms = t.elapsed().as_millis();
        let (class, detail) = match res {
            Ok(d) => ("ok", d),
            Err(p) => ("panic", p),
        };
        println!("END {} {} {} {} {}", id, class, max_request(), ms, detail.replace('\n', " "));
        let _ = std::io::stdout().flush();
    }
}

// ---------------------------------------------------------------------------------------------
// supervisor side

#[derive(Debug, Clone, PartialEq)]
pub enum Class {
    /// returned a value or an error within budget
    Returned,
    Panic,
    /// process died: signal or unexpected exit code
    Abort,
    Hang,
    /// a single allocation request above the hard cap, or above the per-case allowance
    Oversize,
}

#[derive(Debug, Clone)]
pub struct Outcome {
    pub class: Class,
    pub detail: String,
    pub max_alloc: u64,
    pub millis: u64,
}

#[derive(Debug, Clone)]
pub struct Case {
    pub id: u64,
    pub entry: &'static str,
    /// what is sent to the worker (the bytes themselves or a compact descriptor of them)
    pub input: Vec<u8>,
    /// size of the input the entry point really receives (budgets are functions of this size);
    /// 0 = use `input.len()`
    pub logical_len: usize,
}

impl Case {
    pub fn size(&self) -> usize {
        if self.logical_len > 0 {
            self.logical_len
        } else {
            self.input.len()
        }
    }
}

pub fn time_budget(input_len: usize) -> Duration {
    Duration::from_millis(2000 + 1000 * (input_len as u64 / 65536))
}

pub fn alloc_allowance(input_len: usize) -> u64 {
    64 * input_len as u64 + (16 << 20)
}

struct WorkerProc {
    child: Child,
    rx: Receiver<String>,
}

fn spawn_worker(extra_args: &[String]) -> WorkerProc {
    let exe = std::env::current_exe().expect("current exe");
    let mut child = Command::new(exe)
        .arg("--worker")
        .args(extra_args)
        .stdin(Stdio::piped())
        .stdout(Stdio::piped())
        .stderr(Stdio::null())
        .env("RUST_LOG", "off")
        .spawn()
        .expect("spawn worker");
    let out = child.stdout.take().unwrap();
    let (tx, rx) = channel();
    std::thread::spawn(move || {
        let r = BufReader::new(out);
        for l in r.lines() {
            match l {
                Ok(l) => {
                    if tx.send(l).is_err() {
                        break;
                    }
                }
                Err(_) => break,
            }
        }
    });
    WorkerProc { child, rx }
}

fn died(mut w: WorkerProc, saw_oversize: Option<u64>) -> Outcome {
    let _ = w.child.kill();
    let st = w.child.wait().ok();
    let code = st.and_then(|s| s.code());
    use std::os::unix::process::ExitStatusExt;
    let sig = st.and_then(|s| s.signal());
    if code == Some(77) || saw_oversize.is_some() {
        Outcome { class: Class::Oversize, detail: format!("single allocation request of {} bytes", saw_oversize.unwrap_or(0)), max_alloc: saw_oversize.unwrap_or(0), millis: 0 }
    } else {
        Outcome { class: Class::Abort, detail: format!("worker died: exit code {:?} signal {:?}", code, sig), max_alloc: 0, millis: 0 }
    }
}

/// Run all cases on `n_workers` worker processes; `on_result` is called for every case.
/// How long a worker may take to report BEGIN for the next case (process start, table warm-up, loaded machine).
const STARTUP_ALLOWANCE: Duration = Duration::from_secs(90);

pub fn run_cases(cases: Vec<Case>, n_workers: usize, extra_args: &[String], on_result: &(dyn Fn(&Case, &Outcome) + Sync)) {
    let queue: Mutex<VecDeque<Case>> = Mutex::new(cases.into());
    let done = AtomicUsize::new(0);
    std::thread::scope(|s| {
        for _ in 0..n_workers {
            s.spawn(|| {
                let mut w: Option<WorkerProc> = None;
                loop {
                    // take a batch
                    let batch: Vec<Case> = {
                        let mut q = queue.lock().unwrap();
                        let n = q.len().min(32);
                        q.drain(..n).collect()
                    };
                    if batch.is_empty() {
                        break;
                    }
                    let mut pending: VecDeque<Case> = batch.into();
                    let mut not_started = 0u32;
                    while !pending.is_empty() {
                        if w.is_none() {
                            w = Some(spawn_worker(extra_args));
                        }
                        let wp = w.as_mut().unwrap();
                        // send everything pending
                        let mut text = String::new();
                        for c in &pending {
                            text.push_str(&format!("{} {} {}\n", c.id, c.entry, crate::objjson::hex(&c.input)));
                        }
                        let sent = wp.child.stdin.as_mut().map(|i| i.write_all(text.as_bytes()).and_then(|_| i.flush()).is_ok()).unwrap_or(false);
                        let mut oversize: Option<u64> = None;
                        let mut restart = false;
                        // read results in order
                        loop {
                            let cur = match pending.front() {
                                Some(c) => c.clone(),
                                None => break,
                            };
                            let budget = time_budget(cur.size());
                            let mut begun = false;
                            // The case's clock starts when the worker reports BEGIN. Until then (worker start-up,
                            // warm-up of its tables, a loaded machine) only a generous start-up allowance applies,
                            // and exceeding THAT is a machinery condition, never a verdict about lopdf.
                            let mut t0 = Instant::now();
                            let mut outcome: Option<Outcome> = None;
                            let mut dead = false;
                            loop {
                                let allowed = if begun { budget } else { STARTUP_ALLOWANCE };
                                let left = allowed.checked_sub(t0.elapsed()).unwrap_or(Duration::from_millis(0));
                                match wp.rx.recv_timeout(left) {
                                    Ok(l) => {
                                        if l.starts_with("BEGIN ") {
                                            begun = true;
                                            t0 = Instant::now();
                                        } else if let Some(rest) = l.strip_prefix("OVERSIZE ") {
                                            oversize = rest.trim().parse().ok();
                                        } else if let Some(rest) = l.strip_prefix("END ") {
                                            let mut it = rest.splitn(5, ' ');
                                            let _id = it.next();
                                            let class = it.next().unwrap_or("");
                                            let max_alloc: u64 = it.next().and_then(|x| x.parse().ok()).unwrap_or(0);
                                            let millis: u64 = it.next().and_then(|x| x.parse().ok()).unwrap_or(0);
                                            let detail = it.next().unwrap_or("").to_string();
                                            let mut cl = if class == "panic" { Class::Panic } else { Class::Returned };
                                            let mut detail = detail;
                                            if cl == Class::Returned && max_alloc > alloc_allowance(cur.size()) {
                                                cl = Class::Oversize;
                                                detail = format!("single allocation request of {} bytes for an input of {} bytes ({})", max_alloc, cur.size(), detail);
                                            }
                                            outcome = Some(Outcome { class: cl, detail, max_alloc, millis });
                                            break;
                                        }
                                    }
                                    Err(RecvTimeoutError::Timeout) if !begun => {
                                        not_started += 1;
                                        if not_started >= 3 {
                                            eprintln!("MACHINERY: a worker did not begin case {} within {:?} three times in a row", cur.id, STARTUP_ALLOWANCE);
                                            std::process::exit(3);
                                        }
                                        // the worker is killed below and the same case goes to a fresh one
                                        restart = true;
                                        break;
                                    }
                                    Err(RecvTimeoutError::Timeout) => {
                                        outcome = Some(Outcome {
                                            class: Class::Hang,
                                            detail: format!("no result within {:?} (case begun: {})", budget, begun),
                                            max_alloc: 0,
                                            millis: budget.as_millis() as u64,
                                        });
                                        dead = true;
                                        break;
                                    }
                                    Err(RecvTimeoutError::Disconnected) => {
                                        dead = true;
                                        break;
                                    }
                                }
                            }
                            if restart {
                                let mut x = w.take().unwrap();
                                let _ = x.child.kill();
                                let _ = x.child.wait();
                                break; // the pending cases (this one first) go to a fresh worker
                            }
                            not_started = 0;
                            if !sent && outcome.is_none() {
                                dead = true;
                            }
                            if dead {
                                let wp_owned = w.take().unwrap();
                                let o = match outcome {
                                    Some(o) => {
                                        let mut x = wp_owned;
                                        let _ = x.child.kill();
                                        let _ = x.child.wait();
                                        o
                                    }
                                    None => died(wp_owned, oversize),
                                };
                                on_result(&cur, &o);
                                pending.pop_front();
                                done.fetch_add(1, Ordering::Relaxed);
                                break; // restart worker, resend the rest
                            }
                            on_result(&cur, outcome.as_ref().unwrap());
                            pending.pop_front();
                            done.fetch_add(1, Ordering::Relaxed);
                        }
                    }
                }
                if let Some(mut wp) = w {
                    drop(wp.child.stdin.take());
                    let _ = wp.child.wait();
                }
            });
        }
    });
}

/// Re-run one case in a fresh worker (used to confirm a failure before it is reported).
pub fn run_single(case: &Case, extra_args: &[String]) -> Outcome {
    let out: Mutex<Option<Outcome>> = Mutex::new(None);
    run_cases(vec![case.clone()], 1, extra_args, &|_, o| {
        *out.lock().unwrap() = Some(o.clone());
    });
    let o = out.lock().unwrap().clone();
    o.unwrap_or(Outcome { class: Class::Abort, detail: "no outcome".into(), max_alloc: 0, millis: 0 })
}

/// Stable key of a failure: class + call site (file:line of a panic, or the detail head).
pub fn failure_key(o: &Outcome) -> String {
    let head: String = o.detail.split(": ").next().unwrap_or("").chars().take(120).collect();
    format!("{:?}|{}", o.class, head)
}
