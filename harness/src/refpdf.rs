//! Independent reference PDF writer (DESIGN Appendix B.2). Never calls lopdf's writer/parser;
//! lopdf's `Object` is used only as the data type of abstract documents. Every syntactic freedom
//! is one `Chooser::choose` call; with an all-zero chooser it writes the plainest legal file.
use crate::choose::Chooser;
use lopdf::{Dictionary, Object, ObjectId, StringFormat};
use std::collections::{BTreeMap, BTreeSet};

#[derive(Debug, Clone, Copy, PartialEq, Eq)]
pub enum Style {
    Table,
    Stream,
}

/// One revision: the objects it defines or redefines and the trailer entries (no Size / Prev).
#[derive(Debug, Clone)]
pub struct Section {
    pub objects: BTreeMap<ObjectId, Object>,
    pub trailer: Dictionary,
    /// Some(k): storage of eligible objects is fixed (0 plain, 1 one object stream, 2 two object
    /// streams) instead of being a choice point
    pub objstm: Option<usize>,
    /// object numbers stored in an object stream of this revision but deliberately NOT listed in
    /// its cross-reference section (malformed-but-loadable files for C08)
    pub omit_xref: Vec<u32>,
    /// extra (number, object) members placed at the front of this revision's first object stream
    /// and not listed in the cross-reference section: stale duplicates inside one container
    pub extra_members: Vec<(u32, Object)>,
}

#[derive(Debug, Clone)]
pub struct FileSpec {
    pub version: String,
    pub mark: Vec<u8>,
    pub style: Style,
    pub sections: Vec<Section>,
    /// first object number used for helper objects (containers, xref streams, length objects);
    /// None = one above the largest number of all sections. A fixed base makes the bytes of a
    /// history a prefix of the bytes of every extension of that history.
    pub helper_base: Option<u32>,
}

#[derive(Debug, Clone, Default)]
pub struct Layout {
    /// bytes before the header
    pub junk: usize,
    /// file length (excluding junk) after each revision: every such prefix is a complete PDF
    pub section_ends: Vec<usize>,
    /// helper objects the writer added (indirect Length integers): (revision index, id, object)
    pub helper_objects: Vec<(usize, ObjectId, Object)>,
    /// object numbers of object-stream containers and cross-reference streams
    pub structural: BTreeSet<u32>,
    /// per revision: object number -> container number, for objects stored in object streams
    pub compressed: Vec<BTreeMap<u32, u32>>,
    /// per revision: offset of the cross-reference section (relative to the header)
    pub xref_offsets: Vec<usize>,
}

fn is_ws(c: u8) -> bool {
    matches!(c, 0 | 9 | 10 | 12 | 13 | 32)
}
fn is_delim(c: u8) -> bool {
    b"()<>[]{}/%".contains(&c)
}
fn is_regular(c: u8) -> bool {
    !is_ws(c) && !is_delim(c)
}

const GAP_OPTIONS: usize = 10;

struct W<'a> {
    out: Vec<u8>,
    ch: &'a mut Chooser,
    /// position right after an empty name `/` (a following regular token needs a separator)
    empty_name_end: usize,
}

impl<'a> W<'a> {
    fn put(&mut self, b: &[u8]) {
        self.out.extend_from_slice(b);
    }

    /// Emit a gap before a token starting with `next`. `plain` is the option-0 spelling.
    fn gap(&mut self, class: &'static str, next: u8, plain: &[u8]) {
        let required = (self.out.last().map(|c| is_regular(*c)).unwrap_or(false) || self.out.len() == self.empty_name_end) && is_regular(next);
        let o = self.ch.choose(class, GAP_OPTIONS);
        let g: &[u8] = match o {
            0 => {
                if required && plain.is_empty() {
                    b" "
                } else {
                    plain
                }
            }
            1 => b"\n",
            2 => b"\r",
            3 => b"\r\n",
            4 => b"\t",
            5 => b"\x0c",
            6 => b"\x00",
            7 => b"  ",
            8 => b"% c\n",
            _ => {
                if required {
                    b" "
                } else {
                    b""
                }
            }
        };
        // a comment must not swallow a preceding regular token's separation: '%' is a delimiter, fine
        self.out.extend_from_slice(g);
    }

    fn eol(&mut self, class: &'static str) {
        match self.ch.choose(class, 3) {
            0 => self.put(b"\n"),
            1 => self.put(b"\r\n"),
            _ => self.put(b"\r"),
        }
    }

    fn int(&mut self, v: i64) {
        let o = self.ch.choose("num.int", 3);
        let s = match o {
            1 if v >= 0 => format!("+{}", v),
            2 => {
                if v < 0 {
                    format!("-00{}", v.unsigned_abs())
                } else {
                    format!("00{}", v)
                }
            }
            _ => format!("{}", v),
        };
        self.put(s.as_bytes());
    }

    fn real(&mut self, v: f32) {
        // shortest decimal that denotes the f32 (Rust's Display), then respelled
        let base = format!("{}", v);
        let base = if base.contains('.') { base } else { format!("{}.0", base) };
        let o = self.ch.choose("num.real", 5);
        let (neg, mag) = match base.strip_prefix('-') {
            Some(m) => (true, m.to_string()),
            None => (false, base.clone()),
        };
        let (ip, fp) = mag.split_once('.').unwrap();
        let body = match o {
            1 if fp == "0" => format!("{}.", ip),
            2 if ip == "0" && fp != "0" => format!(".{}", fp),
            3 => format!("{}.{}000", ip, fp),
            4 => format!("00{}.{}", ip, fp),
            _ => mag.clone(),
        };
        let sign = if neg {
            "-"
        } else if o == 4 {
            "+"
        } else {
            ""
        };
        self.put(format!("{}{}", sign, body).as_bytes());
    }

    fn name(&mut self, n: &[u8]) {
        let o = self.ch.choose("name", 3);
        self.put(b"/");
        if n.is_empty() {
            self.empty_name_end = self.out.len();
        }
        for &b in n {
            let must = !is_regular(b) || b == b'#' || !(33..=126).contains(&b);
            if must || o >= 1 {
                if o == 2 {
                    self.put(format!("#{:02x}", b).as_bytes());
                } else {
                    self.put(format!("#{:02X}", b).as_bytes());
                }
            } else {
                self.out.push(b);
            }
        }
    }

    fn balanced(s: &[u8]) -> bool {
        let mut d = 0i64;
        for &b in s {
            if b == b'(' {
                d += 1;
            } else if b == b')' {
                d -= 1;
                if d < 0 {
                    return false;
                }
            }
        }
        d == 0
    }

    fn literal(&mut self, s: &[u8]) {
        let o = self.ch.choose("str.literal", 11);
        self.put(b"(");
        let bal = Self::balanced(s);
        let n = s.len();
        for (i, &b) in s.iter().enumerate() {
            // line continuation in the middle (option 5) / at the start (6)
            if (o == 5 && i == n / 2) || (o == 6 && i == 0) {
                self.put(b"\\\n");
            }
            // line continuation with CRLF / CR as the end-of-line marker (options 9 / 10)
            if o == 9 && i == n / 2 {
                self.put(b"\\\r\n");
            }
            if o == 10 && i == n / 2 {
                self.put(b"\\\r");
            }
            match o {
                2 => self.put(format!("\\{:03o}", b).as_bytes()),
                3 => {
                    // shortest octal where unambiguous: next byte must not be an octal digit
                    let next_digit = s.get(i + 1).map(|c| (b'0'..=b'7').contains(c)).unwrap_or(false);
                    if b < 32 || b >= 127 || b == b'(' || b == b')' || b == b'\\' {
                        if next_digit {
                            self.put(format!("\\{:03o}", b).as_bytes())
                        } else {
                            self.put(format!("\\{:o}", b).as_bytes())
                        }
                    } else {
                        self.out.push(b)
                    }
                }
                4 => match b {
                    b'\n' => self.put(b"\\n"),
                    b'\r' => self.put(b"\\r"),
                    b'\t' => self.put(b"\\t"),
                    8 => self.put(b"\\b"),
                    12 => self.put(b"\\f"),
                    b'(' => self.put(b"\\("),
                    b')' => self.put(b"\\)"),
                    b'\\' => self.put(b"\\\\"),
                    _ => self.out.push(b),
                },
                7 if b == b'\n' => self.put(b"\r"),
                8 if b == b'\n' => self.put(b"\r\n"),
                _ => match b {
                    b'\\' => self.put(b"\\\\"),
                    b'\r' => self.put(b"\\r"),
                    // a raw LF right after a CR continuation would be read as part of a CRLF marker
                    b'\n' if o == 10 => self.put(b"\\n"),
                    b'(' | b')' if !bal || o == 1 => {
                        self.out.push(b'\\');
                        self.out.push(b)
                    }
                    _ => self.out.push(b),
                },
            }
        }
        if o == 5 && n == 0 {
            self.put(b"\\\r\n");
        }
        self.put(b")");
    }

    fn hex(&mut self, s: &[u8]) {
        let o = self.ch.choose("str.hex", 4);
        self.put(b"<");
        let n = s.len();
        for (i, &b) in s.iter().enumerate() {
            let last = i + 1 == n;
            match o {
                1 => self.put(format!("{:02x}", b).as_bytes()),
                2 => self.put(format!("{:X} {:X}\n", b >> 4, b & 15).as_bytes()),
                3 if last && b & 15 == 0 => self.put(format!("{:X}", b >> 4).as_bytes()),
                _ => self.put(format!("{:02X}", b).as_bytes()),
            }
        }
        self.put(b">");
    }

    fn object(&mut self, o: &Object) {
        match o {
            Object::Null => self.put(b"null"),
            Object::Boolean(true) => self.put(b"true"),
            Object::Boolean(false) => self.put(b"false"),
            Object::Integer(i) => self.int(*i),
            Object::Real(r) => self.real(*r),
            Object::Name(n) => self.name(n),
            Object::String(s, StringFormat::Literal) => self.literal(s),
            Object::String(s, StringFormat::Hexadecimal) => self.hex(s),
            Object::Array(a) => {
                self.put(b"[");
                for (i, x) in a.iter().enumerate() {
                    let f = first_byte(x);
                    if i == 0 {
                        self.gap("gap.array_open", f, b"");
                    } else {
                        self.gap("gap.array", f, b" ");
                    }
                    self.object(x);
                }
                self.gap("gap.array_close", b']', b"");
                self.put(b"]");
            }
            Object::Dictionary(d) => self.dict(d),
            Object::Reference(id) => {
                let g = match self.ch.choose("ref.gap", 3) {
                    0 => &b" "[..],
                    1 => b"\n",
                    _ => b"  ",
                };
                let s = format!("{}", id.0);
                self.put(s.as_bytes());
                self.put(g);
                self.put(format!("{}", id.1).as_bytes());
                self.put(g);
                self.put(b"R");
            }
            Object::Stream(_) => panic!("stream inside a direct object"),
        }
    }

    fn dict(&mut self, d: &Dictionary) {
        self.put(b"<<");
        for (k, v) in d.iter() {
            self.gap("gap.dict_key", b'/', b"");
            self.name(k);
            self.gap("gap.dict_val", first_byte(v), b" ");
            self.object(v);
        }
        self.gap("gap.dict_close", b'>', b"");
        self.put(b">>");
    }
}

fn first_byte(o: &Object) -> u8 {
    match o {
        Object::Null => b'n',
        Object::Boolean(_) => b't',
        Object::Integer(_) | Object::Real(_) | Object::Reference(_) => b'0',
        Object::Name(_) => b'/',
        Object::String(_, StringFormat::Literal) => b'(',
        Object::String(_, StringFormat::Hexadecimal) => b'<',
        Object::Array(_) => b'[',
        Object::Dictionary(_) | Object::Stream(_) => b'<',
    }
}

pub fn ascii85_encode(data: &[u8]) -> Vec<u8> {
    let mut out = vec![];
    for chunk in data.chunks(4) {
        let mut v: u32 = 0;
        for i in 0..4 {
            v = (v << 8) | *chunk.get(i).unwrap_or(&0) as u32;
        }
        if chunk.len() == 4 && v == 0 {
            out.push(b'z');
            continue;
        }
        let mut d = [0u8; 5];
        let mut x = v;
        for i in (0..5).rev() {
            d[i] = (x % 85) as u8 + b'!';
            x /= 85;
        }
        out.extend_from_slice(&d[..chunk.len() + 1]);
    }
    out.extend_from_slice(b"~>");
    out
}

fn flate(data: &[u8]) -> Vec<u8> {
    use std::io::Write;
    let mut e = flate2::write::ZlibEncoder::new(Vec::new(), flate2::Compression::new(6));
    e.write_all(data).unwrap();
    e.finish().unwrap()
}

/// PNG "Up" predictor rows (filter type 2) over rows of `cols` bytes.
fn png_up(data: &[u8], cols: usize) -> Vec<u8> {
    let mut out = vec![];
    let mut prev = vec![0u8; cols];
    for row in data.chunks(cols) {
        out.push(2);
        for (i, b) in row.iter().enumerate() {
            out.push(b.wrapping_sub(prev[i]));
        }
        prev = row.to_vec();
        prev.resize(cols, 0);
    }
    out
}

fn paeth(a: i32, b: i32, c: i32) -> i32 {
    let p = a + b - c;
    let (pa, pb, pc) = ((p - a).abs(), (p - b).abs(), (p - c).abs());
    if pa <= pb && pa <= pc {
        a
    } else if pb <= pc {
        b
    } else {
        c
    }
}

/// PNG predictor rows with a different filter type per row (bytes per pixel = 1):
/// the producer is free to choose the filter row by row (predictor 15).
fn png_mixed(data: &[u8], cols: usize) -> Vec<u8> {
    let cycle = [0u8, 2, 1, 0, 3, 4, 0, 0, 2, 3];
    let mut out = vec![];
    let mut prev = vec![0u8; cols];
    for (r, row) in data.chunks(cols).enumerate() {
        let ft = cycle[r % cycle.len()];
        out.push(ft);
        let mut cur = row.to_vec();
        cur.resize(cols, 0);
        for i in 0..cols {
            let a = if i >= 1 { cur[i - 1] as i32 } else { 0 };
            let b = prev[i] as i32;
            let c = if i >= 1 { prev[i - 1] as i32 } else { 0 };
            let x = cur[i] as i32;
            let v = match ft {
                0 => x,
                1 => x - a,
                2 => x - b,
                3 => x - (a + b) / 2,
                _ => x - paeth(a, b, c),
            };
            out.push((v & 0xff) as u8);
        }
        prev = cur;
    }
    out
}

/// Apply one of the structural-stream filter options; returns (data, dictionary entries).
fn structural_filter(ch: &mut Chooser, class: &'static str, raw: &[u8], cols: usize) -> (Vec<u8>, Vec<(Vec<u8>, Object)>) {
    let o = ch.choose(class, 6);
    let parms = |cols: usize| {
        let mut p = Dictionary::new();
        p.set("Predictor", Object::Integer(12));
        p.set("Columns", Object::Integer(cols as i64));
        Object::Dictionary(p)
    };
    let pred_ok = cols > 0 && !raw.is_empty() && raw.len() % cols == 0;
    match o {
        1 => (flate(raw), vec![(b"Filter".to_vec(), Object::Name(b"FlateDecode".to_vec()))]),
        // predictor 12, parameters as a dictionary
        2 if pred_ok => (
            flate(&png_up(raw, cols)),
            vec![(b"Filter".to_vec(), Object::Name(b"FlateDecode".to_vec())), (b"DecodeParms".to_vec(), parms(cols))],
        ),
        // predictor 15: the filter type changes from row to row (None, Up, Sub, None, Average, Paeth ...)
        5 if pred_ok => {
            let mut p = Dictionary::new();
            p.set("Predictor", Object::Integer(15));
            p.set("Columns", Object::Integer(cols as i64));
            (
                flate(&png_mixed(raw, cols)),
                vec![(b"Filter".to_vec(), Object::Name(b"FlateDecode".to_vec())), (b"DecodeParms".to_vec(), Object::Dictionary(p))],
            )
        }
        // predictor 12, filter and parameters as parallel one-element arrays
        4 if pred_ok => (
            flate(&png_up(raw, cols)),
            vec![
                (b"Filter".to_vec(), Object::Array(vec![Object::Name(b"FlateDecode".to_vec())])),
                (b"DecodeParms".to_vec(), Object::Array(vec![parms(cols)])),
            ],
        ),
        3 => (
            ascii85_encode(&flate(raw)),
            vec![(
                b"Filter".to_vec(),
                Object::Array(vec![Object::Name(b"ASCII85Decode".to_vec()), Object::Name(b"FlateDecode".to_vec())]),
            )],
        ),
        _ => (raw.to_vec(), vec![]),
    }
}

#[derive(Debug, Clone)]
enum XEntry {
    Free,
    InUse { offset: usize, gen: u16 },
    Compressed { container: u32, index: usize },
}

/// Write the whole file. Returns bytes and the layout.
pub fn write(spec: &FileSpec, ch: &mut Chooser) -> (Vec<u8>, Layout) {
    let mut lay = Layout::default();
    let mut w = W { out: Vec::new(), ch, empty_name_end: usize::MAX };
    let junk: &[u8] = match w.ch.choose("file.junk", 3) {
        1 => b"junk\r\n\x00",
        2 => &[b'J'; 1000],
        _ => b"",
    };
    lay.junk = junk.len();
    // header and binary comment
    w.put(b"%PDF-");
    w.put(spec.version.as_bytes());
    w.eol("eol.header");
    w.put(b"%");
    w.put(&spec.mark);
    w.eol("eol.mark");
    let mut next_id: u32 = spec.helper_base.unwrap_or(
        spec.sections
            .iter()
            .flat_map(|s| s.objects.keys().map(|k| k.0))
            .max()
            .unwrap_or(0)
            + 1,
    );
    let mut prev_xref: Option<usize> = None;
    let mut known_max: u32 = 0;
    for (si, sec) in spec.sections.iter().enumerate() {
        let base = si == 0;
        let mut entries: BTreeMap<u32, XEntry> = BTreeMap::new();
        let mut compressed_map = BTreeMap::new();
        if !base && !w.out.ends_with(b"\n") && !w.out.ends_with(b"\r") {
            w.put(b"\n");
        }
        // which objects go into object streams
        let eligible: Vec<ObjectId> = sec
            .objects
            .iter()
            .filter(|(id, o)| id.1 == 0 && !matches!(o, Object::Stream(_)))
            .map(|(id, _)| *id)
            .collect();
        let part = if spec.style != Style::Stream {
            0
        } else if let Some(k) = sec.objstm {
            k
        } else {
            w.ch.choose("os.partition", 3)
        };
        let groups: Vec<Vec<ObjectId>> = match part {
            1 if !eligible.is_empty() => vec![eligible.clone()],
            2 if eligible.len() >= 2 => {
                let m = eligible.len() / 2;
                vec![eligible[..m].to_vec(), eligible[m..].to_vec()]
            }
            2 if eligible.len() == 1 => vec![eligible.clone()],
            _ => vec![],
        };
        let in_stream: BTreeSet<ObjectId> = groups.iter().flatten().cloned().collect();
        // plain objects in chosen order
        let mut plain: Vec<ObjectId> = sec.objects.keys().filter(|id| !in_stream.contains(id)).cloned().collect();
        match w.ch.choose("file.order", 3) {
            1 => plain.reverse(),
            2 if plain.len() > 1 => plain.rotate_left(1),
            _ => {}
        }
        // indirect lengths to be written after their stream / into an object stream
        let mut pending_len: Vec<(u32, i64)> = vec![];
        let mut len_in_objstm: Vec<(u32, i64)> = vec![];
        for id in &plain {
            let obj = &sec.objects[id];
            if let Object::Stream(s) = obj {
                let mut dict = s.dict.clone();
                // a stream dictionary carrying the marker key keeps a direct Length whatever is chosen
                let keep_direct = dict.remove(b"VerifDirectLength").is_some();
                let lm = if keep_direct { 0 } else { w.ch.choose("stream.length", 4) };
                let len = s.content.len() as i64;
                match lm {
                    1 => {
                        // length object before the stream
                        let lid = next_id;
                        next_id += 1;
                        entries.insert(lid, XEntry::InUse { offset: w.out.len(), gen: 0 });
                        w.put(format!("{} 0 obj\n{}\nendobj\n", lid, len).as_bytes());
                        lay.helper_objects.push((si, (lid, 0), Object::Integer(len)));
                        dict.set("Length", Object::Reference((lid, 0)));
                    }
                    2 => {
                        let lid = next_id;
                        next_id += 1;
                        pending_len.push((lid, len));
                        lay.helper_objects.push((si, (lid, 0), Object::Integer(len)));
                        dict.set("Length", Object::Reference((lid, 0)));
                    }
                    3 if spec.style == Style::Stream => {
                        let lid = next_id;
                        next_id += 1;
                        len_in_objstm.push((lid, len));
                        lay.helper_objects.push((si, (lid, 0), Object::Integer(len)));
                        dict.set("Length", Object::Reference((lid, 0)));
                    }
                    _ => {
                        dict.set("Length", Object::Integer(len));
                    }
                }
                entries.insert(id.0, XEntry::InUse { offset: w.out.len(), gen: id.1 });
                w.put(format!("{} {} obj", id.0, id.1).as_bytes());
                w.gap("gap.after_obj", b'<', b"\n");
                w.dict(&dict);
                w.gap("gap.before_stream", b's', b"\n");
                w.put(b"stream");
                if w.ch.choose("stream.eol", 2) == 0 {
                    w.put(b"\n");
                } else {
                    w.put(b"\r\n");
                }
                w.put(&s.content);
                match w.ch.choose("stream.end_eol", 4) {
                    0 => w.put(b"\n"),
                    1 => w.put(b"\r\n"),
                    2 => w.put(b"\r"),
                    _ => {}
                }
                w.put(b"endstream");
                w.gap("gap.before_endobj", b'e', b"\n");
                w.put(b"endobj");
                w.eol("eol.endobj");
            } else {
                entries.insert(id.0, XEntry::InUse { offset: w.out.len(), gen: id.1 });
                w.put(format!("{} {} obj", id.0, id.1).as_bytes());
                w.gap("gap.after_obj", first_byte(obj), b"\n");
                w.object(obj);
                w.gap("gap.before_endobj", b'e', b"\n");
                w.put(b"endobj");
                w.eol("eol.endobj");
            }
            for (lid, len) in pending_len.drain(..) {
                entries.insert(lid, XEntry::InUse { offset: w.out.len(), gen: 0 });
                w.put(format!("{} 0 obj\n{}\nendobj\n", lid, len).as_bytes());
            }
        }
        // object streams
        let mut groups = groups;
        if !len_in_objstm.is_empty() {
            if groups.is_empty() {
                groups.push(vec![]);
            }
        }
        // MALFORMED-but-loadable option (switch "os.length", never a choice point of an exploration): every object stream of the section
        // gets an indirect /Length whose integer lives in one further object stream written last (7.5.7
        // forbids this; readers that tolerate it resolve such containers late)
        let late_lengths = !groups.is_empty() && w.ch.switch("os.length");
        let mut container_lengths: Vec<(u32, i64)> = vec![];
        for (gi, group) in groups.iter().enumerate() {
            let cid = next_id;
            next_id += 1;
            lay.structural.insert(cid);
            let mut members: Vec<(u32, Object)> = if gi == 0 { sec.extra_members.clone() } else { vec![] };
            let n_extra = members.len();
            let mut listed: Vec<(u32, Object)> = group.iter().map(|id| (id.0, sec.objects[id].clone())).collect();
            // the order in which a producer lists the members of an object stream is free
            match w.ch.choose("os.member_order", 3) {
                1 => listed.reverse(),
                2 if listed.len() > 1 => listed.rotate_left(1),
                _ => {}
            }
            members.extend(listed);
            if gi == 0 {
                for (lid, len) in &len_in_objstm {
                    members.push((*lid, Object::Integer(*len)));
                }
            }
            // serialise members
            let mut body: Vec<u8> = vec![];
            let mut offs = vec![];
            let osep = w.ch.choose("os.obj_sep", 3);
            // 7.5.7 does not require white space after the last member: the data may end with its last token
            let no_tail = w.ch.choose("os.tail", 2) == 1;
            let n_members = members.len();
            for (mi, (num, o)) in members.iter().enumerate() {
                offs.push((*num, body.len()));
                let mut sub = W { out: Vec::new(), ch: &mut *w.ch, empty_name_end: usize::MAX };
                sub.object(o);
                body.extend_from_slice(&sub.out);
                if no_tail && mi + 1 == n_members {
                    break;
                }
                body.extend_from_slice(match osep {
                    1 => b"\n",
                    2 => b"\r\n",
                    _ => b" ",
                });
            }
            let isep: &[u8] = match w.ch.choose("os.index_sep", 3) {
                1 => b"\n",
                2 => b"\r\n",
                _ => b" ",
            };
            let mut index: Vec<u8> = vec![];
            for (num, off) in &offs {
                index.extend_from_slice(format!("{}", num).as_bytes());
                index.extend_from_slice(isep);
                index.extend_from_slice(format!("{}", off).as_bytes());
                index.extend_from_slice(isep);
            }
            let first = index.len();
            let mut raw = index;
            raw.extend_from_slice(&body);
            let (data, extra) = structural_filter(w.ch, "os.filter", &raw, 0);
            let mut d = Dictionary::new();
            d.set("Type", Object::Name(b"ObjStm".to_vec()));
            d.set("N", Object::Integer(members.len() as i64));
            d.set("First", Object::Integer(first as i64));
            for (k, v) in extra {
                d.set(k, v);
            }
            if late_lengths {
                let lid = next_id;
                next_id += 1;
                lay.structural.insert(lid);
                container_lengths.push((lid, data.len() as i64));
                d.set("Length", Object::Reference((lid, 0)));
            } else {
                d.set("Length", Object::Integer(data.len() as i64));
            }
            entries.insert(cid, XEntry::InUse { offset: w.out.len(), gen: 0 });
            w.put(format!("{} 0 obj\n", cid).as_bytes());
            let mut plain_chooser = Chooser::new();
            let mut plainw = W { out: Vec::new(), ch: &mut plain_chooser, empty_name_end: usize::MAX };
            plainw.dict(&d);
            w.put(&plainw.out);
            w.put(b"\nstream\n");
            w.put(&data);
            w.put(b"\nendstream\nendobj\n");
            for (i, (num, _)) in members.iter().enumerate() {
                if sec.omit_xref.contains(num) || (gi == 0 && i < n_extra) {
                    continue;
                }
                entries.insert(*num, XEntry::Compressed { container: cid, index: i });
                compressed_map.insert(*num, cid);
            }
        }
        if !container_lengths.is_empty() {
            // the container that holds the other containers' lengths (direct Length, no filter)
            let cid = next_id;
            next_id += 1;
            lay.structural.insert(cid);
            let mut index = String::new();
            let mut body = String::new();
            for (lid, len) in &container_lengths {
                index.push_str(&format!("{} {} ", lid, body.len()));
                body.push_str(&format!("{} ", len));
            }
            let data = format!("{}{}", index, body);
            entries.insert(cid, XEntry::InUse { offset: w.out.len(), gen: 0 });
            w.put(format!("{} 0 obj\n<</Type /ObjStm/N {}/First {}/Length {}>>\nstream\n{}\nendstream\nendobj\n", cid, container_lengths.len(), index.len(), data.len(), data).as_bytes());
            for (i, (lid, _)) in container_lengths.iter().enumerate() {
                entries.insert(*lid, XEntry::Compressed { container: cid, index: i });
                compressed_map.insert(*lid, cid);
            }
        }
        lay.compressed.push(compressed_map);
        // cross-reference section
        let xref_at = w.out.len();
        lay.xref_offsets.push(xref_at);
        let sec_max = entries.keys().max().copied().unwrap_or(0);
        match spec.style {
            Style::Table => {
                known_max = known_max.max(sec_max);
                let size = known_max + 1;
                w.put(b"xref");
                w.eol("eol.xref");
                let form = w.ch.choose("xref.sections", 4);
                let mut nums: Vec<u32> = entries.keys().cloned().collect();
                // an update section may or may not repeat the head of the free list; a section
                // needs at least one subsection, so an empty update always writes it
                let with_zero = base || w.ch.choose("xref.update_zero", 2) == 1 || nums.is_empty();
                if with_zero {
                    nums.insert(0, 0);
                }
                // form 0: maximal runs; 1: one subsection per object; 2: one subsection 0..max with
                // free entries for unused numbers (base only, small files); 3: split the first run
                let mut subs: Vec<Vec<Option<u32>>> = vec![];
                if form == 2 && base && sec_max < 4000 {
                    subs.push((0..=sec_max).map(|n| if n == 0 || entries.contains_key(&n) { Some(n) } else { None }).collect());
                } else {
                    let mut cur: Vec<Option<u32>> = vec![];
                    for (i, n) in nums.iter().enumerate() {
                        let contiguous = i > 0 && nums[i - 1] + 1 == *n;
                        if !cur.is_empty() && (!contiguous || form == 1 || (form == 3 && cur.len() == 1 && subs.is_empty())) {
                            subs.push(std::mem::take(&mut cur));
                        }
                        cur.push(Some(*n));
                    }
                    if !cur.is_empty() {
                        subs.push(cur);
                    }
                }
                for sub in subs {
                    let first = sub.iter().flatten().next().copied().unwrap_or(0);
                    let start = match sub[0] {
                        Some(n) => n,
                        None => first,
                    };
                    w.put(format!("{} {}", start, sub.len()).as_bytes());
                    w.eol("eol.subsection");
                    for (k, n) in sub.iter().enumerate() {
                        let term: &[u8] = match w.ch.choose("xref.entry_eol", 3) {
                            1 => b" \r",
                            2 => b"\r\n",
                            _ => b" \n",
                        };
                        let num = n.unwrap_or(start + k as u32);
                        let line = if num == 0 {
                            format!("{:010} {:05} f", 0, 65535)
                        } else {
                            match entries.get(&num) {
                                Some(XEntry::InUse { offset, gen }) => format!("{:010} {:05} n", offset, gen),
                                _ => format!("{:010} {:05} f", 0, 0),
                            }
                        };
                        w.put(line.as_bytes());
                        w.put(term);
                    }
                }
                w.put(b"trailer");
                w.gap("gap.after_trailer", b'<', b"\n");
                let mut t = sec.trailer.clone();
                t.set("Size", Object::Integer(size as i64));
                if let Some(p) = prev_xref {
                    t.set("Prev", Object::Integer(p as i64));
                }
                w.dict(&t);
                w.eol("eol.trailer");
            }
            Style::Stream => {
                let xid = next_id;
                next_id += 1;
                lay.structural.insert(xid);
                entries.insert(xid, XEntry::InUse { offset: xref_at, gen: 0 });
                known_max = known_max.max(xid).max(sec_max);
                let size = known_max + 1;
                let any_compressed = entries.values().any(|e| matches!(e, XEntry::Compressed { .. }));
                let max_off = xref_at as u64;
                let max_f3 = entries
                    .values()
                    .map(|e| match e {
                        XEntry::InUse { gen, .. } => *gen as u64,
                        XEntry::Compressed { index, .. } => *index as u64,
                        XEntry::Free => 65535,
                    })
                    .max()
                    .unwrap_or(0);
                let max_f2 = entries
                    .values()
                    .map(|e| match e {
                        XEntry::Compressed { container, .. } => *container as u64,
                        _ => 0,
                    })
                    .max()
                    .unwrap_or(0)
                    .max(max_off);
                let iform = w.ch.choose("xs.index", 3);
                let with_zero = base;
                // ranges: list of (start, Vec<entry>)
                let mut nums: Vec<u32> = entries.keys().cloned().collect();
                if with_zero {
                    nums.insert(0, 0);
                }
                let mut ranges: Vec<(u32, Vec<XEntry>)> = vec![];
                let absent_index = iform == 1 && base && size < 4000;
                if absent_index {
                    let v: Vec<XEntry> = (0..size).map(|n| entries.get(&n).cloned().unwrap_or(XEntry::Free)).collect();
                    ranges.push((0, v));
                } else {
                    for (i, n) in nums.iter().enumerate() {
                        let e = if *n == 0 { XEntry::Free } else { entries[n].clone() };
                        let contiguous = i > 0 && nums[i - 1] + 1 == *n;
                        if contiguous && iform != 2 {
                            ranges.last_mut().unwrap().1.push(e);
                        } else {
                            ranges.push((*n, vec![e]));
                        }
                    }
                }
                let has_free = ranges.iter().any(|r| r.1.iter().any(|e| matches!(e, XEntry::Free)));
                let wopt = w.ch.choose("xs.w", 6);
                let mut wd: [usize; 3] = match wopt {
                    1 if max_f2 < 65536 && max_f3 < 256 => [1, 2, 1],
                    2 if max_f2 < (1 << 24) => [1, 3, 2],
                    3 if !any_compressed && !has_free && max_f3 == 0 => [0, 4, 0],
                    4 => [1, 8, 2],
                    5 => [2, 4, 2],
                    _ => [1, 4, 2],
                };
                if max_f2 >= (1u64 << (8 * wd[1] as u32).min(63)) {
                    wd = [1, 4, 2];
                }
                let mut raw: Vec<u8> = vec![];
                let push = |raw: &mut Vec<u8>, v: u64, width: usize| {
                    for k in (0..width).rev() {
                        raw.push(((v >> (8 * k)) & 0xff) as u8);
                    }
                };
                for (_, es) in &ranges {
                    for e in es {
                        let (t, f2, f3) = match e {
                            XEntry::Free => (0u64, 0u64, 65535u64),
                            XEntry::InUse { offset, gen } => (1, *offset as u64, *gen as u64),
                            XEntry::Compressed { container, index } => (2, *container as u64, *index as u64),
                        };
                        push(&mut raw, t, wd[0]);
                        push(&mut raw, f2, wd[1]);
                        push(&mut raw, if wd[2] == 0 { 0 } else { f3 & ((1u64 << (8 * wd[2])) - 1) }, wd[2]);
                    }
                }
                let cols = wd[0] + wd[1] + wd[2];
                let (data, extra) = structural_filter(w.ch, "xs.filter", &raw, cols);
                let mut t = sec.trailer.clone();
                t.set("Type", Object::Name(b"XRef".to_vec()));
                t.set("Size", Object::Integer(size as i64));
                t.set("W", Object::Array(wd.iter().map(|x| Object::Integer(*x as i64)).collect()));
                if !absent_index {
                    let mut idx = vec![];
                    for (s, es) in &ranges {
                        idx.push(Object::Integer(*s as i64));
                        idx.push(Object::Integer(es.len() as i64));
                    }
                    t.set("Index", Object::Array(idx));
                }
                if let Some(p) = prev_xref {
                    t.set("Prev", Object::Integer(p as i64));
                }
                for (k, v) in extra {
                    t.set(k, v);
                }
                t.set("Length", Object::Integer(data.len() as i64));
                w.put(format!("{} 0 obj", xid).as_bytes());
                w.gap("gap.after_obj", b'<', b"\n");
                w.dict(&t);
                w.put(b"\nstream\n");
                w.put(&data);
                w.put(b"\nendstream\nendobj\n");
            }
        }
        // the offset may be written with leading zeros (producers that reserve a fixed-width field and patch it
        // in later); option 2 is that style with CR LF line ends, the longest legal distance between the keyword
        // and %%EOF for a given offset
        let pad = w.ch.choose("num.startxref", 3);
        w.put(b"startxref");
        if pad == 2 {
            w.put(b"\r\n");
            w.put(format!("{:010}", xref_at).as_bytes());
            w.put(b"\r\n");
        } else {
            w.eol("eol.startxref");
            if pad == 1 {
                w.put(format!("{:010}", xref_at).as_bytes());
            } else {
                w.put(format!("{}", xref_at).as_bytes());
            }
            w.eol("eol.startxref_value");
        }
        w.put(b"%%EOF");
        match w.ch.choose("file.tail", 3) {
            1 => w.put(b"\n"),
            2 => w.put(b"\r\n"),
            _ => {}
        }
        prev_xref = Some(xref_at);
        lay.section_ends.push(w.out.len());
    }
    let mut bytes = junk.to_vec();
    bytes.extend_from_slice(&w.out);
    (bytes, lay)
}

/// The objects a reader must recover from the complete file: newest definition of each object
/// of the sections plus helper objects; stream dictionaries carry a direct integer Length.
pub fn expected_objects(spec: &FileSpec, lay: &Layout, upto: usize) -> BTreeMap<ObjectId, Object> {
    let mut m: BTreeMap<ObjectId, Object> = BTreeMap::new();
    for sec in spec.sections.iter().take(upto) {
        for (id, o) in &sec.objects {
            // a newer revision redefining the number (any generation) replaces the old one
            let stale: Vec<ObjectId> = m.keys().filter(|k| k.0 == id.0 && **k != *id).cloned().collect();
            for k in stale {
                m.remove(&k);
            }
            let mut o = o.clone();
            if let Object::Stream(s) = &mut o {
                s.dict.remove(b"VerifDirectLength");
                s.dict.set("Length", Object::Integer(s.content.len() as i64));
            }
            m.insert(*id, o);
        }
    }
    for (si, id, o) in &lay.helper_objects {
        if *si < upto {
            m.insert(*id, o.clone());
        }
    }
    m
}

/// Plain rendering of one indirect object (`n g obj ... endobj` + LF), streams with a direct Length.
pub fn indirect_bytes(id: ObjectId, o: &Object) -> Vec<u8> {
    let mut ch = Chooser::new();
    let mut w = W { out: Vec::new(), ch: &mut ch, empty_name_end: usize::MAX };
    w.put(format!("{} {} obj\n", id.0, id.1).as_bytes());
    match o {
        Object::Stream(s) => {
            let mut d = s.dict.clone();
            d.set("Length", Object::Integer(s.content.len() as i64));
            w.dict(&d);
            w.put(b"\nstream\n");
            w.put(&s.content);
            w.put(b"\nendstream");
        }
        other => w.object(other),
    }
    w.put(b"\nendobj\n");
    w.out
}

/// Plain rendering of a dictionary (for hand-assembled trailers).
pub fn dict_bytes(d: &Dictionary) -> Vec<u8> {
    let mut ch = Chooser::new();
    let mut w = W { out: Vec::new(), ch: &mut ch, empty_name_end: usize::MAX };
    w.dict(d);
    w.out
}
