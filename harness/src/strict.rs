//! Independent strict PDF reader (DESIGN Appendix B.1). Written from ISO 32000-1 §7.2-7.5; shares
//! no code with lopdf's parser. It follows only the file structure (header, startxref,
//! cross-reference sections, offsets, lengths), accounts for every byte, and returns lopdf
//! `Object` values only as a convenient data type for comparison.
use lopdf::{Dictionary, Object, Stream, StringFormat};
use std::collections::{BTreeMap, BTreeSet};

#[derive(Debug, Clone, PartialEq)]
pub enum Entry {
    Free { next: u64, gen: u32 },
    InUse { offset: usize, gen: u16 },
    Compressed { container: u32, index: usize },
}

#[derive(Debug, Clone, PartialEq)]
pub enum XrefKind {
    Table,
    Stream,
}

#[derive(Debug, Clone)]
pub struct Revision {
    pub xref_offset: usize,
    pub kind: XrefKind,
    /// subsections as (first, count)
    pub subsections: Vec<(u32, u32)>,
    pub entries: BTreeMap<u32, Entry>,
    pub trailer: Dictionary,
    /// object number of the cross-reference stream itself (stream style)
    pub xref_stream_id: Option<(u32, u16)>,
    /// end offset (exclusive) of the cross-reference section incl. trailer dictionary
    pub section_end: usize,
}

#[derive(Debug, Clone)]
pub struct StrictDoc {
    pub version: String,
    pub binary_mark: Option<Vec<u8>>,
    /// newest first
    pub revisions: Vec<Revision>,
    /// merged view: newest definition of every object number
    pub objects: BTreeMap<(u32, u16), Object>,
    /// objects by the revision (index into `revisions`) whose cross-reference section defines them
    pub defined_in: BTreeMap<(u32, u16), usize>,
    pub trailer: Dictionary,
    pub startxref: usize,
    pub bytes_accounted: usize,
    /// offset and extent (start, end) of every in-use object of every revision
    pub object_extents: BTreeMap<usize, usize>,
}

#[derive(Debug, Clone, Default)]
pub struct Options {
    /// require the second line to be a comment with >= 4 bytes >= 0x80 (when false an empty
    /// or absent mark is accepted but recorded)
    pub require_binary_mark: bool,
}

type R<T> = Result<T, String>;

pub fn is_ws(c: u8) -> bool {
    matches!(c, 0x00 | 0x09 | 0x0a | 0x0c | 0x0d | 0x20)
}
pub fn is_delim(c: u8) -> bool {
    matches!(c, b'(' | b')' | b'<' | b'>' | b'[' | b']' | b'{' | b'}' | b'/' | b'%')
}
fn is_regular(c: u8) -> bool {
    !is_ws(c) && !is_delim(c)
}

pub struct Lexer<'a> {
    pub b: &'a [u8],
    pub p: usize,
}

impl<'a> Lexer<'a> {
    pub fn new(b: &'a [u8], p: usize) -> Self {
        Lexer { b, p }
    }
    fn peek(&self) -> Option<u8> {
        self.b.get(self.p).copied()
    }
    fn err<T>(&self, m: &str) -> R<T> {
        let lo = self.p.saturating_sub(12);
        let hi = (self.p + 24).min(self.b.len());
        Err(format!("{} at offset {} (context {:?})", m, self.p, String::from_utf8_lossy(&self.b[lo..hi])))
    }
    /// skip white-space and comments
    pub fn skip_ws(&mut self) {
        loop {
            while self.peek().map(is_ws).unwrap_or(false) {
                self.p += 1;
            }
            if self.peek() == Some(b'%') {
                while let Some(c) = self.peek() {
                    if c == b'\r' || c == b'\n' {
                        break;
                    }
                    self.p += 1;
                }
            } else {
                break;
            }
        }
    }
    pub fn skip_ws_only(&mut self) {
        while self.peek().map(is_ws).unwrap_or(false) {
            self.p += 1;
        }
    }
    pub fn starts_with(&self, s: &[u8]) -> bool {
        self.b[self.p.min(self.b.len())..].starts_with(s)
    }
    pub fn expect(&mut self, s: &[u8]) -> R<()> {
        if self.starts_with(s) {
            self.p += s.len();
            Ok(())
        } else {
            self.err(&format!("expected {:?}", String::from_utf8_lossy(s)))
        }
    }
    /// keyword must be followed by a delimiter / white-space / end
    pub fn expect_kw(&mut self, s: &[u8]) -> R<()> {
        self.expect(s)?;
        if self.peek().map(is_regular).unwrap_or(false) {
            return self.err(&format!("keyword {:?} runs into next token", String::from_utf8_lossy(s)));
        }
        Ok(())
    }
    pub fn eol(&mut self) -> R<()> {
        if self.starts_with(b"\r\n") {
            self.p += 2;
            Ok(())
        } else if self.peek() == Some(b'\n') || self.peek() == Some(b'\r') {
            self.p += 1;
            Ok(())
        } else {
            self.err("expected end of line")
        }
    }
    pub fn uint(&mut self) -> R<u64> {
        let s = self.p;
        while self.peek().map(|c| c.is_ascii_digit()).unwrap_or(false) {
            self.p += 1;
        }
        if s == self.p {
            return self.err("expected unsigned integer");
        }
        std::str::from_utf8(&self.b[s..self.p]).unwrap().parse::<u64>().or_else(|_| self.err("integer too large"))
    }

    fn number(&mut self) -> R<Object> {
        let s = self.p;
        if matches!(self.peek(), Some(b'+') | Some(b'-')) {
            self.p += 1;
        }
        let mut digits = 0;
        let mut dot = false;
        while let Some(c) = self.peek() {
            if c.is_ascii_digit() {
                digits += 1;
            } else if c == b'.' && !dot {
                dot = true;
            } else {
                break;
            }
            self.p += 1;
        }
        if digits == 0 {
            self.p = s;
            return self.err("malformed number");
        }
        if self.peek().map(is_regular).unwrap_or(false) {
            return self.err("number runs into regular characters");
        }
        let text = std::str::from_utf8(&self.b[s..self.p]).unwrap();
        if dot {
            text.parse::<f64>().map(|v| Object::Real(v as f32)).or_else(|_| self.err("bad real"))
        } else {
            match text.parse::<i64>() {
                Ok(i) => Ok(Object::Integer(i)),
                // ISO: an integer outside the implementation range is converted to a real
                Err(_) => text.parse::<f64>().map(|v| Object::Real(v as f32)).or_else(|_| self.err("bad integer")),
            }
        }
    }

    fn name(&mut self) -> R<Vec<u8>> {
        self.expect(b"/")?;
        let mut out = vec![];
        while let Some(c) = self.peek() {
            if !is_regular(c) {
                break;
            }
            if c == b'#' {
                let h = self.b.get(self.p + 1..self.p + 3).ok_or("truncated # escape in name")?;
                let hs = std::str::from_utf8(h).map_err(|_| "bad # escape".to_string())?;
                let v = u8::from_str_radix(hs, 16).or_else(|_| self.err("bad # escape in name"))?;
                out.push(v);
                self.p += 3;
            } else {
                out.push(c);
                self.p += 1;
            }
        }
        Ok(out)
    }

    fn literal_string(&mut self) -> R<Vec<u8>> {
        self.expect(b"(")?;
        let mut out = vec![];
        let mut depth = 1usize;
        loop {
            let c = match self.peek() {
                Some(c) => c,
                None => return self.err("unterminated literal string"),
            };
            self.p += 1;
            match c {
                b'(' => {
                    depth += 1;
                    out.push(c);
                }
                b')' => {
                    depth -= 1;
                    if depth == 0 {
                        return Ok(out);
                    }
                    out.push(c);
                }
                b'\r' => {
                    // bare end-of-line inside a string denotes a single LF
                    if self.peek() == Some(b'\n') {
                        self.p += 1;
                    }
                    out.push(b'\n');
                }
                b'\\' => {
                    let e = match self.peek() {
                        Some(e) => e,
                        None => return self.err("unterminated escape"),
                    };
                    self.p += 1;
                    match e {
                        b'n' => out.push(b'\n'),
                        b'r' => out.push(b'\r'),
                        b't' => out.push(b'\t'),
                        b'b' => out.push(8),
                        b'f' => out.push(12),
                        b'(' | b')' | b'\\' => out.push(e),
                        b'\r' => {
                            if self.peek() == Some(b'\n') {
                                self.p += 1;
                            }
                        }
                        b'\n' => {}
                        b'0'..=b'7' => {
                            let mut v: u32 = (e - b'0') as u32;
                            for _ in 0..2 {
                                match self.peek() {
                                    Some(d @ b'0'..=b'7') => {
                                        v = v * 8 + (d - b'0') as u32;
                                        self.p += 1;
                                    }
                                    _ => break,
                                }
                            }
                            out.push((v & 0xff) as u8);
                        }
                        // unknown escape: the backslash is ignored
                        other => out.push(other),
                    }
                }
                _ => out.push(c),
            }
        }
    }

    fn hex_string(&mut self) -> R<Vec<u8>> {
        self.expect(b"<")?;
        let mut nibbles = vec![];
        loop {
            let c = match self.peek() {
                Some(c) => c,
                None => return self.err("unterminated hex string"),
            };
            self.p += 1;
            if c == b'>' {
                break;
            }
            if is_ws(c) {
                continue;
            }
            let v = (c as char).to_digit(16).ok_or_else(|| format!("bad hex digit {:?} at {}", c as char, self.p - 1))?;
            nibbles.push(v as u8);
        }
        if nibbles.len() % 2 == 1 {
            nibbles.push(0);
        }
        Ok(nibbles.chunks(2).map(|c| (c[0] << 4) | c[1]).collect())
    }

    /// Parse one direct object (no streams).
    pub fn object(&mut self, depth: usize) -> R<Object> {
        if depth > 200 {
            return self.err("nesting too deep");
        }
        self.skip_ws();
        let c = match self.peek() {
            Some(c) => c,
            None => return self.err("unexpected end of input"),
        };
        match c {
            b'/' => Ok(Object::Name(self.name()?)),
            b'(' => Ok(Object::String(self.literal_string()?, StringFormat::Literal)),
            b'<' => {
                if self.starts_with(b"<<") {
                    Ok(Object::Dictionary(self.dictionary(depth)?))
                } else {
                    Ok(Object::String(self.hex_string()?, StringFormat::Hexadecimal))
                }
            }
            b'[' => {
                self.p += 1;
                let mut items = vec![];
                loop {
                    self.skip_ws();
                    if self.peek() == Some(b']') {
                        self.p += 1;
                        return Ok(Object::Array(items));
                    }
                    items.push(self.object(depth + 1)?);
                }
            }
            b'+' | b'-' | b'.' | b'0'..=b'9' => {
                let first = self.number()?;
                // reference look-ahead: <uint> <uint> R
                if let Object::Integer(n) = first {
                    if n >= 0 && c.is_ascii_digit() {
                        let save = self.p;
                        self.skip_ws();
                        if self.peek().map(|d| d.is_ascii_digit()).unwrap_or(false) {
                            if let Ok(g) = self.uint() {
                                self.skip_ws();
                                if self.peek() == Some(b'R') && !self.b.get(self.p + 1).map(|&x| is_regular(x)).unwrap_or(false) {
                                    self.p += 1;
                                    if n > u32::MAX as i64 || g > 65535 {
                                        return self.err("reference out of range");
                                    }
                                    return Ok(Object::Reference((n as u32, g as u16)));
                                }
                            }
                        }
                        self.p = save;
                    }
                }
                Ok(first)
            }
            _ => {
                if self.starts_with(b"true") {
                    self.expect_kw(b"true")?;
                    Ok(Object::Boolean(true))
                } else if self.starts_with(b"false") {
                    self.expect_kw(b"false")?;
                    Ok(Object::Boolean(false))
                } else if self.starts_with(b"null") {
                    self.expect_kw(b"null")?;
                    Ok(Object::Null)
                } else {
                    self.err("unexpected token")
                }
            }
        }
    }

    pub fn dictionary(&mut self, depth: usize) -> R<Dictionary> {
        self.expect(b"<<")?;
        let mut d = Dictionary::new();
        loop {
            self.skip_ws();
            if self.starts_with(b">>") {
                self.p += 2;
                return Ok(d);
            }
            if self.peek() != Some(b'/') {
                return self.err("dictionary key must be a name");
            }
            let k = self.name()?;
            let v = self.object(depth + 1)?;
            if d.has(&k) {
                return self.err("duplicate dictionary key");
            }
            d.set(k, v);
        }
    }
}

struct Ctx<'a> {
    b: &'a [u8],
    /// merged newest-first cross-reference (for resolving indirect Length)
    merged: BTreeMap<u32, Entry>,
    covered: Vec<(usize, usize, &'static str)>,
}

/// Parse `n g obj ... endobj` at `offset`; returns (id, object, end offset after endobj + EOL).
fn indirect_at(ctx: &Ctx, offset: usize, resolving: &mut BTreeSet<u32>) -> R<((u32, u16), Object, usize)> {
    let b = ctx.b;
    if offset >= b.len() {
        return Err(format!("object offset {} beyond end of file", offset));
    }
    let mut lx = Lexer::new(b, offset);
    if !lx.peek().map(|c| c.is_ascii_digit()).unwrap_or(false) {
        return lx.err("in-use entry does not point at an object header 'n g obj'");
    }
    let n = lx.uint()?;
    lx.skip_ws_only();
    let g = lx.uint()?;
    lx.skip_ws_only();
    lx.expect_kw(b"obj")?;
    if n > u32::MAX as u64 || g > 65535 {
        return Err(format!("object id out of range at {}", offset));
    }
    let mut obj = lx.object(0)?;
    lx.skip_ws();
    if let Object::Dictionary(dict) = &obj {
        if lx.starts_with(b"stream") {
            lx.expect(b"stream")?;
            // exactly CRLF or LF after the keyword
            if lx.starts_with(b"\r\n") {
                lx.p += 2;
            } else if lx.peek() == Some(b'\n') {
                lx.p += 1;
            } else {
                return lx.err("'stream' keyword must be followed by CRLF or LF");
            }
            let len = match dict.get(b"Length") {
                Ok(Object::Integer(l)) => *l,
                Ok(Object::Reference(r)) => resolve_length(ctx, *r, resolving)?,
                Ok(_) => return Err(format!("stream {} {}: Length is neither integer nor reference", n, g)),
                Err(_) => return Err(format!("stream {} {}: missing Length", n, g)),
            };
            if len < 0 || lx.p + len as usize > b.len() {
                return Err(format!("stream {} {}: Length {} runs past end of file", n, g, len));
            }
            let start = lx.p;
            let content = b[start..start + len as usize].to_vec();
            lx.p = start + len as usize;
            // optional EOL, then endstream: this is how Length is validated against the actual bytes
            if lx.starts_with(b"\r\n") {
                lx.p += 2;
            } else if lx.peek() == Some(b'\n') || lx.peek() == Some(b'\r') {
                lx.p += 1;
            }
            if !lx.starts_with(b"endstream") {
                return lx.err(&format!(
                    "stream {} {}: Length {} does not end at 'endstream' (Length must equal the bytes between 'stream' EOL and 'endstream')",
                    n, g, len
                ));
            }
            lx.expect_kw(b"endstream")?;
            lx.skip_ws();
            obj = Object::Stream(Stream {
                dict: dict.clone(),
                content,
                allows_compression: true,
                start_position: None,
            });
        }
    }
    lx.expect_kw(b"endobj")?;
    // one optional EOL belongs to the object
    if lx.starts_with(b"\r\n") {
        lx.p += 2;
    } else if lx.peek() == Some(b'\n') || lx.peek() == Some(b'\r') {
        lx.p += 1;
    }
    Ok(((n as u32, g as u16), obj, lx.p))
}

fn resolve_length(ctx: &Ctx, r: (u32, u16), resolving: &mut BTreeSet<u32>) -> R<i64> {
    if !resolving.insert(r.0) {
        return Err(format!("Length reference cycle through {} {}", r.0, r.1));
    }
    let res = match ctx.merged.get(&r.0) {
        Some(Entry::InUse { offset, gen }) if *gen == r.1 => {
            let (_, o, _) = indirect_at(ctx, *offset, resolving)?;
            match o {
                Object::Integer(i) => Ok(i),
                _ => Err(format!("indirect Length {} {} is not an integer", r.0, r.1)),
            }
        }
        Some(Entry::Compressed { container, index }) => {
            let objs = object_stream(ctx, *container, resolving)?;
            match objs.get(*index) {
                Some((num, Object::Integer(i))) if *num == r.0 => Ok(*i),
                _ => Err(format!("indirect Length {} {} not found in object stream {}", r.0, r.1, container)),
            }
        }
        _ => Err(format!("indirect Length {} {} has no in-use entry", r.0, r.1)),
    };
    resolving.remove(&r.0);
    res
}

/// Decode an object stream container: list of (object number, object) in index order.
fn object_stream(ctx: &Ctx, container: u32, resolving: &mut BTreeSet<u32>) -> R<Vec<(u32, Object)>> {
    let (offset, gen) = match ctx.merged.get(&container) {
        Some(Entry::InUse { offset, gen }) => (*offset, *gen),
        _ => return Err(format!("object stream {} is not an in-use object", container)),
    };
    if gen != 0 {
        return Err(format!("object stream {} has non-zero generation", container));
    }
    let (_, o, _) = indirect_at(ctx, offset, resolving)?;
    let s = match o {
        Object::Stream(s) => s,
        _ => return Err(format!("object stream {} is not a stream", container)),
    };
    if s.dict.get(b"Type").and_then(Object::as_name).ok() != Some(b"ObjStm") {
        return Err(format!("object stream {} lacks /Type /ObjStm", container));
    }
    let n = s.dict.get(b"N").and_then(Object::as_i64).map_err(|_| format!("object stream {}: bad N", container))?;
    let first = s.dict.get(b"First").and_then(Object::as_i64).map_err(|_| format!("object stream {}: bad First", container))?;
    let data = decode_stream_data(&s)?;
    if n < 0 || first < 0 || first as usize > data.len() {
        return Err(format!("object stream {}: N/First out of range", container));
    }
    let mut lx = Lexer::new(&data, 0);
    let mut pairs = vec![];
    for _ in 0..n {
        lx.skip_ws_only();
        let num = lx.uint()?;
        lx.skip_ws_only();
        let off = lx.uint()?;
        pairs.push((num as u32, off as usize));
    }
    lx.skip_ws_only();
    if lx.p > first as usize {
        return Err(format!("object stream {}: index block longer than First", container));
    }
    let mut out = vec![];
    for (num, off) in pairs {
        let mut ol = Lexer::new(&data, first as usize + off);
        let obj = ol.object(0).map_err(|e| format!("object stream {} object {}: {}", container, num, e))?;
        out.push((num, obj));
    }
    Ok(out)
}

// -- small independent decoders for structural streams ---------------------------------------

pub fn ascii85_decode(input: &[u8]) -> R<Vec<u8>> {
    let mut out = vec![];
    let mut group: Vec<u8> = vec![];
    let mut i = 0;
    while i < input.len() {
        let c = input[i];
        i += 1;
        if is_ws(c) {
            continue;
        }
        if c == b'~' {
            break;
        }
        if c == b'z' && group.is_empty() {
            out.extend_from_slice(&[0, 0, 0, 0]);
            continue;
        }
        if !(b'!'..=b'u').contains(&c) {
            return Err("bad ASCII85 character".into());
        }
        group.push(c - b'!');
        if group.len() == 5 {
            let mut v: u64 = 0;
            for d in &group {
                v = v * 85 + *d as u64;
            }
            if v > u32::MAX as u64 {
                return Err("ASCII85 group overflow".into());
            }
            out.extend_from_slice(&(v as u32).to_be_bytes());
            group.clear();
        }
    }
    if !group.is_empty() {
        if group.len() == 1 {
            return Err("ASCII85 final group of one character".into());
        }
        let n = group.len();
        while group.len() < 5 {
            group.push(84);
        }
        let mut v: u64 = 0;
        for d in &group {
            v = v * 85 + *d as u64;
        }
        let bytes = ((v & 0xffff_ffff) as u32).to_be_bytes();
        out.extend_from_slice(&bytes[..n - 1]);
    }
    Ok(out)
}

fn paeth(a: i32, b: i32, c: i32) -> i32 {
    let p = a + b - c;
    let (pa, pb, pc) = ((p - a).abs(), (p - b).abs(), (p - c).abs());
    if pa <= pb && pa <= pc {
        a
    } else if pb <= pc {
        b
    } else {
        c
    }
}

pub fn png_unpredict(data: &[u8], columns: usize, colors: usize, bpc: usize) -> R<Vec<u8>> {
    let bpp = (colors * bpc).div_ceil(8).max(1);
    let row = (columns * colors * bpc).div_ceil(8);
    if row == 0 || data.len() % (row + 1) != 0 {
        return Err(format!("predictor data length {} is not a multiple of row length {}+1", data.len(), row));
    }
    let mut out: Vec<u8> = Vec::with_capacity(data.len());
    let mut prev = vec![0u8; row];
    for chunk in data.chunks(row + 1) {
        let ft = chunk[0];
        let mut cur = vec![0u8; row];
        for i in 0..row {
            let x = chunk[1 + i] as i32;
            let a = if i >= bpp { cur[i - bpp] as i32 } else { 0 };
            let b = prev[i] as i32;
            let c = if i >= bpp { prev[i - bpp] as i32 } else { 0 };
            let v = match ft {
                0 => x,
                1 => x + a,
                2 => x + b,
                3 => x + (a + b) / 2,
                4 => x + paeth(a, b, c),
                _ => return Err(format!("bad PNG filter type {}", ft)),
            };
            cur[i] = (v & 0xff) as u8;
        }
        out.extend_from_slice(&cur);
        prev = cur;
    }
    Ok(out)
}

fn filter_names(d: &Dictionary) -> R<Vec<Vec<u8>>> {
    match d.get(b"Filter") {
        Err(_) => Ok(vec![]),
        Ok(Object::Name(n)) => Ok(vec![n.clone()]),
        Ok(Object::Array(a)) => a
            .iter()
            .map(|o| o.as_name().map(|n| n.to_vec()).map_err(|_| "Filter array element is not a name".to_string()))
            .collect(),
        Ok(_) => Err("Filter is neither name nor array".into()),
    }
}

fn parms_for(d: &Dictionary, i: usize, n: usize) -> Option<Dictionary> {
    match d.get(b"DecodeParms") {
        Ok(Object::Dictionary(p)) if n == 1 || i == 0 => {
            if n == 1 {
                Some(p.clone())
            } else {
                None
            }
        }
        Ok(Object::Array(a)) => match a.get(i) {
            Some(Object::Dictionary(p)) => Some(p.clone()),
            _ => None,
        },
        _ => None,
    }
}

/// Decode the data of a structural stream (cross-reference / object stream) with the filters
/// the reference writer can emit: FlateDecode (+PNG predictor), ASCII85Decode.
pub fn decode_stream_data(s: &Stream) -> R<Vec<u8>> {
    let filters = filter_names(&s.dict)?;
    let mut data = s.content.clone();
    let n = filters.len();
    for (i, f) in filters.iter().enumerate() {
        match f.as_slice() {
            b"FlateDecode" => {
                use std::io::Read;
                let mut out = vec![];
                flate2::read::ZlibDecoder::new(data.as_slice())
                    .read_to_end(&mut out)
                    .map_err(|e| format!("Flate error: {}", e))?;
                data = out;
                if let Some(p) = parms_for(&s.dict, i, n) {
                    let pred = p.get(b"Predictor").and_then(Object::as_i64).unwrap_or(1);
                    if pred >= 10 {
                        let cols = p.get(b"Columns").and_then(Object::as_i64).unwrap_or(1) as usize;
                        let colors = p.get(b"Colors").and_then(Object::as_i64).unwrap_or(1) as usize;
                        let bpc = p.get(b"BitsPerComponent").and_then(Object::as_i64).unwrap_or(8) as usize;
                        data = png_unpredict(&data, cols, colors, bpc)?;
                    } else if pred != 1 {
                        return Err("unsupported predictor".into());
                    }
                }
            }
            b"ASCII85Decode" => data = ascii85_decode(&data)?,
            other => return Err(format!("strict reader does not decode filter {}", String::from_utf8_lossy(other))),
        }
    }
    Ok(data)
}

fn be(bytes: &[u8]) -> u64 {
    bytes.iter().fold(0u64, |a, b| (a << 8) | *b as u64)
}

/// Parse the cross-reference section at `offset`.
fn xref_section(ctx: &mut Ctx, offset: usize, first_revision_hint: bool) -> R<Revision> {
    let b = ctx.b;
    let mut lx = Lexer::new(b, offset);
    if lx.starts_with(b"xref") {
        lx.expect(b"xref")?;
        lx.eol()?;
        let mut entries = BTreeMap::new();
        let mut subsections = vec![];
        loop {
            if lx.starts_with(b"trailer") {
                break;
            }
            let first = lx.uint()?;
            lx.expect(b" ")?;
            let count = lx.uint()?;
            lx.eol()?;
            if first + count > u32::MAX as u64 + 1 {
                return lx.err("subsection out of range");
            }
            subsections.push((first as u32, count as u32));
            for i in 0..count {
                let e = b.get(lx.p..lx.p + 20).ok_or_else(|| format!("truncated xref entry at {}", lx.p))?;
                let ok = e[..10].iter().all(|c| c.is_ascii_digit())
                    && e[10] == b' '
                    && e[11..16].iter().all(|c| c.is_ascii_digit())
                    && e[16] == b' '
                    && (e[17] == b'n' || e[17] == b'f')
                    && (&e[18..20] == b" \n" || &e[18..20] == b" \r" || &e[18..20] == b"\r\n");
                if !ok {
                    return Err(format!(
                        "xref entry at {} is not 'nnnnnnnnnn ggggg n|f' + 2-byte EOL: {:?}",
                        lx.p,
                        String::from_utf8_lossy(e)
                    ));
                }
                let off: u64 = std::str::from_utf8(&e[..10]).unwrap().parse().unwrap();
                let gen: u32 = std::str::from_utf8(&e[11..16]).unwrap().parse().unwrap();
                let num = (first + i) as u32;
                if entries.contains_key(&num) {
                    return Err(format!("object {} listed twice in one cross-reference section", num));
                }
                if e[17] == b'n' {
                    if gen > 65535 {
                        return Err("generation out of range".into());
                    }
                    entries.insert(num, Entry::InUse { offset: off as usize, gen: gen as u16 });
                } else {
                    entries.insert(num, Entry::Free { next: off, gen });
                }
                lx.p += 20;
            }
        }
        if subsections.is_empty() {
            return Err(format!("cross-reference table at {} has no subsection", offset));
        }
        lx.expect_kw(b"trailer")?;
        lx.skip_ws();
        let trailer = lx.dictionary(0)?;
        if first_revision_hint || trailer.get(b"Prev").is_err() {
            match entries.get(&0) {
                Some(Entry::Free { gen: 65535, .. }) => {}
                other => return Err(format!("first cross-reference table must start with free entry 0 of generation 65535, found {:?}", other)),
            }
        }
        ctx.covered.push((offset, lx.p, "xref table + trailer"));
        Ok(Revision {
            xref_offset: offset,
            kind: XrefKind::Table,
            subsections,
            entries,
            trailer,
            xref_stream_id: None,
            section_end: lx.p,
        })
    } else {
        // cross-reference stream; its Length must be direct
        let tmp = Ctx { b, merged: BTreeMap::new(), covered: vec![] };
        let (id, obj, end) = indirect_at(&tmp, offset, &mut BTreeSet::new())
            .map_err(|e| format!("startxref/Prev offset {} is neither 'xref' nor a cross-reference stream: {}", offset, e))?;
        let s = match obj {
            Object::Stream(s) => s,
            _ => return Err(format!("object at cross-reference offset {} is not a stream", offset)),
        };
        if s.dict.get(b"Type").and_then(Object::as_name).ok() != Some(b"XRef") {
            return Err("cross-reference stream lacks /Type /XRef".into());
        }
        let size = s.dict.get(b"Size").and_then(Object::as_i64).map_err(|_| "xref stream: missing Size".to_string())?;
        let w: Vec<i64> = match s.dict.get(b"W") {
            Ok(Object::Array(a)) if a.len() == 3 => a.iter().map(|o| o.as_i64().unwrap_or(-1)).collect(),
            _ => return Err("xref stream: W must be an array of three integers".into()),
        };
        if w.iter().any(|x| *x < 0 || *x > 8) {
            return Err("xref stream: W entries must be 0..8".into());
        }
        let index: Vec<i64> = match s.dict.get(b"Index") {
            Ok(Object::Array(a)) => {
                if a.len() % 2 != 0 {
                    return Err("xref stream: Index must hold pairs".into());
                }
                a.iter().map(|o| o.as_i64().unwrap_or(-1)).collect()
            }
            Ok(_) => return Err("xref stream: Index is not an array".into()),
            Err(_) => vec![0, size],
        };
        if index.iter().any(|x| *x < 0) {
            return Err("xref stream: negative Index".into());
        }
        let data = decode_stream_data(&s)?;
        let wsum = (w[0] + w[1] + w[2]) as usize;
        let total: i64 = index.chunks(2).map(|c| c[1]).sum();
        if data.len() != wsum * total as usize {
            return Err(format!(
                "xref stream: data length {} != sum(W) {} x entries {} (W, Index and Length must be mutually consistent)",
                data.len(),
                wsum,
                total
            ));
        }
        let mut entries = BTreeMap::new();
        let mut subsections = vec![];
        let mut p = 0usize;
        for c in index.chunks(2) {
            subsections.push((c[0] as u32, c[1] as u32));
            for i in 0..c[1] {
                let num = (c[0] + i) as u32;
                let f1 = if w[0] == 0 { 1 } else { be(&data[p..p + w[0] as usize]) };
                p += w[0] as usize;
                let f2 = be(&data[p..p + w[1] as usize]);
                p += w[1] as usize;
                let f3 = if w[2] == 0 { 0 } else { be(&data[p..p + w[2] as usize]) };
                p += w[2] as usize;
                if entries.contains_key(&num) {
                    return Err(format!("object {} listed twice in one cross-reference stream", num));
                }
                match f1 {
                    0 => {
                        entries.insert(num, Entry::Free { next: f2, gen: f3 as u32 });
                    }
                    1 => {
                        if f3 > 65535 {
                            return Err("generation out of range".into());
                        }
                        entries.insert(num, Entry::InUse { offset: f2 as usize, gen: f3 as u16 });
                    }
                    2 => {
                        entries.insert(num, Entry::Compressed { container: f2 as u32, index: f3 as usize });
                    }
                    t => return Err(format!("xref stream: unknown entry type {}", t)),
                }
            }
        }
        // the stream's own entry, if present, must point at itself
        if let Some(Entry::InUse { offset: o, .. }) = entries.get(&id.0) {
            if *o != offset {
                return Err(format!("cross-reference stream {} lists itself at offset {} but is at {}", id.0, o, offset));
            }
        }
        ctx.covered.push((offset, end, "xref stream"));
        let mut trailer = s.dict.clone();
        for k in [&b"Length"[..], b"W", b"Index", b"Filter", b"DecodeParms"] {
            trailer.remove(k);
        }
        Ok(Revision {
            xref_offset: offset,
            kind: XrefKind::Stream,
            subsections,
            entries,
            trailer,
            xref_stream_id: Some(id),
            section_end: end,
        })
    }
}

/// Read a complete file strictly. The header must be at offset 0.
pub fn read(bytes: &[u8], opts: &Options) -> R<StrictDoc> {
    let b = bytes;
    if !b.starts_with(b"%PDF-") {
        return Err("file does not start with %PDF-".into());
    }
    let mut lx = Lexer::new(b, 5);
    let vs = lx.p;
    while lx.peek().map(|c| c != b'\r' && c != b'\n').unwrap_or(false) {
        lx.p += 1;
    }
    let version = String::from_utf8(b[vs..lx.p].to_vec()).map_err(|_| "version is not UTF-8".to_string())?;
    lx.eol()?;
    let mut covered: Vec<(usize, usize, &'static str)> = vec![(0, lx.p, "header")];
    // binary comment on the second line
    let mut binary_mark = None;
    if lx.peek() == Some(b'%') && !lx.starts_with(b"%%EOF") {
        let s = lx.p;
        lx.p += 1;
        let ms = lx.p;
        while lx.peek().map(|c| c != b'\r' && c != b'\n').unwrap_or(false) {
            lx.p += 1;
        }
        binary_mark = Some(b[ms..lx.p].to_vec());
        lx.eol()?;
        covered.push((s, lx.p, "binary comment"));
    }
    if opts.require_binary_mark {
        match &binary_mark {
            Some(m) if m.len() >= 4 && m.iter().all(|c| *c >= 0x80) => {}
            other => return Err(format!("binary comment with >= 4 high bytes required on line 2, found {:?}", other)),
        }
    }
    // tail: startxref EOL digits EOL %%EOF [EOL]
    let mut end = b.len();
    if b[..end].ends_with(b"\r\n") {
        end -= 2;
    } else if b[..end].ends_with(b"\n") || b[..end].ends_with(b"\r") {
        end -= 1;
    }
    if !b[..end].ends_with(b"%%EOF") {
        return Err("file does not end with %%EOF".into());
    }
    let eof_at = end - 5;
    let mut q = eof_at;
    if b[..q].ends_with(b"\r\n") {
        q -= 2;
    } else if b[..q].ends_with(b"\n") || b[..q].ends_with(b"\r") {
        q -= 1;
    } else {
        return Err("%%EOF is not at the start of a line".into());
    }
    let de = q;
    while q > 0 && b[q - 1].is_ascii_digit() {
        q -= 1;
    }
    if q == de {
        return Err("no offset between startxref and %%EOF".into());
    }
    let startxref: usize = std::str::from_utf8(&b[q..de]).unwrap().parse().map_err(|_| "startxref offset too large".to_string())?;
    if b[..q].ends_with(b"\r\n") {
        q -= 2;
    } else if b[..q].ends_with(b"\n") || b[..q].ends_with(b"\r") {
        q -= 1;
    } else {
        return Err("startxref offset is not on its own line".into());
    }
    if !b[..q].ends_with(b"startxref") {
        return Err("keyword startxref not found before the offset".into());
    }
    let sx_at = q - 9;
    if sx_at > 0 && !(b[sx_at - 1] == b'\n' || b[sx_at - 1] == b'\r') {
        return Err("startxref is not at the start of a line".into());
    }
    covered.push((sx_at, b.len(), "startxref..%%EOF"));

    // follow the Prev chain
    let mut ctx = Ctx { b, merged: BTreeMap::new(), covered };
    let mut revisions: Vec<Revision> = vec![];
    let mut off = startxref;
    let mut seen = BTreeSet::new();
    loop {
        if !seen.insert(off) {
            return Err("Prev chain loops".into());
        }
        if off >= b.len() {
            return Err(format!("cross-reference offset {} beyond end of file", off));
        }
        let rev = xref_section(&mut ctx, off, false)?;
        let prev = match rev.trailer.get(b"Prev") {
            Ok(Object::Integer(p)) => Some(*p),
            Ok(_) => return Err("Prev is not an integer".into()),
            Err(_) => None,
        };
        if rev.trailer.has(b"XRefStm") {
            return Err("hybrid-reference file (XRefStm) is outside the strict reader's domain".into());
        }
        revisions.push(rev);
        match prev {
            Some(p) => {
                if p < 0 || p as usize >= off {
                    return Err(format!("Prev {} does not point before the current section at {}", p, off));
                }
                off = p as usize;
            }
            None => break,
        }
    }
    // older revisions end with their own 'startxref <offset> %%EOF' block
    for rev in revisions.iter().skip(1) {
        let mut l = Lexer::new(b, rev.section_end);
        l.skip_ws();
        if l.starts_with(b"startxref") {
            let s0 = l.p;
            l.expect_kw(b"startxref")?;
            l.skip_ws_only();
            let v = l.uint()?;
            if v as usize != rev.xref_offset {
                return Err(format!("older revision's startxref {} does not match its section offset {}", v, rev.xref_offset));
            }
            l.skip_ws_only();
            l.expect(b"%%EOF")?;
            ctx.covered.push((s0, l.p, "older startxref..%%EOF"));
        } else {
            return Err(format!("cross-reference section at {} is not followed by startxref", rev.xref_offset));
        }
    }
    // merged cross-reference, newest first
    for rev in &revisions {
        for (n, e) in &rev.entries {
            ctx.merged.entry(*n).or_insert_with(|| e.clone());
        }
    }
    // Size exceeds every object number known at that revision
    for (i, rev) in revisions.iter().enumerate() {
        let size = rev.trailer.get(b"Size").and_then(Object::as_i64).map_err(|_| format!("revision {}: trailer lacks integer Size", i))?;
        let max_num = revisions[i..].iter().flat_map(|r| r.entries.keys()).max().copied().unwrap_or(0);
        if size <= max_num as i64 {
            return Err(format!("revision {}: Size {} does not exceed the highest object number {}", i, size, max_num));
        }
        if let Some((n, _)) = rev.xref_stream_id {
            if size <= n as i64 {
                return Err(format!("revision {}: Size {} does not exceed the cross-reference stream's own number {}", i, size, n));
            }
        }
    }
    // every in-use entry of every revision points at its object header
    let mut objects: BTreeMap<(u32, u16), Object> = BTreeMap::new();
    let mut defined_in = BTreeMap::new();
    let mut extents: BTreeMap<usize, usize> = BTreeMap::new();
    let mut taken: BTreeSet<u32> = BTreeSet::new();
    for (ri, rev) in revisions.iter().enumerate() {
        for (num, e) in &rev.entries {
            match e {
                Entry::InUse { offset, gen } => {
                    let (id, obj, end) = indirect_at(&ctx, *offset, &mut BTreeSet::new())
                        .map_err(|e| format!("object {} {} (revision {}): {}", num, gen, ri, e))?;
                    if id != (*num, *gen) {
                        return Err(format!(
                            "entry for object {} {} points at offset {} where object {} {} is found",
                            num, gen, offset, id.0, id.1
                        ));
                    }
                    if let Some(prev_end) = extents.get(offset) {
                        if *prev_end != end {
                            return Err("inconsistent object extent".into());
                        }
                    } else {
                        extents.insert(*offset, end);
                        if Some(id) != rev.xref_stream_id {
                            ctx.covered.push((*offset, end, "object"));
                        }
                    }
                    if taken.insert(*num) {
                        objects.insert(id, obj);
                        defined_in.insert(id, ri);
                    }
                }
                Entry::Compressed { container, index } => {
                    if taken.insert(*num) {
                        let objs = object_stream(&ctx, *container, &mut BTreeSet::new())?;
                        match objs.get(*index) {
                            Some((n, o)) if *n == *num => {
                                objects.insert((*num, 0), o.clone());
                                defined_in.insert((*num, 0), ri);
                            }
                            other => {
                                return Err(format!(
                                    "compressed entry {} -> container {} index {}: found {:?}",
                                    num,
                                    container,
                                    index,
                                    other.map(|x| x.0)
                                ))
                            }
                        }
                    }
                }
                Entry::Free { .. } => {
                    taken.insert(*num);
                }
            }
        }
    }
    // byte accounting: constructs must not overlap; everything else must be white-space or comments
    let mut cov = ctx.covered.clone();
    cov.sort();
    let mut pos = 0usize;
    let mut accounted = 0usize;
    for (s, e, what) in &cov {
        if *s < pos {
            return Err(format!("{} at {}..{} overlaps the preceding construct ending at {}", what, s, e, pos));
        }
        check_gap(b, pos, *s)?;
        accounted += (e - s) + (s - pos);
        pos = *e;
    }
    check_gap(b, pos, b.len())?;
    accounted += b.len() - pos;
    let trailer = revisions[0].trailer.clone();
    Ok(StrictDoc {
        version,
        binary_mark,
        revisions,
        objects,
        defined_in,
        trailer,
        startxref,
        bytes_accounted: accounted,
        object_extents: extents,
    })
}

/// Bytes between constructs may only be white-space and comment lines.
fn check_gap(b: &[u8], from: usize, to: usize) -> R<()> {
    let mut lx = Lexer::new(&b[..to], from);
    lx.skip_ws();
    if lx.p < to {
        let hi = (lx.p + 40).min(to);
        return Err(format!(
            "unaccounted bytes at {}..{}: {:?} (not reachable from any cross-reference entry)",
            lx.p,
            to,
            String::from_utf8_lossy(&b[lx.p..hi])
        ));
    }
    Ok(())
}
