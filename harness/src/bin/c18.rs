//! C18 - dates convert to PDF date strings and back (DESIGN §4 C18).
//!
//! Space: all 2,879 UTC offsets -23:59..+23:59 x the instants menu (read once as UTC instants and
//! once as local civil times) x writer types {chrono DateTime<Utc>, chrono DateTime<Local> (child
//! process per offset, zone set through TZ), jiff Zoned (fixed offset), jiff Timestamp, time
//! OffsetDateTime} x reader types {chrono DateTime<Local>, jiff Zoned, time OffsetDateTime}.
//! Oracle: reference formatting in `vharness::refdate` (integer arithmetic, no date-time crate).
#[cfg(not(feature = "par"))]
fn main() {
    eprintln!("MACHINERY: C18 needs the default feature set (date-time backends)");
    std::process::exit(2);
}

#[cfg(feature = "par")]
fn main() {
    imp::main()
}

#[cfg(feature = "par")]
mod imp {
    use lopdf::Object;
    use serde_json::{json, Map, Value};
    use std::collections::{BTreeMap, HashSet};
    use std::sync::Mutex;
    use vharness::refdate as rd;
    use vharness::run::fnv;
    use vharness::{util, Mode, Run};

    const FINDING_TIME: &str = "time-backend-short-forms";
    const MAX_OFF: i32 = 23 * 60 + 59;

    /// Instants menu (civil fields; read both as UTC and as local civil time of each offset).
    /// The first nine are the menu of DESIGN §4 C18; the last three are additions: a non-leap century
    /// February, a leap day at 23:59:59 and the last second jiff can hold under every offset.
    const MENU: [(i64, i64, i64, i64, i64, i64); 12] = [
        (1, 1, 1, 0, 0, 0),
        (999, 12, 31, 23, 59, 59),
        (1000, 1, 1, 0, 0, 0),
        (1969, 12, 31, 23, 59, 59),
        (1970, 1, 1, 0, 0, 0),
        (2000, 2, 29, 12, 0, 0),
        (2023, 11, 14, 22, 13, 20),
        (2100, 2, 28, 23, 59, 59),
        (9999, 12, 31, 23, 59, 59),
        (1900, 2, 28, 23, 59, 59),
        (2024, 2, 29, 23, 59, 59),
        (9999, 12, 30, 21, 59, 59),
    ];

    /// Offsets whose chrono `DateTime<Local>` child process runs in the quick tier.
    const QUICK_LOCAL: [i32; 31] = [
        0, 1, -1, 30, -30, 59, -59, 60, -60, 61, -61, 330, -330, 345, -345, 570, -570, 600, -600, 720, -720, 765, -765, 840,
        -840, 1380, -1380, 1410, -1410, 1439, -1439,
    ];
    /// the quick tier additionally runs the children of offsets with index = seed (mod this)
    const LOCAL_SLICE_MOD: u64 = 360;

    // -----------------------------------------------------------------------------------------
    // backends

    #[derive(Clone, Copy, PartialEq, Eq, Debug)]
    enum W {
        ChronoUtc,
        ChronoLocal,
        JiffZoned,
        JiffTimestamp,
        TimeOdt,
    }

    #[derive(Clone, Copy, PartialEq, Eq, Debug)]
    enum R {
        Chrono,
        Jiff,
        Time,
    }

    const READERS: [R; 3] = [R::Chrono, R::Jiff, R::Time];

    impl W {
        fn name(self) -> &'static str {
            match self {
                W::ChronoUtc => "chrono::DateTime<Utc>",
                W::ChronoLocal => "chrono::DateTime<Local>",
                W::JiffZoned => "jiff::Zoned",
                W::JiffTimestamp => "jiff::Timestamp",
                W::TimeOdt => "time::OffsetDateTime",
            }
        }
        fn backend(self) -> &'static str {
            match self {
                W::ChronoUtc | W::ChronoLocal => "chrono",
                W::JiffZoned | W::JiffTimestamp => "jiff",
                W::TimeOdt => "time",
            }
        }
        fn from_name(s: &str) -> Option<W> {
            [W::ChronoUtc, W::ChronoLocal, W::JiffZoned, W::JiffTimestamp, W::TimeOdt].into_iter().find(|w| w.name() == s)
        }
        fn utc_type(self) -> bool {
            matches!(self, W::ChronoUtc | W::JiffTimestamp)
        }
    }

    impl R {
        fn name(self) -> &'static str {
            match self {
                R::Chrono => "chrono::DateTime<Local>",
                R::Jiff => "jiff::Zoned",
                R::Time => "time::OffsetDateTime",
            }
        }
        fn backend(self) -> &'static str {
            match self {
                R::Chrono => "chrono",
                R::Jiff => "jiff",
                R::Time => "time",
            }
        }
        fn from_name(s: &str) -> Option<R> {
            READERS.into_iter().find(|r| r.name() == s)
        }
    }

    enum WriteRes {
        /// the backend's own API cannot construct this (instant, offset): outside its range
        Skip,
        Ok(String),
        Err(String),
    }

    fn object_text(o: &Object) -> Result<String, String> {
        match o {
            Object::String(b, _) => String::from_utf8(b.clone()).map_err(|_| format!("non-UTF-8 date string {:?}", b)),
            other => Err(format!("not a string object: {:?}", other)),
        }
    }

    fn machinery(msg: &str) -> ! {
        println!("C18-CHILD-MACHINERY {}", msg);
        eprintln!("MACHINERY: {}", msg);
        std::process::exit(3);
    }

    /// `Object::from(<backend value for (instant, offset)>)`.
    fn write(w: W, instant: i64, offset_min: i32) -> WriteRes {
        let off_s = offset_min * 60;
        let conv = |f: &mut dyn FnMut() -> Object| match util::guard(f) {
            Ok(o) => match object_text(&o) {
                Ok(s) => WriteRes::Ok(s),
                Err(e) => WriteRes::Err(e),
            },
            Err(p) => WriteRes::Err(p),
        };
        match w {
            W::ChronoUtc => {
                use chrono::TimeZone;
                let Some(dt) = chrono::Utc.timestamp_opt(instant, 0).single() else {
                    return WriteRes::Skip;
                };
                conv(&mut || Object::from(dt))
            }
            W::ChronoLocal => {
                use chrono::TimeZone;
                let Some(dt) = chrono::Local.timestamp_opt(instant, 0).single() else {
                    return WriteRes::Skip;
                };
                if dt.offset().local_minus_utc() != off_s {
                    machinery(&format!(
                        "chrono Local offset is {} s, wanted {} s (TZ={:?}); the zone was not applied",
                        dt.offset().local_minus_utc(),
                        off_s,
                        std::env::var("TZ").ok()
                    ));
                }
                conv(&mut || Object::from(dt))
            }
            W::JiffZoned => {
                let ts = match jiff::Timestamp::from_second(instant) {
                    Ok(t) => t,
                    Err(_) => return WriteRes::Skip,
                };
                let off = match jiff::tz::Offset::from_seconds(off_s) {
                    Ok(o) => o,
                    Err(_) => return WriteRes::Skip,
                };
                let z = ts.to_zoned(jiff::tz::TimeZone::fixed(off));
                conv(&mut || Object::from(z.clone()))
            }
            W::JiffTimestamp => {
                let ts = match jiff::Timestamp::from_second(instant) {
                    Ok(t) => t,
                    Err(_) => return WriteRes::Skip,
                };
                conv(&mut || Object::from(ts))
            }
            W::TimeOdt => match time_value(instant, off_s) {
                Some(dt) => conv(&mut || Object::from(dt)),
                None => WriteRes::Skip,
            },
        }
    }

    /// The `time` value is built from the reference's local civil fields plus the offset, so that local
    /// times whose UTC year is 0 or 10000 are still reachable; its instant is cross-checked.
    fn time_value(instant: i64, off_s: i32) -> Option<time::OffsetDateTime> {
        let c = rd::local_civil(instant, off_s / 60);
        let month = time::Month::try_from(c.month as u8).ok()?;
        let date = time::Date::from_calendar_date(i32::try_from(c.year).ok()?, month, c.day as u8).ok()?;
        let tod = time::Time::from_hms(c.hour as u8, c.minute as u8, c.second as u8).ok()?;
        let off = time::UtcOffset::from_whole_seconds(off_s).ok()?;
        let v = time::PrimitiveDateTime::new(date, tod).assume_offset(off);
        if v.unix_timestamp() != instant || v.offset().whole_seconds() != off_s {
            machinery(&format!("time value for instant {} offset {} s reports instant {}", instant, off_s, v.unix_timestamp()));
        }
        Some(v)
    }

    /// Can the reader's own API hold this (instant, offset)? Consulted only when a parse fails.
    fn representable(r: R, instant: i64, offset_min: i32) -> bool {
        match r {
            R::Chrono => {
                use chrono::TimeZone;
                chrono::Utc.timestamp_opt(instant, 0).single().is_some()
            }
            R::Jiff => jiff::Timestamp::from_second(instant).is_ok() && jiff::tz::Offset::from_seconds(offset_min * 60).is_ok(),
            R::Time => time_value(instant, offset_min * 60).is_some(),
        }
    }

    #[derive(Debug, Clone, PartialEq)]
    struct Parsed {
        instant: i64,
        nanos: i64,
        /// seconds east of UTC for offset-keeping reader types
        offset_s: Option<i32>,
    }

    #[derive(Debug, Clone, PartialEq)]
    enum ReadErr {
        Parse(String),
        Panic(String),
        NotADate,
    }

    impl ReadErr {
        fn text(&self) -> String {
            match self {
                ReadErr::Parse(e) => format!("parse error: {}", e),
                ReadErr::Panic(p) => p.clone(),
                ReadErr::NotADate => "as_datetime() returned None".into(),
            }
        }
    }

    /// `Object::string_literal(text).as_datetime().try_into()` with the reader type `r`.
    fn read(r: R, text: &str) -> Result<Parsed, ReadErr> {
        let obj = Object::string_literal(text);
        let res = util::guard(|| -> Result<Parsed, ReadErr> {
            let dt = obj.as_datetime().ok_or(ReadErr::NotADate)?;
            match r {
                R::Chrono => {
                    let v: Result<chrono::DateTime<chrono::Local>, _> = dt.try_into();
                    let v = v.map_err(|e| ReadErr::Parse(e.to_string()))?;
                    Ok(Parsed { instant: v.timestamp(), nanos: v.timestamp_subsec_nanos() as i64, offset_s: None })
                }
                R::Jiff => {
                    let v: Result<jiff::Zoned, _> = dt.try_into();
                    let v = v.map_err(|e| ReadErr::Parse(e.to_string()))?;
                    Ok(Parsed {
                        instant: v.timestamp().as_second(),
                        nanos: v.timestamp().subsec_nanosecond() as i64,
                        offset_s: Some(v.offset().seconds()),
                    })
                }
                R::Time => {
                    let v: Result<time::OffsetDateTime, _> = dt.try_into();
                    let v = v.map_err(|e| ReadErr::Parse(e.to_string()))?;
                    Ok(Parsed { instant: v.unix_timestamp(), nanos: v.nanosecond() as i64, offset_s: Some(v.offset().whole_seconds()) })
                }
            }
        });
        match res {
            Ok(r) => r,
            Err(p) => Err(ReadErr::Panic(p)),
        }
    }

    // -----------------------------------------------------------------------------------------
    // input forms

    #[derive(Clone, Copy, PartialEq, Eq, Debug)]
    enum Form {
        /// `D:YYYYMMDDHHmmSS+HH'mm'` as produced by the offset-carrying writer types
        Full,
        /// `D:YYYYMMDDHHmmSSZ` as produced by the UTC writer types
        ZFull,
        DateOnly,
        MinuteOffset,
        MinuteOffsetIso,
        MinuteZ,
        // informational forms (not covered by the property statement)
        FullIso,
        Year,
        YearMonth,
        Hour,
        MinuteNoZone,
        SecondNoZone,
        SecondHourOffset,
    }

    const SHORT_FORMS: [Form; 11] = [
        Form::DateOnly,
        Form::MinuteOffset,
        Form::MinuteOffsetIso,
        Form::MinuteZ,
        Form::FullIso,
        Form::Year,
        Form::YearMonth,
        Form::Hour,
        Form::MinuteNoZone,
        Form::SecondNoZone,
        Form::SecondHourOffset,
    ];

    impl Form {
        fn name(self) -> &'static str {
            match self {
                Form::Full => "D:YYYYMMDDHHmmSS+HH'mm'",
                Form::ZFull => "D:YYYYMMDDHHmmSSZ",
                Form::DateOnly => "D:YYYYMMDD",
                Form::MinuteOffset => "D:YYYYMMDDHHmm+HH'mm'",
                Form::MinuteOffsetIso => "D:YYYYMMDDHHmm+HH'mm",
                Form::MinuteZ => "D:YYYYMMDDHHmmZ",
                Form::FullIso => "D:YYYYMMDDHHmmSS+HH'mm",
                Form::Year => "D:YYYY",
                Form::YearMonth => "D:YYYYMM",
                Form::Hour => "D:YYYYMMDDHH",
                Form::MinuteNoZone => "D:YYYYMMDDHHmm",
                Form::SecondNoZone => "D:YYYYMMDDHHmmSS",
                Form::SecondHourOffset => "D:YYYYMMDDHHmmSS+HH'",
            }
        }
        fn from_name(s: &str) -> Option<Form> {
            SHORT_FORMS.into_iter().chain([Form::Full, Form::ZFull]).find(|f| f.name() == s)
        }
        /// "The date-only and minute-precision forms given in the specification also parse."
        fn verdict_relevant(self) -> bool {
            matches!(self, Form::DateOnly | Form::MinuteOffset | Form::MinuteOffsetIso | Form::MinuteZ)
        }
        /// forms named by the predicate of finding `time-backend-short-forms`
        fn in_time_finding(self) -> bool {
            matches!(self, Form::ZFull | Form::DateOnly | Form::MinuteOffset | Form::MinuteOffsetIso | Form::MinuteZ)
        }
        fn has_offset(self) -> bool {
            matches!(self, Form::MinuteOffset | Form::MinuteOffsetIso | Form::FullIso | Form::SecondHourOffset)
        }
        /// Spell (instant, offset) in this form; the instant is first cut to the form's precision.
        /// Returns (string, instant denoted, offset denoted).
        fn spell(self, instant: i64, offset_min: i32) -> (String, i64, i32) {
            let offset_min = if self.has_offset() { offset_min } else { 0 };
            let offset_min = if self == Form::SecondHourOffset { offset_min / 60 * 60 } else { offset_min };
            let mut c = rd::local_civil(instant, offset_min);
            let fields = match self {
                Form::Year => 1,
                Form::YearMonth => 2,
                Form::DateOnly => 3,
                Form::Hour => 4,
                Form::MinuteOffset | Form::MinuteOffsetIso | Form::MinuteZ | Form::MinuteNoZone => 5,
                _ => 6,
            };
            if fields < 2 {
                c.month = 1;
            }
            if fields < 3 {
                c.day = 1;
            }
            if fields < 4 {
                c.hour = 0;
            }
            if fields < 5 {
                c.minute = 0;
            }
            if fields < 6 {
                c.second = 0;
            }
            let denoted = rd::epoch_from_civil(&c) - offset_min as i64 * 60;
            let mut s = format!("D:{}", rd::digits(&c, fields));
            match self {
                Form::MinuteOffset | Form::Full => s.push_str(&rd::offset_suffix(offset_min, true)),
                Form::MinuteOffsetIso | Form::FullIso => s.push_str(&rd::offset_suffix(offset_min, false)),
                Form::SecondHourOffset => {
                    let suf = rd::offset_suffix(offset_min, false);
                    s.push_str(&suf[..4]);
                }
                Form::MinuteZ | Form::ZFull => s.push('Z'),
                _ => {}
            }
            (s, denoted, offset_min)
        }
    }

    // -----------------------------------------------------------------------------------------
    // results

    #[derive(Debug, Clone)]
    struct Fail {
        finding: Option<String>,
        case: Value,
        observed: String,
        expected: String,
    }

    #[derive(Default)]
    struct Out {
        evals: u64,
        counts: BTreeMap<String, u64>,
        fails: Vec<Fail>,
        /// (instant, offset) cases evaluated, for the distinct non-trivial count
        cases: Vec<(i64, i32)>,
        string_hashes: Vec<u64>,
        info_examples: Vec<Value>,
    }

    impl Out {
        fn add(&mut self, k: &str, n: u64) {
            *self.counts.entry(k.to_string()).or_insert(0) += n;
        }
        fn to_json(&self) -> Value {
            json!({
                "evals": self.evals,
                "counts": self.counts,
                "fails": self.fails.iter().map(|f| json!({"finding": f.finding, "case": f.case, "observed": f.observed, "expected": f.expected})).collect::<Vec<_>>(),
                "cases": self.cases.iter().map(|(i, o)| json!([i, o])).collect::<Vec<_>>(),
                "string_hashes": self.string_hashes.iter().map(|h| h.to_string()).collect::<Vec<_>>(),
            })
        }
        fn from_json(v: &Value) -> Option<Out> {
            let mut out = Out { evals: v["evals"].as_u64()?, ..Default::default() };
            for (k, n) in v["counts"].as_object()? {
                out.counts.insert(k.clone(), n.as_u64()?);
            }
            for f in v["fails"].as_array()? {
                out.fails.push(Fail {
                    finding: f["finding"].as_str().map(|s| s.to_string()),
                    case: f["case"].clone(),
                    observed: f["observed"].as_str()?.to_string(),
                    expected: f["expected"].as_str()?.to_string(),
                });
            }
            for c in v["cases"].as_array()? {
                out.cases.push((c[0].as_i64()?, c[1].as_i64()? as i32));
            }
            for h in v["string_hashes"].as_array()? {
                out.string_hashes.push(h.as_str()?.parse().ok()?);
            }
            Some(out)
        }
    }

    fn tz_value() -> Value {
        match std::env::var("TZ") {
            Ok(t) => json!(t),
            Err(_) => Value::Null,
        }
    }

    /// Attribute a failed read to the catalogued `time` finding only when its predicate holds
    /// and the same (instant, offset) spelled in the full offset form parses correctly with the
    /// same backend; anything else stays unclassified.
    fn classify_read(r: R, form: Form, err: &ReadErr, instant: i64, offset_min: i32) -> Option<String> {
        if r != R::Time || !form.in_time_finding() || !matches!(err, ReadErr::Parse(_)) {
            return None;
        }
        let full = rd::format_offset_form(instant, offset_min)?;
        match read(R::Time, &full) {
            Ok(p) if p.instant == instant && p.nanos == 0 && p.offset_s == Some(offset_min * 60) => Some(FINDING_TIME.to_string()),
            _ => None,
        }
    }

    /// Compare a parse result with the (instant, offset) the string denotes.
    fn value_mismatch(r: R, p: &Parsed, instant: i64, offset_min: i32) -> Option<String> {
        let mut bad = vec![];
        if p.instant != instant {
            bad.push(format!("instant {} ({}) instead of {} ({})", p.instant, rd::iso(p.instant, 0), instant, rd::iso(instant, 0)));
        }
        if p.nanos != 0 {
            bad.push(format!("sub-second part {} ns", p.nanos));
        }
        if let Some(o) = p.offset_s {
            if o != offset_min * 60 {
                bad.push(format!("offset {} s instead of {} s", o, offset_min * 60));
            }
        }
        if bad.is_empty() {
            None
        } else {
            Some(format!("{} read gives {}", r.name(), bad.join(", ")))
        }
    }

    /// Write one (instant, offset) with `w` and compare with the reference string.
    /// Returns the string when it is correct.
    fn check_write(out: &mut Out, w: W, instant: i64, offset_min: i32) -> Option<String> {
        let expected = if w.utc_type() { rd::format_z_form(instant) } else { rd::format_offset_form(instant, offset_min) }
            .expect("case outside the domain");
        match write(w, instant, offset_min) {
            WriteRes::Skip => {
                out.add(&format!("writer_range_skips/{}", w.name()), 1);
                None
            }
            WriteRes::Ok(s) => {
                out.evals += 1;
                out.add("strings_compared_with_reference", 1);
                out.add(&format!("writes/{}", w.name()), 1);
                if s == expected {
                    out.string_hashes.push(fnv(s.as_bytes()));
                    Some(s)
                } else {
                    out.fails.push(Fail {
                        finding: None,
                        case: json!({"kind": "write", "writer": w.name(), "instant": instant, "utc": rd::iso(instant, 0), "offset_min": offset_min, "tz": if w == W::ChronoLocal { tz_value() } else { Value::Null }}),
                        observed: format!("{} wrote {:?}", w.name(), s),
                        expected: format!("{:?} (reference formatting)", expected),
                    });
                    None
                }
            }
            WriteRes::Err(e) => {
                out.evals += 1;
                out.fails.push(Fail {
                    finding: None,
                    case: json!({"kind": "write", "writer": w.name(), "instant": instant, "utc": rd::iso(instant, 0), "offset_min": offset_min, "tz": if w == W::ChronoLocal { tz_value() } else { Value::Null }}),
                    observed: format!("{}: {}", w.name(), e),
                    expected: format!("{:?} (reference formatting)", expected),
                });
                None
            }
        }
    }

    /// Read the string a writer produced with reader `r` and compare instant and offset.
    fn check_pair(out: &mut Out, w: W, r: R, s: &str, instant: i64, offset_min: i32) {
        let form = if w.utc_type() { Form::ZFull } else { Form::Full };
        let eff_off = if w.utc_type() { 0 } else { offset_min };
        out.evals += 1;
        out.add(&format!("pairs/{} -> {}", w.name(), r.name()), 1);
        let case = || {
            json!({"kind": "pair", "writer": w.name(), "reader": r.name(), "instant": instant, "utc": rd::iso(instant, 0), "offset_min": offset_min,
                   "string": s, "tz": if w == W::ChronoLocal { tz_value() } else { Value::Null }})
        };
        let expected = format!("instant {} ({}), offset {} s where the type keeps one", instant, rd::iso(instant, 0), eff_off * 60);
        match read(r, s) {
            Ok(p) => {
                if let Some(m) = value_mismatch(r, &p, instant, eff_off) {
                    out.fails.push(Fail { finding: None, case: case(), observed: m, expected });
                }
            }
            Err(e) => {
                if !matches!(e, ReadErr::Panic(_)) && !representable(r, instant, eff_off) {
                    out.add(&format!("reader_range_skips/{}", r.name()), 1);
                    return;
                }
                let finding = classify_read(r, form, &e, instant, eff_off);
                out.fails.push(Fail { finding, case: case(), observed: format!("{} reading {:?}: {}", r.name(), s, e.text()), expected });
            }
        }
    }

    /// One (instant, offset) case through the given offset-carrying writers and all readers.
    fn check_case(out: &mut Out, writers: &[W], instant: i64, offset_min: i32) {
        out.cases.push((instant, offset_min));
        let mut produced: Vec<String> = vec![];
        for &w in writers {
            if let Some(s) = check_write(out, w, instant, offset_min) {
                for r in READERS {
                    check_pair(out, w, r, &s, instant, offset_min);
                }
                produced.push(s);
            }
        }
        // all backends produce the same string (each already equals the reference; counted explicitly)
        for i in 1..produced.len() {
            out.add("cross_backend_string_comparisons", 1);
            if produced[i] != produced[0] {
                out.fails.push(Fail {
                    finding: None,
                    case: json!({"kind": "write", "writer": writers[i].name(), "instant": instant, "offset_min": offset_min, "tz": Value::Null}),
                    observed: format!("{:?} vs {:?}", produced[i], produced[0]),
                    expected: "the same string from every backend".into(),
                });
            }
        }
    }

    /// The instants of one offset: every menu entry read as a UTC instant and as local civil time.
    /// Second value: number of (entry, reading) combinations outside the domain.
    fn instants_and_excluded(offset_min: i32) -> (Vec<(i64, &'static str)>, u64) {
        let mut v: Vec<(i64, &'static str)> = vec![];
        let mut excluded = 0;
        for m in MENU {
            let e = rd::ymdhms(m.0, m.1, m.2, m.3, m.4, m.5);
            for (i, how) in [(e, "utc"), (e - offset_min as i64 * 60, "local")] {
                if !rd::in_domain(i, offset_min) {
                    excluded += 1;
                } else if !v.iter().any(|x| x.0 == i) {
                    v.push((i, how));
                }
            }
        }
        (v, excluded)
    }

    fn instants_for(offset_min: i32) -> Vec<(i64, &'static str)> {
        instants_and_excluded(offset_min).0
    }

    fn check_offset(out: &mut Out, writers: &[W], offset_min: i32) {
        let (list, excluded) = instants_and_excluded(offset_min);
        out.add("cases_out_of_domain", excluded);
        for (i, _) in list {
            check_case(out, writers, i, offset_min);
        }
    }

    /// UTC writer types on one instant.
    fn check_utc(out: &mut Out, instant: i64) {
        if !rd::in_domain(instant, 0) {
            return;
        }
        out.add("utc_type_instants", 1);
        let mut produced = vec![];
        for w in [W::ChronoUtc, W::JiffTimestamp] {
            if let Some(s) = check_write(out, w, instant, 0) {
                for r in READERS {
                    check_pair(out, w, r, &s, instant, 0);
                }
                produced.push(s);
            }
        }
        if produced.len() == 2 {
            out.add("cross_backend_string_comparisons", 1);
        }
    }

    /// One short-form string with one reader. Verdict-relevant forms must parse; the value and the
    /// informational forms are only counted.
    fn check_short(out: &mut Out, form: Form, r: R, instant: i64, offset_min: i32) {
        let (s, denoted, off) = form.spell(instant, offset_min);
        out.evals += 1;
        let key = format!("{}/{}", form.name(), r.backend());
        let res = read(r, &s);
        if form.verdict_relevant() {
            out.add("short_form_reads_verdict", 1);
            match &res {
                Ok(_) => out.add(&format!("short_parse_ok/{}", key), 1),
                Err(e) => {
                    out.add(&format!("short_parse_err/{}", key), 1);
                    if !matches!(e, ReadErr::Panic(_)) && !representable(r, denoted, off) {
                        out.add(&format!("reader_range_skips/{}", r.name()), 1);
                    } else {
                        let finding = classify_read(r, form, e, denoted, off);
                        out.fails.push(Fail {
                            finding,
                            case: json!({"kind": "short", "form": form.name(), "reader": r.name(), "string": s, "instant": instant, "offset_min": offset_min}),
                            observed: format!("{} reading {:?}: {}", r.name(), s, e.text()),
                            expected: "the form parses (property: date-only and minute-precision forms also parse)".into(),
                        });
                    }
                }
            }
        } else {
            out.add("short_form_reads_informational", 1);
            match &res {
                Ok(_) => out.add(&format!("info_parse_ok/{}", key), 1),
                Err(e) => {
                    out.add(&format!("info_parse_err/{}", key), 1);
                    if matches!(e, ReadErr::Panic(_)) {
                        // a panic is never acceptable, whatever the form
                        out.fails.push(Fail {
                            finding: None,
                            case: json!({"kind": "short", "form": form.name(), "reader": r.name(), "string": s, "instant": instant, "offset_min": offset_min}),
                            observed: format!("{} reading {:?}: {}", r.name(), s, e.text()),
                            expected: "no panic".into(),
                        });
                    }
                }
            }
        }
        if let Ok(p) = &res {
            match value_mismatch(r, p, denoted, off) {
                None => out.add("short_value_agrees", 1),
                Some(m) => {
                    out.add(&format!("short_value_differs_informational/{}", key), 1);
                    if out.info_examples.len() < 4 {
                        out.info_examples.push(json!({"string": s, "reader": r.name(), "note": m}));
                    }
                }
            }
        }
    }

    // -----------------------------------------------------------------------------------------
    // explorer

    fn all_offsets() -> Vec<i32> {
        (-MAX_OFF..=MAX_OFF).collect()
    }

    static TOTALS: Mutex<BTreeMap<String, u64>> = Mutex::new(BTreeMap::new());

    fn merge(run: &Run, out: Out, strings: &Mutex<HashSet<u64>>, info: &Mutex<Vec<Value>>) {
        run.eval(out.evals);
        {
            let mut t = TOTALS.lock().unwrap();
            for (k, n) in &out.counts {
                run.add(k, *n);
                *t.entry(k.clone()).or_insert(0) += *n;
            }
        }
        for (i, o) in &out.cases {
            if *o != 0 {
                let mut b = i.to_le_bytes().to_vec();
                b.extend(o.to_le_bytes());
                run.nontrivial_hash(fnv(&b));
            }
        }
        {
            let mut s = strings.lock().unwrap();
            s.extend(out.string_hashes.iter().copied());
        }
        {
            let mut g = info.lock().unwrap();
            for e in out.info_examples {
                if g.len() < 6 {
                    g.push(e);
                }
            }
        }
        for f in out.fails {
            run.fail(f.finding.as_deref(), f.case, &f.observed, &f.expected);
        }
    }

    fn run_local_child(offset_min: i32) -> Out {
        let exe = std::env::current_exe().unwrap_or_else(|e| machinery(&format!("current_exe: {}", e)));
        let tz = rd::posix_tz(offset_min);
        let o = std::process::Command::new(&exe)
            .args(["--part", "local", "--offset", &offset_min.to_string()])
            .env("TZ", &tz)
            .output()
            .unwrap_or_else(|e| machinery(&format!("cannot start the Local child: {}", e)));
        let text = String::from_utf8_lossy(&o.stdout);
        for line in text.lines() {
            if let Some(rest) = line.strip_prefix("C18-CHILD ") {
                if let Some(out) = serde_json::from_str::<Value>(rest).ok().as_ref().and_then(Out::from_json) {
                    return out;
                }
            }
        }
        eprintln!(
            "MACHINERY: Local child for offset {} (TZ={}) ended without a summary (status {:?}): {} {}",
            offset_min,
            tz,
            o.status.code(),
            vharness::run::truncate(&text, 500),
            vharness::run::truncate(&String::from_utf8_lossy(&o.stderr), 500)
        );
        std::process::exit(3);
    }

    /// Child process: TZ is set to the fixed zone of `offset_min`; the chrono `DateTime<Local>` writer
    /// joins the other offset-carrying writers, and the chrono reader converts into that zone.
    fn child_main(offset_min: i32) -> ! {
        util::quiet_panics();
        let mut out = Out::default();
        check_offset(&mut out, &[W::ChronoLocal, W::JiffZoned, W::TimeOdt], offset_min);
        // the chrono reader in this zone on Z-form strings
        for m in MENU {
            check_utc(&mut out, rd::ymdhms(m.0, m.1, m.2, m.3, m.4, m.5));
        }
        println!("C18-CHILD {}", out.to_json());
        std::process::exit(0);
    }

    pub fn main() {
        let args: Vec<String> = std::env::args().collect();
        if args.windows(2).any(|w| w[0] == "--part" && w[1] == "local") {
            let off = args
                .windows(2)
                .find(|w| w[0] == "--offset")
                .and_then(|w| w[1].parse::<i32>().ok())
                .unwrap_or_else(|| machinery("--part local needs --offset <minutes>"));
            child_main(off);
        }
        let run = Run::from_args("C18", "exploration");
        util::quiet_panics();
        util::init_pool();
        util::pin_schedule();
        match rd::self_check() {
            Ok(days) => run.set("reference_self_check_days", json!(days)),
            Err(e) => {
                eprintln!("MACHINERY: reference date arithmetic is wrong: {}", e);
                std::process::exit(3);
            }
        }
        if let Mode::Replay(path) = run.mode.clone() {
            replay(&run, &path);
        }
        run.rule(
            "a case is an (instant, offset) pair: every UTC offset -23:59..+23:59 at minute precision x the 12-entry instants menu (9 of the design + 3), each entry \
             read once as a UTC instant and once as the local civil time of that offset, kept when the local civil year is 0001..9999; \
             every case goes through every offset-carrying writer type and every reader type, every instant also through the UTC writer \
             types; short forms are spelled by the reference from the same cases. Non-trivial = offset != 0; distinct = distinct \
             (instant, offset), counted by hash",
        );
        run.assume("the reference formatting in harness/src/refdate.rs (integer civil-date arithmetic, self-checked against published epoch anchors and a day-by-day walk of years 0000..10000) is the oracle");
        run.assume("a value the backend's own API cannot construct (jiff: instants after 9999-12-30T22:00:00Z or before its minimum; time: local years outside +-9999) is outside that backend's range and skipped, counted under writer_range_skips / reader_range_skips");
        run.assume("chrono DateTime<Local> is driven through the TZ variable (POSIX fixed zone, inverted sign) in one child process per offset; the child verifies that Local reports the wanted offset");
        run.assume("chrono's reader type DateTime<Local> does not keep the offset of the string, so only the instant is compared for it");
        run.assume("of the spec's abbreviated forms only D:YYYYMMDD, D:YYYYMMDDHHmm+HH'mm' (with and without the final apostrophe) and D:YYYYMMDDHHmmZ are verdict-relevant (statement: 'date-only and minute-precision forms'); the value they parse to and the other abbreviated forms (D:YYYY, D:YYYYMM, D:YYYYMMDDHH, zone-less forms, hour-only offset) are counted as information only");

        let offsets = all_offsets();
        let strings: Mutex<HashSet<u64>> = Mutex::new(HashSet::new());
        let info: Mutex<Vec<Value>> = Mutex::new(vec![]);

        // part 1: offset-carrying writer types, all offsets, in process
        let t0 = run.elapsed();
        util::par_for(offsets.len(), |k| {
            let mut out = Out::default();
            check_offset(&mut out, &[W::JiffZoned, W::TimeOdt], offsets[k]);
            merge(&run, out, &strings, &info);
        });
        run.set("offsets_in_process", json!(offsets.len()));

        // part 2: UTC writer types on every distinct instant of part 1
        let mut instants: Vec<i64> = offsets.iter().flat_map(|o| instants_for(*o).into_iter().map(|x| x.0)).collect();
        instants.sort();
        instants.dedup();
        run.set("distinct_instants", json!(instants.len()));
        let chunks: Vec<&[i64]> = instants.chunks(256).collect();
        util::par_for(chunks.len(), |c| {
            let mut out = Out::default();
            for i in chunks[c] {
                check_utc(&mut out, *i);
            }
            merge(&run, out, &strings, &info);
        });
        let t1 = run.elapsed();

        // part 3: abbreviated forms
        let mut short_cases: Vec<(Form, i64, i32)> = vec![];
        for y in [1i64, 4, 999, 1000, 1900, 1970, 2000, 2023, 2024, 2100, 9999] {
            let mut d = rd::days_from_civil(y, 1, 1);
            let end = rd::days_from_civil(y, 12, 31);
            while d <= end {
                for f in [Form::DateOnly, Form::Year, Form::YearMonth] {
                    short_cases.push((f, d * rd::SECS_PER_DAY, 0));
                }
                d += 1;
            }
        }
        for o in &offsets {
            for (i, _) in instants_for(*o) {
                for f in [Form::MinuteOffset, Form::MinuteOffsetIso, Form::FullIso, Form::SecondHourOffset] {
                    short_cases.push((f, i, *o));
                }
            }
        }
        let day = rd::ymdhms(2023, 11, 14, 0, 0, 0);
        for minute in 0..1440 {
            for f in [Form::MinuteZ, Form::MinuteNoZone, Form::Hour, Form::SecondNoZone] {
                short_cases.push((f, day + minute * 60 + 20, 0));
            }
        }
        for m in MENU {
            let e = rd::ymdhms(m.0, m.1, m.2, m.3, m.4, m.5);
            for f in [Form::DateOnly, Form::MinuteZ, Form::MinuteNoZone, Form::Hour, Form::SecondNoZone, Form::Year, Form::YearMonth] {
                short_cases.push((f, e, 0));
            }
        }
        // distinct strings only
        let mut seen = HashSet::new();
        short_cases.retain(|(f, i, o)| seen.insert(f.spell(*i, *o).0));
        run.set("short_form_strings", json!(short_cases.len()));
        let nt_short = short_cases.iter().filter(|(f, i, o)| f.spell(*i, *o).2 != 0).count();
        let sc: Vec<&[(Form, i64, i32)]> = short_cases.chunks(512).collect();
        util::par_for(sc.len(), |c| {
            let mut out = Out::default();
            for (f, i, o) in sc[c] {
                for r in READERS {
                    check_short(&mut out, *f, r, *i, *o);
                }
            }
            merge(&run, out, &strings, &info);
        });
        run.nontrivial(nt_short as u64);
        let t2 = run.elapsed();

        // part 4: chrono DateTime<Local>, one child process per offset
        let local_offsets: Vec<i32> = if run.thorough {
            offsets.clone()
        } else {
            let r = run.seed % LOCAL_SLICE_MOD;
            let mut v: Vec<i32> = QUICK_LOCAL.to_vec();
            for (k, o) in offsets.iter().enumerate() {
                if k as u64 % LOCAL_SLICE_MOD == r && !v.contains(o) {
                    v.push(*o);
                }
            }
            run.set("local_children_seed_slice", json!(format!("offset index mod {} == {}", LOCAL_SLICE_MOD, r)));
            v
        };
        util::par_for(local_offsets.len(), |k| {
            let out = run_local_child(local_offsets[k]);
            merge(&run, out, &strings, &info);
        });
        let t3 = run.elapsed();
        run.set("offsets_with_local_child", json!(local_offsets.len()));
        run.set(
            "offsets",
            json!({"space": offsets.len(), "in_process": offsets.len(), "chrono_local_children": local_offsets.len(),
                   "range": "-23:59..+23:59, every minute"}),
        );
        // ordered (writer backend, reader backend) pairs that were actually executed, with their counts
        let mut bp: BTreeMap<String, u64> = BTreeMap::new();
        {
            let t = TOTALS.lock().unwrap();
            for w in [W::ChronoUtc, W::ChronoLocal, W::JiffZoned, W::JiffTimestamp, W::TimeOdt] {
                for r in READERS {
                    let n = t.get(&format!("pairs/{} -> {}", w.name(), r.name())).copied().unwrap_or(0);
                    if n > 0 {
                        *bp.entry(format!("{} -> {}", w.backend(), r.backend())).or_insert(0) += n;
                    }
                }
            }
        }
        run.set("backend_pairs", json!(bp.len()));
        run.set("backend_pair_reads", json!(bp));
        if bp.len() != 9 {
            run.cap_hit("not every ordered backend pair was executed");
        }
        run.set("backends", json!(["chrono", "jiff", "time"]));
        run.set(
            "writer_types",
            json!([W::ChronoUtc.name(), W::ChronoLocal.name(), W::JiffZoned.name(), W::JiffTimestamp.name(), W::TimeOdt.name()]),
        );
        run.set("reader_types", json!(READERS.iter().map(|r| r.name()).collect::<Vec<_>>()));
        run.set(
            "instants_menu",
            json!(MENU.iter().map(|m| format!("{:04}-{:02}-{:02}T{:02}:{:02}:{:02}", m.0, m.1, m.2, m.3, m.4, m.5)).collect::<Vec<_>>()),
        );
        run.set("distinct_strings_compared", json!(strings.lock().unwrap().len()));
        run.set("informational_value_differences", json!(info.lock().unwrap().clone()));
        run.set(
            "phase_wall_s",
            json!({"offset_types_in_process": t1 - t0, "short_forms": t2 - t1, "local_children": t3 - t2}),
        );
        // out-of-scope observation, recorded for the report: From<time::Time> (a time of day) for Object
        if let Ok(o) = util::guard(|| Object::from(time::Time::from_hms(1, 2, 3).unwrap())) {
            run.set("observation_from_time_Time", json!(object_text(&o).unwrap_or_default()));
        }
        samples(&run);
        if !run.thorough {
            run.assume("quick tier: the chrono DateTime<Local> writer ran for 31 fixed offsets plus the seed slice only; all other types ran for all 2,879 offsets");
        }
        // the offsets space is complete for every type in the thorough tier only
        run.exhaustive(run.thorough);
        run.finish();
    }

    fn samples(run: &Run) {
        let show = |instant: i64, o: i32| {
            let mut w = Map::new();
            for wt in [W::JiffZoned, W::TimeOdt, W::ChronoUtc, W::JiffTimestamp] {
                if let WriteRes::Ok(s) = write(wt, instant, o) {
                    w.insert(wt.name().into(), json!(s));
                }
            }
            json!({"instant": instant, "utc": rd::iso(instant, 0), "offset_min": o, "local": rd::iso(instant, o),
                   "reference": rd::format_offset_form(instant, o), "reference_z": rd::format_z_form(instant), "written": w,
                   "readers": READERS.iter().map(|r| r.name()).collect::<Vec<_>>()})
        };
        let first = instants_for(-MAX_OFF);
        run.sample(show(first[0].0, -MAX_OFF));
        run.sample(show(1_700_000_000, 330));
        run.sample(show(rd::ymdhms(1, 1, 1, 0, 0, 0) - 14 * 3600, 14 * 60));
        run.sample(show(0, -30));
        for (f, i, o) in [(Form::DateOnly, rd::ymdhms(2000, 2, 29, 0, 0, 0), 0), (Form::MinuteOffset, 1_700_000_000, -480)] {
            let (s, d, off) = f.spell(i, o);
            run.sample(json!({"short_form": f.name(), "string": s, "denotes_instant": d, "denotes_offset_min": off,
                "parse": READERS.iter().map(|r| (r.name().to_string(), json!(match read(*r, &s) { Ok(p) => format!("{:?}", p), Err(e) => e.text() }))).collect::<Map<String, Value>>()}));
        }
        run.sample(json!({"chrono_local_child": {"offset_min": 345, "TZ": rd::posix_tz(345), "argv": "c18 --part local --offset 345"}}));
        let last = instants_for(MAX_OFF);
        run.sample(show(last[last.len() - 1].0, MAX_OFF));
    }

    // -----------------------------------------------------------------------------------------
    // replay

    fn replay_once(case: &Value) -> Vec<(String, String)> {
        let mut out = Out::default();
        let instant = case["instant"].as_i64().unwrap_or(0);
        let offset = case["offset_min"].as_i64().unwrap_or(0) as i32;
        match case["kind"].as_str() {
            Some("write") => {
                let w = W::from_name(case["writer"].as_str().unwrap_or("")).unwrap_or_else(|| machinery("unknown writer"));
                if check_write(&mut out, w, instant, offset).is_some() {
                    println!("write: string equals the reference");
                }
            }
            Some("pair") => {
                let w = W::from_name(case["writer"].as_str().unwrap_or("")).unwrap_or_else(|| machinery("unknown writer"));
                let r = R::from_name(case["reader"].as_str().unwrap_or("")).unwrap_or_else(|| machinery("unknown reader"));
                if let Some(s) = check_write(&mut out, w, instant, offset) {
                    println!("written: {}", s);
                    check_pair(&mut out, w, r, &s, instant, offset);
                }
            }
            Some("short") => {
                let f = Form::from_name(case["form"].as_str().unwrap_or("")).unwrap_or_else(|| machinery("unknown form"));
                let r = R::from_name(case["reader"].as_str().unwrap_or("")).unwrap_or_else(|| machinery("unknown reader"));
                println!("string: {}", f.spell(instant, offset).0);
                check_short(&mut out, f, r, instant, offset);
            }
            _ => machinery("unknown replay kind"),
        }
        out.fails.into_iter().map(|f| (f.observed, f.expected)).collect()
    }

    fn replay(run: &Run, path: &std::path::Path) -> ! {
        let case = vharness::run::read_replay(path);
        if let Some(tz) = case["tz"].as_str() {
            if std::env::var("TZ").ok().as_deref() != Some(tz) {
                // chrono Local needs the zone from process start: re-execute with TZ set
                let exe = std::env::current_exe().unwrap();
                let st = std::process::Command::new(exe)
                    .args(["--replay", &path.to_string_lossy()])
                    .env("TZ", tz)
                    .status()
                    .unwrap_or_else(|e| machinery(&format!("re-exec: {}", e)));
                std::process::exit(st.code().unwrap_or(3));
            }
        }
        let a = replay_once(&case);
        let b = replay_once(&case);
        if a != b {
            eprintln!("MACHINERY: replay not deterministic: {:?} vs {:?}", a, b);
            std::process::exit(3);
        }
        for (o, e) in &a {
            println!("observed: {}", o);
            println!("expected: {}", e);
        }
        if a.is_empty() {
            println!("observed: conversion agrees with the reference");
        }
        run.finish_replay(!a.is_empty())
    }
}
