use vharness::util;
fn main() {
    let p = std::env::args().nth(1).unwrap();
    let b = std::fs::read(&p).unwrap();
    match util::load(&b) {
        Ok(d) => { println!("loaded; encrypted={} objs={}", d.is_encrypted(), d.objects.len()); for (id,o) in &d.objects { println!("{:?} {}", id, vharness::objjson::show(o)); } }
        Err(e) => println!("ERR {}", e),
    }
}
