//! C16 - text strings and one-byte encodings round-trip text (DESIGN §4 C16).
//!
//! (a) `text_string` / `decode_text_string`: every Unicode scalar value, all strings of length <= 3
//!     over a 14-character alphabet, the outputs of `encode_utf16_be` / `encode_utf8`, and totality
//!     on all byte strings of length <= 5 over the byte-order-mark alphabet.
//! (b) the five tables reachable through `Dictionary::get_font_encoding` x 256 bytes: decoding is
//!     total, decode(encode(decode(b))) == decode(b), and the printable-ASCII and Latin-1 portions
//!     of WinAnsi, MacRoman and PDFDoc agree with the published tables written out below.
//! (a') long text strings (an astral character at every offset of every block size below the
//!     bound, three encoders), long ill-formed strings (totality), two strings one after the other.
//! (b') long byte strings through each table (decode is bytewise; block sizes 64..4096 and 2^16).
//! (c'') long shown strings, 1000 groups, fonts with further entries that agree with the encoding
//!     (widths, consistent complete / partial ToUnicode), documents extracted one after the other.
//! (c) extraction: `Document::extract_text` on documents that show text with Tj / TJ through a
//!     font with `/Encoding <name>`, before and after save+load in both cross-reference formats.
//! (c''') font resources inherited along the page tree: /F1 and /F2 bound at the page, its parent,
//!     grandparent, great-grandparent (several at once, to fonts with different tables), Resources
//!     and Font dictionaries direct / behind references / behind alias objects, sibling pages that
//!     reach a name through different nodes; the nearest binding decides.
use lopdf::content::{Content, Operation};
use lopdf::{decode_text_string, encode_utf16_be, encode_utf8, text_string, Dictionary, Document, Encoding, Object, Stream, StringFormat};
use serde_json::{json, Value};
use std::sync::atomic::{AtomicU64, Ordering};
use vharness::gen::tuples;
use vharness::objjson::{hex, unhex};
use vharness::{util, Mode, Run};

// ---------------------------------------------------------------------------------------------
// published tables (upper halves; 0 = undefined). Generated with Python's codecs `cp1252` and
// `mac_roman` (Microsoft code page 1252; Apple's current Mac OS Roman). PDFDocEncoding follows
// ISO 32000-1 Annex D.2 / D.3: 0xA0 Euro, 0xAD undefined, 0xA1-0xFF otherwise Latin-1.

const CP1252_HIGH: [u16; 128] = [
    0x20ac, 0x0000, 0x201a, 0x0192, 0x201e, 0x2026, 0x2020, 0x2021, 0x02c6, 0x2030, 0x0160, 0x2039, 0x0152, 0x0000, 0x017d, 0x0000,
    0x0000, 0x2018, 0x2019, 0x201c, 0x201d, 0x2022, 0x2013, 0x2014, 0x02dc, 0x2122, 0x0161, 0x203a, 0x0153, 0x0000, 0x017e, 0x0178,
    0x00a0, 0x00a1, 0x00a2, 0x00a3, 0x00a4, 0x00a5, 0x00a6, 0x00a7, 0x00a8, 0x00a9, 0x00aa, 0x00ab, 0x00ac, 0x00ad, 0x00ae, 0x00af,
    0x00b0, 0x00b1, 0x00b2, 0x00b3, 0x00b4, 0x00b5, 0x00b6, 0x00b7, 0x00b8, 0x00b9, 0x00ba, 0x00bb, 0x00bc, 0x00bd, 0x00be, 0x00bf,
    0x00c0, 0x00c1, 0x00c2, 0x00c3, 0x00c4, 0x00c5, 0x00c6, 0x00c7, 0x00c8, 0x00c9, 0x00ca, 0x00cb, 0x00cc, 0x00cd, 0x00ce, 0x00cf,
    0x00d0, 0x00d1, 0x00d2, 0x00d3, 0x00d4, 0x00d5, 0x00d6, 0x00d7, 0x00d8, 0x00d9, 0x00da, 0x00db, 0x00dc, 0x00dd, 0x00de, 0x00df,
    0x00e0, 0x00e1, 0x00e2, 0x00e3, 0x00e4, 0x00e5, 0x00e6, 0x00e7, 0x00e8, 0x00e9, 0x00ea, 0x00eb, 0x00ec, 0x00ed, 0x00ee, 0x00ef,
    0x00f0, 0x00f1, 0x00f2, 0x00f3, 0x00f4, 0x00f5, 0x00f6, 0x00f7, 0x00f8, 0x00f9, 0x00fa, 0x00fb, 0x00fc, 0x00fd, 0x00fe, 0x00ff,
];
const MAC_ROMAN_HIGH: [u16; 128] = [
    0x00c4, 0x00c5, 0x00c7, 0x00c9, 0x00d1, 0x00d6, 0x00dc, 0x00e1, 0x00e0, 0x00e2, 0x00e4, 0x00e3, 0x00e5, 0x00e7, 0x00e9, 0x00e8,
    0x00ea, 0x00eb, 0x00ed, 0x00ec, 0x00ee, 0x00ef, 0x00f1, 0x00f3, 0x00f2, 0x00f4, 0x00f6, 0x00f5, 0x00fa, 0x00f9, 0x00fb, 0x00fc,
    0x2020, 0x00b0, 0x00a2, 0x00a3, 0x00a7, 0x2022, 0x00b6, 0x00df, 0x00ae, 0x00a9, 0x2122, 0x00b4, 0x00a8, 0x2260, 0x00c6, 0x00d8,
    0x221e, 0x00b1, 0x2264, 0x2265, 0x00a5, 0x00b5, 0x2202, 0x2211, 0x220f, 0x03c0, 0x222b, 0x00aa, 0x00ba, 0x03a9, 0x00e6, 0x00f8,
    0x00bf, 0x00a1, 0x00ac, 0x221a, 0x0192, 0x2248, 0x2206, 0x00ab, 0x00bb, 0x2026, 0x00a0, 0x00c0, 0x00c3, 0x00d5, 0x0152, 0x0153,
    0x2013, 0x2014, 0x201c, 0x201d, 0x2018, 0x2019, 0x00f7, 0x25ca, 0x00ff, 0x0178, 0x2044, 0x20ac, 0x2039, 0x203a, 0xfb01, 0xfb02,
    0x2021, 0x00b7, 0x201a, 0x201e, 0x2030, 0x00c2, 0x00ca, 0x00c1, 0x00cb, 0x00c8, 0x00cd, 0x00ce, 0x00cf, 0x00cc, 0x00d3, 0x00d4,
    0xf8ff, 0x00d2, 0x00da, 0x00db, 0x00d9, 0x0131, 0x02c6, 0x02dc, 0x00af, 0x02d8, 0x02d9, 0x02da, 0x00b8, 0x02dd, 0x02db, 0x02c7,
];

const TABLES: [&str; 5] = ["StandardEncoding", "MacRomanEncoding", "MacExpertEncoding", "WinAnsiEncoding", "PDFDocEncoding"];

/// Published value of the cells this check compares: (byte -> scalar) for bytes 0x20-0x7E and for
/// the bytes that hold a Latin-1 character U+00A1-U+00FF. `excluded` cells are not compared: their
/// published value differs between the glyph-name convention of ISO 32000-1 Annex D and the
/// code-page convention.
struct Published {
    cells: Vec<(u8, u16)>,
    excluded: Vec<(u8, &'static str)>,
}

fn published(table: &str) -> Option<Published> {
    let mut cells: Vec<(u8, u16)> = (0x20u8..=0x7e).map(|b| (b, b as u16)).collect();
    let excluded: Vec<(u8, &'static str)>;
    match table {
        "WinAnsiEncoding" => {
            excluded = vec![
                (0xa0, "Annex D: space (U+0020, second code); cp1252: U+00A0 NO-BREAK SPACE"),
                (0xad, "Annex D: hyphen (U+002D, second code); cp1252: U+00AD SOFT HYPHEN"),
            ];
            for b in 0x80..=0xffu8 {
                let v = CP1252_HIGH[b as usize - 0x80];
                if (0xa1..=0xff).contains(&v) {
                    cells.push((b, v));
                }
            }
        }
        "MacRomanEncoding" => {
            excluded = vec![
                (0xca, "Annex D: space (U+0020, second code); Apple: U+00A0 NO-BREAK SPACE"),
                (0xdb, "Annex D: currency (U+00A4); Apple since Mac OS 8.5 and Python mac_roman: U+20AC EURO SIGN"),
            ];
            for b in 0x80..=0xffu8 {
                let v = MAC_ROMAN_HIGH[b as usize - 0x80];
                if (0xa1..=0xff).contains(&v) {
                    cells.push((b, v));
                }
            }
        }
        "PDFDocEncoding" => {
            excluded = vec![
                (0xa0, "Annex D.2: Euro (U+20AC); Latin-1 has U+00A0 there (outside U+00A1-U+00FF either way)"),
                (0xad, "Annex D.2: undefined; Latin-1 has U+00AD SOFT HYPHEN there"),
            ];
            for b in 0xa1..=0xffu8 {
                cells.push((b, b as u16));
            }
        }
        _ => return None,
    }
    let ex: Vec<u8> = excluded.iter().map(|e| e.0).collect();
    cells.retain(|(b, _)| !ex.contains(b));
    Some(Published { cells, excluded })
}

// ---------------------------------------------------------------------------------------------
// (a) text strings

const EXPECT_TEXT: &str = "decode_text_string(text_string(s)) == s; ASCII is stored as PDFDocEncoding bytes without a mark, everything else as FE FF + UTF-16BE";

fn string_of(scalars: &[u32]) -> String {
    scalars.iter().map(|c| char::from_u32(*c).expect("scalar")).collect()
}

fn scalars_of(s: &str) -> Vec<u32> {
    s.chars().map(|c| c as u32).collect()
}

fn decode_obj(o: &Object) -> Result<String, String> {
    match util::guard(|| decode_text_string(o)) {
        Ok(Ok(s)) => Ok(s),
        Ok(Err(e)) => Err(format!("decode_text_string error: {}", e)),
        Err(p) => Err(format!("decode_text_string {}", p)),
    }
}

fn utf16be(s: &str) -> Vec<u8> {
    let mut b = vec![0xfe, 0xff];
    for u in s.encode_utf16() {
        b.extend_from_slice(&u.to_be_bytes());
    }
    b
}

fn ascii_control(c: char) -> bool {
    (c as u32) < 0x20 || c as u32 == 0x7f
}

/// One text-string case. `via`: "text_string" | "utf16" | "utf8". None = holds.
fn check_text(s: &str, via: &str) -> Option<String> {
    let obj = match via {
        "text_string" => match util::guard(|| text_string(s)) {
            Ok(o) => o,
            Err(p) => return Some(format!("text_string {}", p)),
        },
        "utf16" => Object::String(encode_utf16_be(s), StringFormat::Hexadecimal),
        _ => Object::String(encode_utf8(s), StringFormat::Literal),
    };
    let bytes = match &obj {
        Object::String(b, _) => b.clone(),
        o => return Some(format!("text_string returned {:?}, not a string", o)),
    };
    // encoded form
    match via {
        "text_string" => {
            if s.is_ascii() {
                // controls are not demanded to stay one byte (PDFDocEncoding does not define most of
                // them); printable ASCII must stay as it is
                let plain = bytes == s.as_bytes();
                let marked = bytes == utf16be(s);
                if !(plain || (marked && s.chars().any(ascii_control))) {
                    return Some(format!("encoded form of ASCII text is {} (expected the ASCII bytes themselves)", hex(&bytes)));
                }
            } else if bytes != utf16be(s) {
                return Some(format!("encoded form of non-ASCII text is {} (expected FE FF + UTF-16BE = {})", hex(&bytes), hex(&utf16be(s))));
            }
        }
        "utf16" => {
            if bytes != utf16be(s) {
                return Some(format!("encode_utf16_be gives {} (expected {})", hex(&bytes), hex(&utf16be(s))));
            }
        }
        _ => {
            let mut e = vec![0xef, 0xbb, 0xbf];
            e.extend_from_slice(s.as_bytes());
            if bytes != e {
                return Some(format!("encode_utf8 gives {} (expected {})", hex(&bytes), hex(&e)));
            }
        }
    }
    match decode_obj(&obj) {
        Err(e) => Some(format!("{} (encoded {})", e, hex(&bytes))),
        Ok(d) if d == s => None,
        Ok(d) => Some(format!("decoded {:?} = {:x?} (encoded {})", d, scalars_of(&d), hex(&bytes))),
    }
}

/// Narrow attribution to the two catalogued text-string defects.
fn classify_text(s: &str, via: &str) -> Option<&'static str> {
    match via {
        "text_string" => {
            // ASCII-only text with a C0 control or DEL, and the same text with those characters
            // replaced by 'A' round-trips
            if s.is_ascii() && s.chars().any(ascii_control) {
                let n: String = s.chars().map(|c| if ascii_control(c) { 'A' } else { c }).collect();
                if check_text(&n, via).is_none() {
                    return Some("textstring-ascii-control");
                }
            }
            None
        }
        "utf8" => {
            // the decoded text is exactly U+FEFF followed by the expected text
            let obj = Object::String(encode_utf8(s), StringFormat::Literal);
            match decode_obj(&obj) {
                Ok(d) if d.strip_prefix('\u{feff}') == Some(s) => Some("textstring-utf8-bom"),
                _ => None,
            }
        }
        _ => None,
    }
}

fn report_text(run: &Run, part: &str, s: &str, via: &str, msg: &str) {
    run.fail(
        classify_text(s, via),
        json!({"kind": "text", "part": part, "via": via, "scalars": scalars_of(s), "text": s.escape_default().to_string()}),
        msg,
        match via {
            "text_string" => EXPECT_TEXT,
            "utf16" => "decode_text_string(String(encode_utf16_be(s))) == s",
            _ => "decode_text_string(String(encode_utf8(s))) == s",
        },
    );
}

fn part_scalars(run: &Run) {
    let blocks = 0x110000u32 / 0x1000;
    let n = AtomicU64::new(0);
    util::par_for(blocks as usize, |b| {
        let lo = b as u32 * 0x1000;
        let mut k = 0u64;
        for cp in lo..lo + 0x1000 {
            let Some(c) = char::from_u32(cp) else { continue };
            let s = c.to_string();
            k += 1;
            for via in ["text_string", "utf16", "utf8"] {
                if let Some(m) = check_text(&s, via) {
                    report_text(run, "scalars", &s, via, &m);
                }
            }
        }
        n.fetch_add(k, Ordering::Relaxed);
    });
    let n = n.load(Ordering::Relaxed);
    run.eval(n * 3);
    run.nontrivial(n * 3);
    run.add("scalars", n);
    run.sample(json!({"part": "a-scalars", "scalar": "U+10FFFF", "text_string_bytes": match text_string("\u{10ffff}") { Object::String(b, _) => hex(&b), _ => String::new() }}));
}

const TEXT_ALPHABET: [u32; 15] = [0x41, 0x09, 0x0a, 0x0d, 0x00, 0x1b, 0x7f, 0x80, 0xff, 0x100, 0xfeff, 0xfffd, 0xffff, 0x10000, 0x10ffff];

fn part_strings(run: &Run) {
    let idx: [u8; 15] = [0, 1, 2, 3, 4, 5, 6, 7, 8, 9, 10, 11, 12, 13, 14];
    let mut list: Vec<Vec<u32>> = vec![];
    let max_len = if run.thorough { 5 } else { 3 };
    for len in 0..=max_len {
        for t in tuples(&idx, len) {
            list.push(t.iter().map(|i| TEXT_ALPHABET[*i as usize]).collect());
        }
    }
    let chunk = 128;
    util::par_for(list.len().div_ceil(chunk), |c| {
        for sc in &list[c * chunk..((c + 1) * chunk).min(list.len())] {
            let s = string_of(sc);
            for via in ["text_string", "utf16", "utf8"] {
                if let Some(m) = check_text(&s, via) {
                    report_text(run, "strings", &s, via, &m);
                }
            }
        }
    });
    run.eval(list.len() as u64 * 3);
    run.nontrivial(list.len() as u64 * 3);
    run.add(if run.thorough { "strings_le5" } else { "strings_le3" }, list.len() as u64);
    run.sample(json!({"part": "a-strings", "scalars": list[list.len() - 1], "alphabet": TEXT_ALPHABET}));
}

/// Strings shaped like the language escape sequences of ISO 32000-1 7.9.2.2 (ESC, language code,
/// optional country code, ESC). `text_string` takes *any* Unicode string, so such text must come
/// back unchanged like every other string: ESC + w + ESC for every w over {a, Z, 1, e-acute}^k,
/// k = 0..5, alone and embedded in ASCII and non-ASCII text, and two sequences in one string.
fn part_escapes(run: &Run) {
    let letters: [char; 4] = ['a', 'Z', '1', '\u{e9}'];
    let idx: [u8; 4] = [0, 1, 2, 3];
    let contexts: [(&str, &str); 8] = [
        ("", ""),
        ("A", "B"),
        ("x", ""),
        ("", "x"),
        ("\u{e9}", ""),
        ("", "\u{e9}"),
        ("caf\u{e9} ", " ol\u{e9}"),
        ("\u{1b}", "\u{1b}"),
    ];
    let mut list: Vec<String> = vec![];
    for k in 0..=5 {
        for t in tuples(&idx, k) {
            let w: String = t.iter().map(|i| letters[*i as usize]).collect();
            for (pre, post) in contexts {
                list.push(format!("{}\u{1b}{}\u{1b}{}", pre, w, post));
            }
            // two sequences in one text, and an unterminated one
            list.push(format!("\u{1b}{}\u{1b}t\u{1b}{}\u{1b}", w, w));
            list.push(format!("\u{e9}\u{1b}{}", w));
        }
    }
    let chunk = 256;
    util::par_for(list.len().div_ceil(chunk), |c| {
        for s in &list[c * chunk..((c + 1) * chunk).min(list.len())] {
            for via in ["text_string", "utf16", "utf8"] {
                if let Some(m) = check_text(s, via) {
                    report_text(run, "escapes", s, via, &m);
                }
            }
        }
    });
    run.eval(list.len() as u64 * 3);
    run.nontrivial(list.len() as u64 * 3);
    run.add("escape_shaped_strings", list.len() as u64);
    run.sample(json!({"part": "a-escapes", "scalars": scalars_of(&list[list.len() / 2]), "rule": "ESC + w + ESC, w over {a,Z,1,U+00E9}^k, k=0..5, in 8 contexts + doubled + unterminated"}));
}

const BOM_ALPHABET: [u8; 9] = [0xfe, 0xff, 0xef, 0xbb, 0xbf, 0x00, 0x41, 0xd8, 0xdc];

fn part_totality(run: &Run) {
    let counts = [AtomicU64::new(0), AtomicU64::new(0)];
    let mut total = 0u64;
    let max_len = if run.thorough { 7usize } else { 5 };
    for len in 0..=max_len {
        let n = BOM_ALPHABET.len().pow(len as u32);
        total += n as u64;
        let list: Vec<Vec<u8>> = tuples(&BOM_ALPHABET, len).collect();
        let chunk = 2048;
        util::par_for(list.len().div_ceil(chunk), |c| {
            let (mut ok, mut err) = (0u64, 0u64);
            for b in &list[c * chunk..((c + 1) * chunk).min(list.len())] {
                let obj = Object::String(b.clone(), StringFormat::Hexadecimal);
                match util::guard(|| decode_text_string(&obj)) {
                    Ok(Ok(_)) => ok += 1,
                    Ok(Err(_)) => err += 1,
                    Err(p) => run.fail(
                        None,
                        json!({"kind": "bytes", "part": "totality", "bytes": hex(b)}),
                        &format!("decode_text_string {}", p),
                        "decode_text_string returns Ok or Err on every byte string (no panic)",
                    ),
                }
            }
            counts[0].fetch_add(ok, Ordering::Relaxed);
            counts[1].fetch_add(err, Ordering::Relaxed);
        });
    }
    run.eval(total);
    // non-trivial: the string carries (part of) a byte-order mark or a surrogate unit, i.e. every string but those over {00, 41}
    let trivial: u64 = (0..=max_len as u32).map(|l| 2u64.pow(l)).sum();
    run.nontrivial(total - trivial);
    run.add("totality_byte_strings", total);
    run.set("totality_outcomes", json!({"ok": counts[0].load(Ordering::Relaxed), "err": counts[1].load(Ordering::Relaxed)}));
    // other object kinds: an error, not a panic
    for o in [Object::Null, Object::Integer(1), Object::Name(b"x".to_vec())] {
        run.eval(1);
        if let Err(p) = util::guard(|| decode_text_string(&o)) {
            run.fail(None, json!({"kind": "bytes", "part": "totality", "non_string": format!("{:?}", o)}), &p, "no panic");
        }
    }
}

// ---------------------------------------------------------------------------------------------
// (b) tables

fn font_dict(encoding: &str) -> Dictionary {
    let mut font = Dictionary::new();
    font.set("Type", Object::Name(b"Font".to_vec()));
    font.set("Subtype", Object::Name(b"Type1".to_vec()));
    font.set("BaseFont", Object::Name(b"Courier".to_vec()));
    font.set("Encoding", Object::Name(encoding.as_bytes().to_vec()));
    font
}

/// Ways of writing a simple font that uses a predefined encoding. All of them denote the same
/// text for every code of the table: the extra entries either do not concern text (widths,
/// descriptor) or are a /ToUnicode CMap that agrees with the table on every code it lists
/// (complete, or partial as producers write it for the glyphs used so far).
const FONT_VARIANTS: [&str; 9] =
    ["plain", "widths", "tounicode_full", "tounicode_digits_or_first10", "tounicode_even", "tounicode_odd", "tounicode_one", "tounicode_ranges", "tounicode_empty"];

fn variant_of(s: &str) -> &'static str {
    FONT_VARIANTS.iter().copied().find(|v| *v == s).unwrap_or("plain")
}

/// The table as (code, UTF-16 unit) pairs, read through the public path with a plain font.
fn table_cells(table: &str) -> Vec<(u8, u16)> {
    with_encoding(table, |enc| {
        (0..=255u8)
            .filter_map(|b| match dec(enc, &[b]) {
                Ok(s) => {
                    let u: Vec<u16> = s.encode_utf16().collect();
                    if u.len() == 1 {
                        Some((b, u[0]))
                    } else {
                        None
                    }
                }
                Err(_) => None,
            })
            .collect()
    })
    .unwrap_or_default()
}

/// A ToUnicode CMap (one-byte code space) that lists exactly `pairs`, in the layout of ISO 32000-1
/// 9.10.3 (sections of at most 100 entries). `ranges`: consecutive runs are written as bfrange.
fn to_unicode_cmap(pairs: &[(u8, u16)], ranges: bool) -> Vec<u8> {
    let mut body = String::new();
    if ranges {
        let mut runs: Vec<(u8, u8, u16)> = vec![];
        for &(c, u) in pairs {
            let extend = match runs.last() {
                Some(&(lo, hi, u0)) => hi as u16 + 1 == c as u16 && u0 + (c - lo) as u16 == u && (u0 >> 8) == (u >> 8),
                None => false,
            };
            if extend {
                runs.last_mut().unwrap().1 = c;
            } else {
                runs.push((c, c, u));
            }
        }
        for chunk in runs.chunks(100) {
            body.push_str(&format!("{} beginbfrange\n", chunk.len()));
            for (lo, hi, u) in chunk {
                body.push_str(&format!("<{:02X}> <{:02X}> <{:04X}>\n", lo, hi, u));
            }
            body.push_str("endbfrange\n");
        }
    } else {
        for chunk in pairs.chunks(100) {
            body.push_str(&format!("{} beginbfchar\n", chunk.len()));
            for (c, u) in chunk {
                body.push_str(&format!("<{:02X}> <{:04X}>\n", c, u));
            }
            body.push_str("endbfchar\n");
        }
        if pairs.is_empty() {
            body.push_str("0 beginbfchar\nendbfchar\n");
        }
    }
    format!(
        "/CIDInit /ProcSet findresource begin\n12 dict begin\nbegincmap\n/CIDSystemInfo\n<< /Registry (Adobe)\n/Ordering (UCS)\n/Supplement 0\n>> def\n/CMapName /Adobe-Identity-UCS def\n/CMapType 2 def\n1 begincodespacerange\n<00> <FF>\nendcodespacerange\n{}endcmap\nCMapName currentdict /CMap defineresource pop\nend\nend",
        body
    )
    .into_bytes()
}

/// The pairs the variant's CMap lists (None: the variant has no /ToUnicode).
fn variant_pairs(table: &str, variant: &str) -> Option<Vec<(u8, u16)>> {
    let cells = table_cells(table);
    let printable: Vec<(u8, u16)> = cells.iter().cloned().filter(|(b, _)| *b >= 0x20).collect();
    match variant {
        "tounicode_full" | "tounicode_ranges" => Some(cells),
        "tounicode_digits_or_first10" => {
            let digits: Vec<(u8, u16)> = cells.iter().cloned().filter(|(b, _)| (0x30..=0x39).contains(b)).collect();
            Some(if digits.len() == 10 { digits } else { printable.into_iter().take(10).collect() })
        }
        "tounicode_even" => Some(printable.into_iter().step_by(2).collect()),
        "tounicode_odd" => Some(printable.into_iter().skip(1).step_by(2).collect()),
        "tounicode_one" => Some(printable.into_iter().skip(3).take(1).collect()),
        "tounicode_empty" => Some(vec![]),
        _ => None,
    }
}

/// Adds the font of the given variant to `doc` and returns its dictionary (with /ToUnicode
/// pointing at a stream object of `doc` where the variant has one).
fn font_variant(doc: &mut Document, table: &str, variant: &str) -> Dictionary {
    let mut font = font_dict(table);
    if variant == "widths" {
        font.set("FirstChar", Object::Integer(0));
        font.set("LastChar", Object::Integer(255));
        font.set("Widths", Object::Array((0..256).map(|_| Object::Integer(600)).collect()));
        let mut fd = Dictionary::new();
        fd.set("Type", Object::Name(b"FontDescriptor".to_vec()));
        fd.set("FontName", Object::Name(b"Courier".to_vec()));
        fd.set("Flags", Object::Integer(33));
        let id = doc.add_object(fd);
        font.set("FontDescriptor", Object::Reference(id));
    }
    if let Some(pairs) = variant_pairs(table, variant) {
        let id = doc.add_object(Stream::new(Dictionary::new(), to_unicode_cmap(&pairs, variant == "tounicode_ranges")));
        font.set("ToUnicode", Object::Reference(id));
    }
    font
}

/// Decode `bytes` with the encoding that get_font_encoding returns for the font variant.
fn dec_variant(table: &str, variant: &str, bytes: &[u8]) -> Result<String, String> {
    let mut doc = Document::with_version("1.5");
    let font = font_variant(&mut doc, table, variant);
    let enc = match util::guard(|| font.get_font_encoding(&doc)) {
        Ok(Ok(e)) => e,
        Ok(Err(e)) => return Err(format!("get_font_encoding error: {}", e)),
        Err(p) => return Err(format!("get_font_encoding {}", p)),
    };
    dec(&enc, bytes)
}

fn with_encoding<T>(table: &str, f: impl FnOnce(&Encoding) -> T) -> Result<T, String> {
    let doc = Document::with_version("1.5");
    let font = font_dict(table);
    let enc = match util::guard(|| font.get_font_encoding(&doc)) {
        Ok(Ok(e)) => e,
        Ok(Err(e)) => return Err(format!("get_font_encoding error: {}", e)),
        Err(p) => return Err(format!("get_font_encoding {}", p)),
    };
    if !matches!(enc, Encoding::OneByteEncoding(_)) {
        return Err(format!("get_font_encoding({}) returned {:?}, not a one-byte table", table, enc));
    }
    Ok(f(&enc))
}

fn dec(enc: &Encoding, bytes: &[u8]) -> Result<String, String> {
    match util::guard(|| Document::decode_text(enc, bytes)) {
        Ok(Ok(s)) => Ok(s),
        Ok(Err(e)) => Err(format!("decode_text error: {}", e)),
        Err(p) => Err(format!("decode_text {}", p)),
    }
}

fn enc_text(enc: &Encoding, text: &str) -> Result<Vec<u8>, String> {
    util::guard(|| Document::encode_text(enc, text)).map_err(|p| format!("encode_text {}", p))
}

/// decode never fails and decode(encode(decode(b))) == decode(b) for the byte string `b`.
fn check_cell(table: &str, bytes: &[u8]) -> Option<String> {
    let r = with_encoding(table, |enc| {
        let d = dec(enc, bytes)?;
        let e = enc_text(enc, &d)?;
        let d2 = dec(enc, &e)?;
        if d2 != d {
            return Err(format!("decode({}) = {:?}, encode gives {}, which decodes to {:?}", hex(bytes), d, hex(&e), d2));
        }
        Ok(())
    });
    match r {
        Ok(Ok(())) => None,
        Ok(Err(m)) | Err(m) => Some(m),
    }
}

/// The published cell (byte, scalar) of `table`: lopdf decodes the byte to exactly that character.
fn check_published(table: &str, byte: u8, scalar: u16) -> Option<String> {
    let want = string_of(&[scalar as u32]);
    match with_encoding(table, |enc| dec(enc, &[byte])) {
        Ok(Ok(d)) if d == want => None,
        Ok(Ok(d)) => Some(format!("byte {:02X} decodes to {:?} = {:x?}", byte, d, scalars_of(&d))),
        Ok(Err(m)) | Err(m) => Some(m),
    }
}

fn part_tables(run: &Run) -> Vec<(String, Vec<u8>)> {
    let mut repertoires = vec![];
    let mut info = serde_json::Map::new();
    for table in TABLES {
        // the whole table, read through the public path
        let cells: Vec<Result<String, String>> = match with_encoding(table, |enc| (0..=255u8).map(|b| dec(enc, &[b])).collect()) {
            Ok(c) => c,
            Err(m) => {
                run.fail(None, json!({"kind": "cell", "table": table, "bytes": ""}), &m, "get_font_encoding returns the predefined table");
                continue;
            }
        };
        run.eval(256);
        for b in 0..=255u8 {
            run.eval(1);
            if let Some(m) = check_cell(table, &[b]) {
                run.fail(None, json!({"kind": "cell", "table": table, "bytes": hex(&[b])}), &m, "decode never fails and decode(encode(decode(b))) == decode(b)");
            }
        }
        // all 256 bytes as one string, ascending and descending
        let asc: Vec<u8> = (0..=255u8).collect();
        let desc: Vec<u8> = (0..=255u8).rev().collect();
        for s in [&asc, &desc] {
            run.eval(1);
            if let Some(m) = check_cell(table, s) {
                run.fail(None, json!({"kind": "cell", "table": table, "bytes": hex(s)}), &m, "decode never fails and decode(encode(decode(b))) == decode(b)");
            }
        }
        if run.thorough {
            // all byte pairs (order and duplicates inside one string)
            util::par_for(256, |a| {
                for b in 0..=255u8 {
                    if let Some(m) = check_cell(table, &[a as u8, b]) {
                        run.fail(None, json!({"kind": "cell", "table": table, "bytes": hex(&[a as u8, b])}), &m, "decode never fails and decode(encode(decode(b))) == decode(b)");
                    }
                }
            });
            run.eval(65536);
            run.nontrivial(65536);
            run.add("table_byte_pairs", 65536);
        }
        let rep: Vec<u8> = (0..=255u8).filter(|b| matches!(&cells[*b as usize], Ok(s) if !s.is_empty())).collect();
        let mut ti = serde_json::Map::new();
        ti.insert("repertoire_bytes".into(), json!(rep.len()));
        if let Some(p) = published(table) {
            for (b, v) in &p.cells {
                run.eval(1);
                if let Some(m) = check_published(table, *b, *v) {
                    run.fail(
                        None,
                        json!({"kind": "published", "table": table, "byte": b, "scalar": v}),
                        &m,
                        &format!("the published {} table has U+{:04X} at byte {:02X}", table, v, b),
                    );
                }
            }
            // the other direction: a Latin-1 character U+00A1-U+00FF occurs in no cell but its published one
            let ex: Vec<u8> = p.excluded.iter().map(|e| e.0).collect();
            for b in 0..=255u8 {
                if ex.contains(&b) {
                    continue;
                }
                if let Ok(s) = &cells[b as usize] {
                    let sc = scalars_of(s);
                    if sc.len() == 1 && (0xa1..=0xff).contains(&sc[0]) && !p.cells.contains(&(b, sc[0] as u16)) {
                        run.fail(
                            None,
                            json!({"kind": "published", "table": table, "byte": b, "scalar": Value::Null}),
                            &format!("byte {:02X} decodes to U+{:04X}", b, sc[0]),
                            &format!("the published {} table does not have that Latin-1 character at byte {:02X}", table, b),
                        );
                    }
                }
            }
            ti.insert("published_cells_compared".into(), json!(p.cells.len()));
            ti.insert(
                "excluded_cells".into(),
                Value::Array(
                    p.excluded
                        .iter()
                        .map(|(b, why)| json!({"byte": format!("{:02X}", b), "why": why, "lopdf_decodes_to": match &cells[*b as usize] { Ok(s) => json!(scalars_of(s).iter().map(|c| format!("U+{:04X}", c)).collect::<Vec<_>>()), Err(e) => json!(e) }}))
                        .collect(),
                ),
            );
            run.add("published_cells", p.cells.len() as u64);
        }
        info.insert(table.to_string(), Value::Object(ti));
        repertoires.push((table.to_string(), rep));
    }
    run.nontrivial(5 * 256);
    run.add("table_cells", 5 * 256);
    run.set("tables", Value::Object(info));
    run.sample(json!({"part": "b", "table": "WinAnsiEncoding", "byte": "E9", "decodes_to": with_encoding("WinAnsiEncoding", |e| dec(e, &[0xe9])).ok().and_then(|r| r.ok())}));
    repertoires
}

// ---------------------------------------------------------------------------------------------
// (c) extraction

#[derive(Clone, Debug)]
struct Block {
    bytes: Vec<u8>,
    /// false: `(..) Tj`, true: `[(..)] TJ`
    tj_array: bool,
    hex: bool,
    /// TJ only: the bytes are shown as this many strings (0 and 1: one string) with a number
    /// between neighbours (-100 <= number <= 100: extract_text adds nothing for those)
    pieces: usize,
}

/// The Tj / TJ operation that shows the block.
fn show_operation(b: &Block) -> Operation {
    let fmt = if b.hex { StringFormat::Hexadecimal } else { StringFormat::Literal };
    if !b.tj_array {
        return Operation::new("Tj", vec![Object::String(b.bytes.clone(), fmt)]);
    }
    let k = b.pieces.max(1).min(b.bytes.len().max(1));
    let kern = [Object::Integer(-100), Object::Integer(0), Object::Real(-20.5), Object::Integer(50), Object::Real(0.25), Object::Integer(100)];
    let mut arr = vec![];
    let n = b.bytes.len();
    for i in 0..k {
        if i > 0 {
            arr.push(kern[(i - 1) % kern.len()].clone());
        }
        arr.push(Object::String(b.bytes[i * n / k..(i + 1) * n / k].to_vec(), fmt));
    }
    Operation::new("TJ", vec![Object::Array(arr)])
}

fn blocks_to_json(blocks: &[Block]) -> Value {
    Value::Array(blocks.iter().map(|b| json!({"bytes": hex(&b.bytes), "tj_array": b.tj_array, "hex": b.hex, "pieces": b.pieces})).collect())
}

fn blocks_from_json(v: &Value) -> Vec<Block> {
    v.as_array()
        .map(|a| {
            a.iter()
                .map(|b| Block { bytes: unhex(b["bytes"].as_str().unwrap_or("")), tj_array: b["tj_array"].as_bool().unwrap_or(false), hex: b["hex"].as_bool().unwrap_or(false), pieces: b["pieces"].as_u64().unwrap_or(0) as usize })
                .collect()
        })
        .unwrap_or_default()
}

/// A one-page document in the shape of lopdf's own `create_document_with_texts`, with one
/// `BT /F1 12 Tf 100 600 Td <show> ET` group per block and a font that names the encoding.
fn text_doc(table: &str, variant: &str, blocks: &[Block], compress: bool) -> Document {
    let mut doc = Document::with_version("1.5");
    let pages_id = doc.new_object_id();
    let font = font_variant(&mut doc, table, variant);
    let font_id = doc.add_object(font);
    let mut fonts = Dictionary::new();
    fonts.set("F1", Object::Reference(font_id));
    let mut res = Dictionary::new();
    res.set("Font", Object::Dictionary(fonts));
    let resources_id = doc.add_object(res);
    let mut ops = vec![];
    for b in blocks {
        ops.push(Operation::new("BT", vec![]));
        ops.push(Operation::new("Tf", vec![Object::Name(b"F1".to_vec()), Object::Integer(12)]));
        ops.push(Operation::new("Td", vec![Object::Integer(100), Object::Integer(600)]));
        ops.push(show_operation(b));
        ops.push(Operation::new("ET", vec![]));
    }
    let content = Content { operations: ops }.encode().expect("encode");
    let content_id = doc.add_object(Stream::new(Dictionary::new(), content));
    let mut page = Dictionary::new();
    page.set("Type", Object::Name(b"Page".to_vec()));
    page.set("Parent", Object::Reference(pages_id));
    page.set("Contents", Object::Reference(content_id));
    let page_id = doc.add_object(page);
    let mut pages = Dictionary::new();
    pages.set("Type", Object::Name(b"Pages".to_vec()));
    pages.set("Kids", Object::Array(vec![Object::Reference(page_id)]));
    pages.set("Count", Object::Integer(1));
    pages.set("Resources", Object::Reference(resources_id));
    pages.set("MediaBox", Object::Array(vec![0.into(), 0.into(), 595.into(), 842.into()]));
    doc.objects.insert(pages_id, Object::Dictionary(pages));
    let mut cat = Dictionary::new();
    cat.set("Type", Object::Name(b"Catalog".to_vec()));
    cat.set("Pages", Object::Reference(pages_id));
    let cat_id = doc.add_object(cat);
    doc.trailer.set("Root", Object::Reference(cat_id));
    if compress {
        doc.compress();
    }
    doc
}

/// What extraction must return: the decoded text of every block, plus exactly what
/// `extract_text` adds (a space after a TJ array, a line feed at ET unless the text ends in one).
fn expected_extraction(table: &str, blocks: &[Block]) -> Result<String, String> {
    with_encoding(table, |enc| {
        let mut out = String::new();
        for b in blocks {
            let mut t = dec(enc, &b.bytes)?;
            if b.tj_array {
                t.push(' ');
            }
            if !t.ends_with('\n') {
                t.push('\n');
            }
            out.push_str(&t);
        }
        Ok(out)
    })?
}

fn extract(doc: &Document) -> Result<String, String> {
    match util::guard(|| doc.extract_text(&[1])) {
        Ok(Ok(s)) => Ok(s),
        Ok(Err(e)) => Err(format!("extract_text error: {}", e)),
        Err(p) => Err(format!("extract_text {}", p)),
    }
}

/// Returns (number of extract_text executions, first failure).
fn check_extraction(table: &str, blocks: &[Block], compress: bool) -> (u64, Option<String>) {
    check_extraction_v(table, "plain", blocks, compress)
}

fn check_extraction_v(table: &str, variant: &str, blocks: &[Block], compress: bool) -> (u64, Option<String>) {
    let want = match expected_extraction(table, blocks) {
        Ok(w) => w,
        Err(m) => return (0, Some(m)),
    };
    let doc = text_doc(table, variant, blocks, compress);
    let mut n = 0;
    let stages: [(&str, Option<bool>); 3] = [("built document", None), ("after save (table) + load", Some(true)), ("after save (stream) + load", Some(false))];
    for (label, fmt) in stages {
        let d = match fmt {
            None => doc.clone(),
            Some(t) => match util::save_bytes(&doc, t).and_then(|b| util::load(&b)) {
                Ok(d) => d,
                Err(e) => return (n, Some(format!("{}: {}", label, e))),
            },
        };
        // twice on the same document: the second call returns what the first did
        for call in ["", ", second call"] {
            n += 1;
            match extract(&d) {
                Err(e) => return (n, Some(format!("{}{}: {}", label, call, e))),
                Ok(got) if got != want => return (n, Some(format!("{}{}: {}", label, call, diff_text(&got, &want)))),
                Ok(_) => {}
            }
        }
        // the sibling entry point: the chunks of extract_text_chunks, joined
        n += 1;
        match util::guard(|| d.extract_text_chunks(&[1])) {
            Err(p) => return (n, Some(format!("{}: extract_text_chunks {}", label, p))),
            Ok(chunks) => {
                let mut joined = String::new();
                for c in chunks {
                    match c {
                        Ok(t) => joined.push_str(&t),
                        Err(e) => return (n, Some(format!("{}: extract_text_chunks returned an error chunk: {}", label, e))),
                    }
                }
                if joined != want {
                    return (n, Some(format!("{}: extract_text_chunks joined: {}", label, diff_text(&joined, &want))));
                }
            }
        }
    }
    (n, None)
}

/// Where two texts first differ, with a little context (texts may be long).
fn diff_text(got: &str, want: &str) -> String {
    let (g, w): (Vec<char>, Vec<char>) = (got.chars().collect(), want.chars().collect());
    let at = g.iter().zip(w.iter()).position(|(a, b)| a != b).unwrap_or(g.len().min(w.len()));
    let lo = at.saturating_sub(4);
    let gs: String = g[lo..(at + 12).min(g.len())].iter().collect();
    let ws: String = w[lo..(at + 12).min(w.len())].iter().collect();
    format!("extracted {} characters, expected {}; first difference at character {}: got ..{:?} = {:x?}, expected ..{:?} = {:x?}", g.len(), w.len(), at, gs, scalars_of(&gs), ws, scalars_of(&ws))
}

fn run_extraction(run: &Run, part: &str, table: &str, blocks: &[Block], compress: bool) {
    let (n, r) = check_extraction(table, blocks, compress);
    run.eval(n);
    if let Some(m) = r {
        run.fail(
            None,
            json!({"kind": "extract", "part": part, "table": table, "blocks": blocks_to_json(blocks), "compress": compress}),
            &m,
            "extract_text(&[1]) == decoded text of every shown string + the space after a TJ array + the line feed at ET",
        );
    }
}

fn part_extraction(run: &Run, repertoires: &[(String, Vec<u8>)]) {
    // singles: table x repertoire byte x {Tj literal, Tj hex, TJ}
    let mut singles: Vec<(usize, Block)> = vec![];
    for (ti, (_, rep)) in repertoires.iter().enumerate() {
        for &b in rep {
            for (tj_array, hexs) in [(false, false), (false, true), (true, false)] {
                singles.push((ti, Block { bytes: vec![b], tj_array, hex: hexs, pieces: 0 }));
            }
        }
    }
    util::par_for(singles.len(), |i| {
        let (ti, b) = &singles[i];
        run_extraction(run, "single", &repertoires[*ti].0, std::slice::from_ref(b), i % 2 == 1);
    });
    run.nontrivial(singles.len() as u64);
    run.add("extraction_docs", singles.len() as u64);
    if let Some((ti, b)) = singles.last() {
        run.sample(json!({"part": "c-single", "table": repertoires[*ti].0, "blocks": blocks_to_json(std::slice::from_ref(b)),
                          "content": String::from_utf8_lossy(&Content { operations: vec![Operation::new("Tj", vec![Object::String(b.bytes.clone(), StringFormat::Literal)])] }.encode().unwrap())}));
    }
    // the whole repertoire in one string, each way of showing
    let mut whole = vec![];
    for (ti, (_, rep)) in repertoires.iter().enumerate() {
        for (tj_array, hexs) in [(false, false), (false, true), (true, false), (true, true)] {
            for compress in [false, true] {
                whole.push((ti, Block { bytes: rep.clone(), tj_array, hex: hexs, pieces: 0 }, compress));
            }
        }
    }
    // the whole repertoire as one TJ array of several strings with small adjustments between them
    for (ti, (_, rep)) in repertoires.iter().enumerate() {
        for pieces in [2usize, 5, rep.len()] {
            for hexs in [false, true] {
                whole.push((ti, Block { bytes: rep.clone(), tj_array: true, hex: hexs, pieces }, pieces % 2 == 0));
            }
        }
    }
    util::par_for(whole.len(), |i| {
        let (ti, b, c) = &whole[i];
        run_extraction(run, "whole_repertoire", &repertoires[*ti].0, std::slice::from_ref(b), *c);
    });
    run.nontrivial(whole.len() as u64);
    run.add("extraction_docs", whole.len() as u64);
    // ordered pairs of repertoire bytes: one document per (table, first byte), one group per second byte
    let mut firsts: Vec<(usize, u8)> = vec![];
    for (ti, (_, rep)) in repertoires.iter().enumerate() {
        for (k, &b) in rep.iter().enumerate() {
            // first bytes that a writer may treat specially (control range, delimiters, escape characters, digits
            // that can merge with an octal escape before them) are always taken, the others by the seed's slice
            let sharp = b < 0x21 || b == 0x7f || b"()\\%#<>[]/{}0189".contains(&b);
            if run.thorough || sharp || k as u64 % 16 == run.seed % 16 {
                firsts.push((ti, b));
            }
        }
    }
    let pairs = AtomicU64::new(0);
    util::par_for(firsts.len(), |i| {
        let (ti, a) = firsts[i];
        let rep = &repertoires[ti].1;
        let blocks: Vec<Block> = rep.iter().enumerate().map(|(k, &b)| Block { bytes: vec![a, b], tj_array: k % 3 == 2, hex: k % 2 == 1, pieces: 0 }).collect();
        pairs.fetch_add(blocks.len() as u64, Ordering::Relaxed);
        run_extraction(run, "pairs", &repertoires[ti].0, &blocks, i % 2 == 0);
    });
    // one case per document (a document holds one group per second byte; the pairs are counted separately)
    run.nontrivial(firsts.len() as u64);
    run.add("extraction_docs", firsts.len() as u64);
    run.add("extraction_pairs", pairs.load(Ordering::Relaxed));
    if !run.thorough {
        run.set("extraction_pairs_slice", json!(format!("first byte index mod 16 == {} plus every control / delimiter / escape / digit first byte (all ordered pairs in thorough)", run.seed % 16)));
    }
}

// ---------------------------------------------------------------------------------------------
// (c') several pages, each with its own Resources dictionary and its own font named /F1

#[derive(Clone, Debug)]
struct PageSpec {
    table: String,
    blocks: Vec<Block>,
}

fn pages_to_json(pages: &[PageSpec]) -> Value {
    Value::Array(pages.iter().map(|p| json!({"table": p.table, "blocks": blocks_to_json(&p.blocks)})).collect())
}

fn pages_from_json(v: &Value) -> Vec<PageSpec> {
    v.as_array()
        .map(|a| a.iter().map(|p| PageSpec { table: p["table"].as_str().unwrap_or("").to_string(), blocks: blocks_from_json(&p["blocks"]) }).collect())
        .unwrap_or_default()
}

fn content_of(blocks: &[Block]) -> Vec<u8> {
    let mut ops = vec![];
    for b in blocks {
        ops.push(Operation::new("BT", vec![]));
        ops.push(Operation::new("Tf", vec![Object::Name(b"F1".to_vec()), Object::Integer(12)]));
        ops.push(Operation::new("Td", vec![Object::Integer(100), Object::Integer(600)]));
        ops.push(show_operation(b));
        ops.push(Operation::new("ET", vec![]));
    }
    Content { operations: ops }.encode().expect("encode")
}

/// One page per entry. Every page has its own /Resources (odd pages: a direct dictionary, even
/// pages: a reference) whose /Font dictionary names that page's font /F1; the Pages node has none.
fn multi_doc(pages: &[PageSpec], compress: bool) -> Document {
    let mut doc = Document::with_version("1.5");
    let pages_id = doc.new_object_id();
    let mut kids = vec![];
    for (i, p) in pages.iter().enumerate() {
        let font_id = doc.add_object(font_dict(&p.table));
        let mut fonts = Dictionary::new();
        fonts.set("F1", Object::Reference(font_id));
        let mut res = Dictionary::new();
        res.set("Font", Object::Dictionary(fonts));
        let content_id = doc.add_object(Stream::new(Dictionary::new(), content_of(&p.blocks)));
        let mut page = Dictionary::new();
        page.set("Type", Object::Name(b"Page".to_vec()));
        page.set("Parent", Object::Reference(pages_id));
        page.set("Contents", Object::Reference(content_id));
        if i % 2 == 0 {
            page.set("Resources", Object::Dictionary(res));
        } else {
            let rid = doc.add_object(res);
            page.set("Resources", Object::Reference(rid));
        }
        kids.push(Object::Reference(doc.add_object(page)));
    }
    let mut node = Dictionary::new();
    node.set("Type", Object::Name(b"Pages".to_vec()));
    node.set("Count", Object::Integer(kids.len() as i64));
    node.set("Kids", Object::Array(kids));
    node.set("MediaBox", Object::Array(vec![0.into(), 0.into(), 595.into(), 842.into()]));
    doc.objects.insert(pages_id, Object::Dictionary(node));
    let mut cat = Dictionary::new();
    cat.set("Type", Object::Name(b"Catalog".to_vec()));
    cat.set("Pages", Object::Reference(pages_id));
    let cat_id = doc.add_object(cat);
    doc.trailer.set("Root", Object::Reference(cat_id));
    if compress {
        doc.compress();
    }
    doc
}

fn extract_pages(doc: &Document, order: &[u32]) -> Result<String, String> {
    match util::guard(|| doc.extract_text(order)) {
        Ok(Ok(s)) => Ok(s),
        Ok(Err(e)) => Err(format!("extract_text error: {}", e)),
        Err(p) => Err(format!("extract_text {}", p)),
    }
}

/// extract_text(order) == the expected text of the listed pages in that order, each page decoded
/// with the table of *its own* font, on the built document and after save+load in both formats.
fn check_multi(pages: &[PageSpec], orders: &[Vec<u32>], compress: bool) -> (u64, Option<String>) {
    let mut per_page = vec![];
    for p in pages {
        match expected_extraction(&p.table, &p.blocks) {
            Ok(w) => per_page.push(w),
            Err(m) => return (0, Some(m)),
        }
    }
    let doc = multi_doc(pages, compress);
    let mut n = 0;
    let stages: [(&str, Option<bool>); 3] = [("built document", None), ("after save (table) + load", Some(true)), ("after save (stream) + load", Some(false))];
    for (label, fmt) in stages {
        let d = match fmt {
            None => doc.clone(),
            Some(t) => match util::save_bytes(&doc, t).and_then(|b| util::load(&b)) {
                Ok(d) => d,
                Err(e) => return (n, Some(format!("{}: {}", label, e))),
            },
        };
        for order in orders {
            let want: String = order.iter().map(|p| per_page[*p as usize - 1].as_str()).collect();
            n += 1;
            match extract_pages(&d, order) {
                Err(e) => return (n, Some(format!("{}, pages {:?}: {}", label, order, e))),
                Ok(got) if got != want => {
                    let at = got.chars().zip(want.chars()).position(|(a, b)| a != b).unwrap_or(got.chars().count().min(want.chars().count()));
                    let g: String = got.chars().skip(at.saturating_sub(3)).take(12).collect();
                    let w: String = want.chars().skip(at.saturating_sub(3)).take(12).collect();
                    return (
                        n,
                        Some(format!(
                            "{}, extract_text(&{:?}) (page tables {:?}): differs at character {}: got ..{:?} = {:x?}, expected ..{:?} = {:x?}",
                            label,
                            order,
                            pages.iter().map(|p| p.table.as_str()).collect::<Vec<_>>(),
                            at,
                            g,
                            scalars_of(&g),
                            w,
                            scalars_of(&w)
                        )),
                    );
                }
                Ok(_) => {}
            }
        }
    }
    (n, None)
}

fn run_multi(run: &Run, part: &str, pages: &[PageSpec], orders: &[Vec<u32>], compress: bool) {
    let (n, r) = check_multi(pages, orders, compress);
    run.eval(n);
    if let Some(m) = r {
        run.fail(
            None,
            json!({"kind": "multi", "part": part, "pages": pages_to_json(pages), "orders": orders, "compress": compress}),
            &m,
            "extract_text(pages) == for every listed page, in order, the text decoded with that page's own font encoding (+ the space after a TJ array, the line feed at ET)",
        );
    }
}

fn part_multipage(run: &Run, repertoires: &[(String, Vec<u8>)]) {
    // what each table makes of each byte (None = not in the repertoire)
    let cell = |ti: usize, b: u8| -> Option<String> { with_encoding(&repertoires[ti].0, |e| dec(e, &[b])).ok().and_then(|r| r.ok()).filter(|s| !s.is_empty()) };
    let cells: Vec<Vec<Option<String>>> = (0..repertoires.len()).map(|ti| (0..=255u8).map(|b| cell(ti, b)).collect()).collect();
    // bytes of table a's repertoire that table b decodes differently (or not at all)
    let differing = |a: usize, b: usize| -> Vec<u8> { repertoires[a].1.iter().cloned().filter(|&x| cells[a][x as usize] != cells[b][x as usize]).collect() };
    let page_for = |a: usize, other: usize| -> PageSpec {
        let mut blocks = vec![];
        let d = differing(a, other);
        if !d.is_empty() {
            blocks.push(Block { bytes: d.clone(), tj_array: false, hex: false, pieces: 0 });
            blocks.push(Block { bytes: d, tj_array: true, hex: true, pieces: 0 });
        }
        blocks.push(Block { bytes: repertoires[a].1.clone(), tj_array: false, hex: false, pieces: 0 });
        PageSpec { table: repertoires[a].0.clone(), blocks }
    };
    let n = repertoires.len();
    let mut docs: Vec<(Vec<PageSpec>, Vec<Vec<u32>>)> = vec![];
    let mut diff_info = serde_json::Map::new();
    for a in 0..n {
        for b in 0..n {
            if a == b {
                continue;
            }
            diff_info.insert(format!("{} vs {}", repertoires[a].0, repertoires[b].0), json!(differing(a, b).len()));
            docs.push((vec![page_for(a, b), page_for(b, a)], vec![vec![1, 2], vec![2, 1], vec![1], vec![2], vec![2, 1, 2]]));
        }
    }
    // the same table on both pages (the cached entry is the right one by luck): control cases
    for a in 0..n {
        docs.push((vec![page_for(a, a), page_for(a, a)], vec![vec![1, 2], vec![2, 1]]));
    }
    // one document with all five, every order of the five pages
    if n >= 2 {
        let pages: Vec<PageSpec> = (0..n).map(|a| page_for(a, (a + 1) % n)).collect();
        let orders: Vec<Vec<u32>> = (0..vharness::gen::factorial(n)).map(|i| vharness::gen::nth_permutation(n, i).iter().map(|p| *p as u32 + 1).collect()).collect();
        docs.push((pages, orders));
    }
    let extracts = AtomicU64::new(0);
    util::par_for(docs.len() * 2, |i| {
        let (pages, orders) = &docs[i / 2];
        let compress = i % 2 == 1;
        extracts.fetch_add(orders.len() as u64 * 3, Ordering::Relaxed);
        run_multi(run, "multipage", pages, orders, compress);
    });
    run.nontrivial(docs.len() as u64 * 2);
    run.add("extraction_docs", docs.len() as u64 * 2);
    run.add("multipage_docs", docs.len() as u64 * 2);
    run.add("multipage_extract_calls", extracts.load(Ordering::Relaxed));
    run.set("multipage_differing_bytes", Value::Object(diff_info));
    if let Some((pages, orders)) = docs.first() {
        run.sample(json!({"part": "c-multipage", "page_tables": pages.iter().map(|p| p.table.clone()).collect::<Vec<_>>(), "orders": orders,
                          "page_1_first_block": hex(&pages[0].blocks[0].bytes), "resources": "own dictionary per page, font named /F1 on every page"}));
    }
}

// ---------------------------------------------------------------------------------------------
// (a') long text strings: a decoder that works in blocks must not care where a block ends

/// `lead` copies of `filler`, then `mid`, then `tail`; or (when `period` > 0) `lead` characters of
/// which every `period`-th (counting from `shift`) is U+1F600 and the others are `filler`.
#[derive(Clone, Debug)]
struct LongText {
    filler: u32,
    lead: usize,
    mid: Vec<u32>,
    tail: Vec<u32>,
    period: usize,
    shift: usize,
}

const ASTRAL: u32 = 0x1f600;

impl LongText {
    fn text(&self) -> String {
        let f = char::from_u32(self.filler).unwrap_or('A');
        let mut s = String::with_capacity(self.lead * 4 + 16);
        if self.period > 0 {
            for i in 0..self.lead {
                s.push(if (i + self.shift) % self.period == 0 { char::from_u32(ASTRAL).unwrap() } else { f });
            }
        } else {
            for _ in 0..self.lead {
                s.push(f);
            }
        }
        s.push_str(&string_of(&self.mid));
        s.push_str(&string_of(&self.tail));
        s
    }
    fn to_json(&self) -> Value {
        json!({"filler": self.filler, "lead": self.lead, "mid": self.mid, "tail": self.tail, "period": self.period, "shift": self.shift})
    }
    fn from_json(v: &Value) -> LongText {
        let list = |x: &Value| -> Vec<u32> { x.as_array().map(|a| a.iter().map(|c| c.as_u64().unwrap_or(0x41) as u32).collect()).unwrap_or_default() };
        LongText {
            filler: v["filler"].as_u64().unwrap_or(0x41) as u32,
            lead: v["lead"].as_u64().unwrap_or(0) as usize,
            mid: list(&v["mid"]),
            tail: list(&v["tail"]),
            period: v["period"].as_u64().unwrap_or(0) as usize,
            shift: v["shift"].as_u64().unwrap_or(0) as usize,
        }
    }
    fn label(&self) -> String {
        if self.period > 0 {
            format!("{} characters, U+{:04X} with U+1F600 at every {}th position (from {}), then {:x?}", self.lead, self.filler, self.period, self.shift, self.tail)
        } else {
            format!("{} x U+{:04X}, then {:x?}, then {:x?}", self.lead, self.filler, self.mid, self.tail)
        }
    }
}

const VIAS: [&str; 3] = ["text_string", "utf16", "utf8"];

fn report_long(run: &Run, part: &str, lt: &LongText, via: &str, msg: &str) {
    let units = lt.text().encode_utf16().count();
    run.fail(
        None,
        json!({"kind": "longtext", "part": part, "via": via, "long": lt.to_json(), "utf16_units": units, "utf8_bytes": lt.text().len()}),
        &format!("{} ({} UTF-16 units, {} UTF-8 bytes): {}", lt.label(), units, lt.text().len(), vharness::run::truncate(msg, 300)),
        match via {
            "text_string" => EXPECT_TEXT,
            "utf16" => "decode_text_string(String(encode_utf16_be(s))) == s",
            _ => "decode_text_string(String(encode_utf8(s))) == s",
        },
    );
}

fn boundary_lengths(max_k: u32) -> Vec<usize> {
    let mut v = vec![];
    for k in 7..=max_k {
        let p = 1usize << k;
        for n in p - 4..=p + 4 {
            v.push(n);
        }
    }
    v
}

fn part_long_text(run: &Run) {
    let fillers: [u32; 3] = [0x41, 0xe9, 0x4e2d]; // 1, 2 and 3 bytes in UTF-8; one UTF-16 unit each
    let tails: [Vec<u32>; 3] = [vec![], vec![0x7a], vec![ASTRAL, 0xe9]];
    let sweep = if run.thorough { 8300 } else { 2100 };
    let max_k = if run.thorough { 17 } else { 13 };
    let mut list: Vec<LongText> = vec![];
    for &filler in &fillers {
        // every lead length: the astral character starts at every offset of every block size below the bound
        for lead in 0..sweep {
            for tail in &tails {
                list.push(LongText { filler, lead, mid: vec![ASTRAL], tail: tail.clone(), period: 0, shift: 0 });
            }
            // no astral character at all: the plain long string
            list.push(LongText { filler, lead, mid: vec![], tail: vec![0xe9], period: 0, shift: 0 });
        }
        for lead in boundary_lengths(max_k) {
            if lead >= sweep {
                list.push(LongText { filler, lead, mid: vec![ASTRAL], tail: vec![0x7a], period: 0, shift: 0 });
                list.push(LongText { filler, lead, mid: vec![0xffff, ASTRAL, ASTRAL], tail: vec![], period: 0, shift: 0 });
            }
        }
        // astral characters at many offsets of one string
        for lead in boundary_lengths(12).into_iter().chain([0, 1, 2, 3, 1500, 2047, 2049]) {
            for period in [1usize, 2, 3, 7, 255, 256, 257, 511, 512, 513] {
                for shift in 0..2 {
                    list.push(LongText { filler, lead, mid: vec![], tail: vec![0xe9], period, shift });
                }
            }
        }
    }
    let chunk = 64;
    util::par_for(list.len().div_ceil(chunk), |c| {
        for lt in &list[c * chunk..((c + 1) * chunk).min(list.len())] {
            let s = lt.text();
            for via in VIAS {
                if let Some(m) = check_text(&s, via) {
                    report_long(run, "long_text", lt, via, &m);
                }
            }
        }
    });
    run.eval(list.len() as u64 * 3);
    run.nontrivial(list.len() as u64 * 3);
    run.add("long_text_strings", list.len() as u64);
    run.set("long_text", json!({"fillers": fillers, "lead_lengths": format!("every n in 0..{} and 2^k-4..2^k+4 for k = 7..{}", sweep, max_k),
                                "shapes": "filler^n + U+1F600 + tail (3 tails); filler^n + U+00E9; periodic U+1F600 (periods 1,2,3,7,255..257,511..513, two shifts)", "encoders": VIAS}));
    run.sample(json!({"part": "a-long", "long": list[list.len() / 2].to_json(), "label": list[list.len() / 2].label()}));
}

/// Totality on long marked byte strings: odd lengths and unpaired surrogates at every offset of
/// the block sizes: Ok or Err, never a panic.
fn part_long_totality(run: &Run) {
    let sweep = if run.thorough { 4200 } else { 2100 };
    let n = AtomicU64::new(0);
    util::par_for(sweep, |lead| {
        let mut base = vec![0xfe, 0xff];
        for _ in 0..lead {
            base.extend_from_slice(&[0x00, 0xe9]);
        }
        let tails: [&[u8]; 6] = [&[0xd8], &[0xd8, 0x3d], &[0xdc, 0x00], &[0xd8, 0x3d, 0xde], &[0xd8, 0x3d, 0x00, 0x41], &[0xdc, 0x00, 0xd8, 0x3d]];
        for t in tails {
            let mut b = base.clone();
            b.extend_from_slice(t);
            let obj = Object::String(b.clone(), StringFormat::Hexadecimal);
            n.fetch_add(1, Ordering::Relaxed);
            if let Err(p) = util::guard(|| decode_text_string(&obj)) {
                run.fail(None, json!({"kind": "longbytes", "part": "long_totality", "units_00e9": lead, "tail": hex(t)}), &format!("decode_text_string {}", p), "decode_text_string returns Ok or Err on every byte string (no panic)");
            }
        }
    });
    run.eval(n.load(Ordering::Relaxed));
    run.nontrivial(n.load(Ordering::Relaxed));
    run.add("long_totality_byte_strings", n.load(Ordering::Relaxed));
}

/// Run `f` on a thread that has never run anything else.
fn on_fresh_thread<T: Send>(f: impl FnOnce() -> T + Send) -> T {
    std::thread::scope(|s| {
        std::thread::Builder::new().stack_size(16 << 20).spawn_scoped(s, f).expect("spawn").join().unwrap_or_else(|_| {
            eprintln!("MACHINERY: helper thread panicked");
            std::process::exit(3)
        })
    })
}

/// State kept between calls: decoding one string, then round-tripping another on the same
/// (otherwise unused) thread. First strings include ones the decoder rejects.
fn seq_first_menu() -> Vec<Vec<u8>> {
    let ts = |s: &str| match text_string(s) {
        Object::String(b, _) => b,
        _ => vec![],
    };
    let rep = |c: char, n: usize| -> String { std::iter::repeat(c).take(n).collect() };
    let mut lone_high_at_block_end = utf16be(&rep('\u{e9}', 511));
    lone_high_at_block_end.extend_from_slice(&[0xd8, 0x3d]);
    let mut odd = utf16be(&rep('\u{e9}', 700));
    odd.push(0xd8);
    let mut bad_utf8 = vec![0xef, 0xbb, 0xbf];
    bad_utf8.extend_from_slice(&[b'a', 0xf0, 0x9f]);
    vec![
        vec![],
        ts("A"),
        ts("\u{e9}"),
        ts("\u{1f600}"),
        ts(&rep('A', 600)),
        ts(&format!("{}\u{1f600}", rep('\u{e9}', 511))),
        ts(&format!("{}\u{1f600}z", rep('\u{4e2d}', 1023))),
        ts(&rep('\u{1f600}', 700)),
        encode_utf8(&format!("{}\u{1f600}", rep('\u{e9}', 2047))),
        vec![0xfe, 0xff, 0xd8, 0x00],
        vec![0xfe, 0xff, 0xdc, 0x00, 0x00],
        lone_high_at_block_end,
        odd,
        bad_utf8,
    ]
}

fn seq_second_menu() -> Vec<LongText> {
    let lt = |filler: u32, lead: usize, mid: Vec<u32>, tail: Vec<u32>| LongText { filler, lead, mid, tail, period: 0, shift: 0 };
    vec![
        lt(0x41, 0, vec![], vec![]),
        lt(0x41, 1, vec![], vec![]),
        lt(0xe9, 1, vec![], vec![]),
        lt(0x41, 0, vec![ASTRAL], vec![]),
        lt(0xe9, 3, vec![ASTRAL], vec![0x7a]),
        lt(0xe9, 510, vec![ASTRAL], vec![0x7a]),
        lt(0xe9, 511, vec![ASTRAL], vec![]),
        lt(0x4e2d, 600, vec![ASTRAL], vec![0xe9]),
        lt(0x41, 300, vec![], vec![]),
    ]
}

fn check_text_seq(first: &[u8], second: &str, via: &str) -> Option<String> {
    on_fresh_thread(|| {
        let obj = Object::String(first.to_vec(), StringFormat::Hexadecimal);
        let _ = util::guard(|| decode_text_string(&obj));
        check_text(second, via)
    })
}

fn part_text_sequences(run: &Run) {
    let firsts = seq_first_menu();
    let seconds = seq_second_menu();
    let mut cases = vec![];
    for f in 0..firsts.len() {
        for s in 0..seconds.len() {
            for via in VIAS {
                cases.push((f, s, via));
            }
        }
    }
    util::par_for(cases.len(), |i| {
        let (f, s, via) = cases[i];
        let text = seconds[s].text();
        if let Some(m) = check_text_seq(&firsts[f], &text, via) {
            run.fail(
                None,
                json!({"kind": "text_seq", "part": "text_sequences", "first_bytes": hex(&firsts[f]), "second": seconds[s].to_json(), "via": via}),
                &format!("after decode_text_string of a {}-byte string ({}..) on the same thread: {}: {}", firsts[f].len(), hex(&firsts[f][..firsts[f].len().min(8)]), seconds[s].label(), vharness::run::truncate(&m, 300)),
                "decode_text_string(text_string(s)) == s whatever was decoded before on the same thread",
            );
        }
    });
    run.eval(cases.len() as u64 * 2);
    run.nontrivial(cases.len() as u64);
    run.add("text_sequence_cases", cases.len() as u64);
}

// ---------------------------------------------------------------------------------------------
// (b') long byte strings through the tables

/// `lead` copies of byte `filler`, then `mid`, then `tail`; or (cycle) the 256 byte values
/// repeated from `filler` on up to length `lead`.
#[derive(Clone, Debug)]
struct LongBytes {
    filler: u8,
    lead: usize,
    mid: Vec<u8>,
    tail: Vec<u8>,
    cycle: bool,
}

impl LongBytes {
    fn bytes(&self) -> Vec<u8> {
        let mut b: Vec<u8> = if self.cycle { (0..self.lead).map(|i| (i + self.filler as usize) as u8).collect() } else { vec![self.filler; self.lead] };
        b.extend_from_slice(&self.mid);
        b.extend_from_slice(&self.tail);
        b
    }
    fn to_json(&self) -> Value {
        json!({"filler": self.filler, "lead": self.lead, "mid": hex(&self.mid), "tail": hex(&self.tail), "cycle": self.cycle})
    }
    fn from_json(v: &Value) -> LongBytes {
        LongBytes {
            filler: v["filler"].as_u64().unwrap_or(0x41) as u8,
            lead: v["lead"].as_u64().unwrap_or(0) as usize,
            mid: unhex(v["mid"].as_str().unwrap_or("")),
            tail: unhex(v["tail"].as_str().unwrap_or("")),
            cycle: v["cycle"].as_bool().unwrap_or(false),
        }
    }
}

/// decode(bytes) is the concatenation of what each byte decodes to alone (a one-byte encoding);
/// re-encoding gives bytes that decode to the same text; Encoding::bytes_to_string /
/// string_to_bytes agree with Document::decode_text / encode_text.
fn check_long_bytes(table: &str, lb: &LongBytes) -> Option<String> {
    let bytes = lb.bytes();
    let r = with_encoding(table, |enc| {
        let mut want = String::new();
        let mut memo: Vec<Option<String>> = vec![None; 256];
        for &b in &bytes {
            if memo[b as usize].is_none() {
                memo[b as usize] = Some(dec(enc, &[b])?);
            }
            want.push_str(memo[b as usize].as_ref().unwrap());
        }
        let d = dec(enc, &bytes)?;
        if d != want {
            return Err(format!("decode of {} bytes: {}", bytes.len(), diff_text(&d, &want).replace("extracted", "decoded")));
        }
        match util::guard(|| enc.bytes_to_string(&bytes)) {
            Ok(Ok(d2)) if d2 == d => {}
            Ok(Ok(d2)) => return Err(format!("Encoding::bytes_to_string differs from Document::decode_text: {}", diff_text(&d2, &d))),
            Ok(Err(e)) => return Err(format!("Encoding::bytes_to_string error: {}", e)),
            Err(p) => return Err(format!("Encoding::bytes_to_string {}", p)),
        }
        let e = enc_text(enc, &d)?;
        let d3 = dec(enc, &e)?;
        if d3 != d {
            return Err(format!("decode({} bytes) re-encoded to {} bytes which decode differently: {}", bytes.len(), e.len(), diff_text(&d3, &d).replace("extracted", "decoded")));
        }
        match util::guard(|| enc.string_to_bytes(&d)) {
            Ok(e2) if e2 == e => {}
            Ok(e2) => return Err(format!("Encoding::string_to_bytes gives {} bytes, Document::encode_text {} bytes", e2.len(), e.len())),
            Err(p) => return Err(format!("Encoding::string_to_bytes {}", p)),
        }
        Ok(())
    });
    match r {
        Ok(Ok(())) => None,
        Ok(Err(m)) | Err(m) => Some(m),
    }
}

fn part_long_tables(run: &Run, repertoires: &[(String, Vec<u8>)]) {
    let sweep = if run.thorough { 8300 } else { 2100 };
    let mut cases: Vec<(usize, LongBytes)> = vec![];
    for (ti, (table, rep)) in repertoires.iter().enumerate() {
        // one repertoire byte per UTF-8 length class of its character (1, 2, 3 bytes), lowest byte first
        let cells = table_cells(table);
        let mut classes: Vec<u8> = vec![];
        for len in 1..=3 {
            if let Some((b, _)) = cells.iter().find(|(b, u)| rep.contains(b) && char::from_u32(*u as u32).map(|c| c.len_utf8()) == Some(len) && *b >= 0x21) {
                classes.push(*b);
            }
        }
        // a byte outside the repertoire (decodes to nothing), if the table has one
        let hole: Option<u8> = (0..=255u8).rev().find(|b| !rep.contains(b));
        for &filler in &classes {
            for &special in &classes {
                for lead in 0..sweep {
                    cases.push((ti, LongBytes { filler, lead, mid: vec![special], tail: vec![filler], cycle: false }));
                }
            }
            if let Some(h) = hole {
                for lead in 0..sweep {
                    cases.push((ti, LongBytes { filler, lead, mid: vec![h, classes[classes.len() - 1]], tail: vec![], cycle: false }));
                }
            }
        }
        for lead in boundary_lengths(if run.thorough { 18 } else { 16 }) {
            for start in [0u8, 0x80] {
                cases.push((ti, LongBytes { filler: start, lead, mid: vec![], tail: vec![], cycle: true }));
            }
        }
    }
    let chunk = 64;
    util::par_for(cases.len().div_ceil(chunk), |c| {
        for (ti, lb) in &cases[c * chunk..((c + 1) * chunk).min(cases.len())] {
            if let Some(m) = check_long_bytes(&repertoires[*ti].0, lb) {
                run.fail(
                    None,
                    json!({"kind": "longcell", "part": "long_tables", "table": repertoires[*ti].0, "long": lb.to_json()}),
                    &format!("{}: {} x {:02X} + {} + {}{}: {}", repertoires[*ti].0, lb.lead, lb.filler, hex(&lb.mid), hex(&lb.tail), if lb.cycle { " (cycle)" } else { "" }, m),
                    "decode(bytes) == the concatenation of the single-byte decodings; decode(encode(decode(bytes))) == decode(bytes); Encoding::bytes_to_string / string_to_bytes agree with Document::decode_text / encode_text",
                );
            }
        }
    });
    run.eval(cases.len() as u64 * 4);
    run.nontrivial(cases.len() as u64);
    run.add("long_table_byte_strings", cases.len() as u64);
    run.set("long_tables", json!({"lead_lengths": format!("every n in 0..{}; cycles of all byte values at 2^k-4..2^k+4, k = 7..{}", sweep, if run.thorough { 18 } else { 16 }),
                                  "fillers_and_specials": "one repertoire byte per UTF-8 length class (1, 2, 3 bytes) of its character, every ordered pair; a byte outside the repertoire followed by a mapped byte"}));
    if let Some((ti, lb)) = cases.get(cases.len() / 2) {
        run.sample(json!({"part": "b-long", "table": repertoires[*ti].0, "long": lb.to_json()}));
    }
}

// ---------------------------------------------------------------------------------------------
// (c'') extraction: long strings, many groups, font variants, documents one after the other

fn run_extraction_v(run: &Run, part: &str, table: &str, variant: &str, blocks: &[Block], compress: bool) {
    let (n, r) = check_extraction_v(table, variant, blocks, compress);
    run.eval(n);
    if let Some(m) = r {
        run.fail(
            None,
            json!({"kind": "extract", "part": part, "table": table, "font": variant, "blocks": blocks_to_json(blocks), "compress": compress}),
            &format!("font {} ({}): {}", table, variant, m),
            "extract_text(&[1]) == decoded text of every shown string + the space after a TJ array + the line feed at ET",
        );
    }
}

fn part_long_extraction(run: &Run, repertoires: &[(String, Vec<u8>)]) {
    let lens: Vec<usize> = if run.thorough { boundary_lengths(17) } else { vec![255, 256, 257, 511, 512, 513, 1023, 1024, 1025, 4095, 4096, 4097, 65535, 65537] };
    let mut docs: Vec<(usize, Vec<Block>, bool)> = vec![];
    for (ti, (_, rep)) in repertoires.iter().enumerate() {
        for (k, &n) in lens.iter().enumerate() {
            let bytes: Vec<u8> = (0..n).map(|i| rep[(i * 7 + k) % rep.len()]).collect();
            docs.push((ti, vec![Block { bytes, tj_array: k % 2 == 1, hex: k % 3 == 0, pieces: [0, 3, 64, 1000][(k / 2) % 4] }], k % 2 == 0));
        }
        // many groups on one page
        let many: Vec<Block> = (0..1000).map(|i| Block { bytes: vec![rep[i % rep.len()], rep[(i / 3) % rep.len()]], tj_array: i % 3 == 2, hex: i % 2 == 1, pieces: 0 }).collect();
        docs.push((ti, many, ti % 2 == 0));
    }
    util::par_for(docs.len(), |i| {
        let (ti, blocks, compress) = &docs[i];
        run_extraction_v(run, "long_extraction", &repertoires[*ti].0, "plain", blocks, *compress);
    });
    run.nontrivial(docs.len() as u64);
    run.add("extraction_docs", docs.len() as u64);
    run.add("long_extraction_docs", docs.len() as u64);
    run.set("long_extraction_lengths", json!(lens));
}

/// Fonts that name a predefined encoding and carry further entries (widths and descriptor, or a
/// /ToUnicode CMap that agrees with the encoding on every code it lists, complete or partial):
/// the text shown with the encoding is what the table says, for every repertoire byte.
fn part_font_variants(run: &Run, repertoires: &[(String, Vec<u8>)]) {
    let mut cases: Vec<(usize, &'static str)> = vec![];
    for ti in 0..repertoires.len() {
        for v in FONT_VARIANTS {
            if v != "plain" {
                cases.push((ti, v));
            }
        }
    }
    let listed = std::sync::Mutex::new(serde_json::Map::new());
    util::par_for(cases.len(), |i| {
        let (ti, variant) = cases[i];
        let (table, rep) = &repertoires[ti];
        if let Some(p) = variant_pairs(table, variant) {
            listed.lock().unwrap().insert(format!("{} {}", table, variant), json!(p.len()));
        }
        // through get_font_encoding + decode_text: every repertoire byte alone and all together
        let mut inputs: Vec<Vec<u8>> = rep.iter().map(|b| vec![*b]).collect();
        inputs.push(rep.clone());
        inputs.push(rep.iter().rev().cloned().collect());
        for b in &inputs {
            run.eval(1);
            let want = match dec_variant(table, "plain", b) {
                Ok(w) => w,
                Err(m) => {
                    run.fail(None, json!({"kind": "fontcell", "part": "font_variants", "table": table, "font": "plain", "bytes": hex(b)}), &m, "decoding with a predefined table never fails");
                    continue;
                }
            };
            let got = dec_variant(table, variant, b);
            if got.as_ref() != Ok(&want) {
                let m = match got {
                    Ok(g) => format!("bytes {}: {}", vharness::run::truncate(&hex(b), 40), diff_text(&g, &want).replace("extracted", "decoded")),
                    Err(e) => e,
                };
                run.fail(
                    None,
                    json!({"kind": "fontcell", "part": "font_variants", "table": table, "font": variant, "bytes": hex(b)}),
                    &format!("font with /Encoding /{} ({}): {}", table, variant, m),
                    "text shown with a predefined encoding decodes as the table says; entries of the font that agree with the table (a consistent /ToUnicode, complete or partial) or do not concern text (widths, descriptor) do not change it",
                );
                // one report per font: the other codes fail the same way
                break;
            }
        }
        // through extract_text, before and after save + load
        let singles: Vec<Block> = rep.iter().enumerate().map(|(k, &b)| Block { bytes: vec![b], tj_array: k % 3 == 2, hex: k % 2 == 1, pieces: 0 }).collect();
        let whole = vec![Block { bytes: rep.clone(), tj_array: false, hex: false, pieces: 0 }, Block { bytes: rep.clone(), tj_array: true, hex: true, pieces: 0 }];
        run_extraction_v(run, "font_variants", table, variant, &singles, i % 2 == 0);
        run_extraction_v(run, "font_variants", table, variant, &whole, i % 2 == 1);
    });
    run.nontrivial(cases.len() as u64 * 3);
    run.add("extraction_docs", cases.len() as u64 * 2);
    run.add("font_variant_cases", cases.len() as u64);
    run.set("font_variants", json!({"variants": FONT_VARIANTS, "codes_listed_by_the_tounicode_cmap": Value::Object(listed.into_inner().unwrap())}));
    let (t0, r0) = &repertoires[0];
    run.sample(json!({"part": "c-font-variants", "table": t0, "font": "tounicode_digits_or_first10", "repertoire_bytes": r0.len(),
                      "tounicode": String::from_utf8_lossy(&to_unicode_cmap(&variant_pairs(t0, "tounicode_digits_or_first10").unwrap_or_default(), false))}));
}

/// Documents extracted one after the other on one (otherwise unused) thread: document A (font
/// /F1 with table a), document B (font /F1 with table b), document A again.
fn check_doc_sequence(tables: &[String], blocks_per: &[Vec<Block>]) -> Option<String> {
    on_fresh_thread(|| {
        let mut wants = vec![];
        for (t, b) in tables.iter().zip(blocks_per) {
            match expected_extraction(t, b) {
                Ok(w) => wants.push(w),
                Err(m) => return Some(m),
            }
        }
        let docs: Vec<Document> = tables.iter().zip(blocks_per).map(|(t, b)| text_doc(t, "plain", b, false)).collect();
        let order: Vec<usize> = (0..docs.len()).chain(0..docs.len()).collect();
        for (step, &k) in order.iter().enumerate() {
            match extract(&docs[k]) {
                Err(e) => return Some(format!("step {} (document {} with {}): {}", step, k, tables[k], e)),
                Ok(got) if got != wants[k] => return Some(format!("step {} (document {} with {}, after documents with {:?}): {}", step, k, tables[k], order[..step].iter().map(|j| tables[*j].as_str()).collect::<Vec<_>>(), diff_text(&got, &wants[k]))),
                Ok(_) => {}
            }
        }
        None
    })
}

fn part_doc_sequences(run: &Run, repertoires: &[(String, Vec<u8>)]) {
    let n = repertoires.len();
    let mut cases = vec![];
    for a in 0..n {
        for b in 0..n {
            cases.push(vec![a, b]);
        }
    }
    cases.push((0..n).collect());
    util::par_for(cases.len(), |i| {
        let tables: Vec<String> = cases[i].iter().map(|t| repertoires[*t].0.clone()).collect();
        let blocks: Vec<Vec<Block>> = cases[i].iter().map(|t| vec![Block { bytes: repertoires[*t].1.clone(), tj_array: false, hex: false, pieces: 0 }]).collect();
        run.eval(2 * tables.len() as u64);
        if let Some(m) = check_doc_sequence(&tables, &blocks) {
            run.fail(
                None,
                json!({"kind": "docseq", "part": "doc_sequences", "tables": tables, "blocks": blocks.iter().map(|b| blocks_to_json(b)).collect::<Vec<_>>()}),
                &m,
                "extract_text of a document returns its text whatever documents were extracted before on the same thread",
            );
        }
    });
    run.nontrivial(cases.len() as u64);
    run.add("document_sequence_cases", cases.len() as u64);
}

// ---------------------------------------------------------------------------------------------
// (c''') font resources inherited along the page tree (ISO 32000-1 7.7.3.4, 7.8.3)
//
// A page-tree document is written out as a tree: every Pages node and every page may carry a
// /Resources entry (direct dictionary, reference, or a reference to an object that is itself a
// reference), whose /Font entry (same three shapes) binds font names to fonts with a predefined
// encoding (each binding direct, by reference or through an alias object). A font name used by a
// page denotes the binding of the NEAREST node on the path page -> root that has it.

#[derive(Clone, Debug, PartialEq)]
struct FontBind {
    name: String,
    table: String,
    /// 0: the font dictionary is written directly into the /Font dictionary, 1: reference, 2: alias
    hops: u8,
}

#[derive(Clone, Debug, PartialEq)]
struct Res {
    /// 0: /Resources is a direct dictionary, 1: a reference, 2: a reference to a reference
    hops: u8,
    font_hops: u8,
    /// /Font present even when `fonts` is empty
    font_key: bool,
    fonts: Vec<FontBind>,
    /// a form XObject /Fm1 whose own resources bind /F1 to a font with this table
    form: Option<String>,
}

impl Res {
    fn binds(&self, name: &str) -> Option<&str> {
        self.fonts.iter().find(|f| f.name == name).map(|f| f.table.as_str())
    }
}

#[derive(Clone, Debug)]
struct Show {
    font: String,
    /// the show starts a new BT .. ET group (the first one always does)
    new_bt: bool,
    /// a `Tf` precedes the show (false: the font selected before stays in force)
    tf: bool,
    block: Block,
}

#[derive(Clone, Debug)]
enum Tree {
    Pages { res: Option<Res>, kids: Vec<Tree> },
    Page { res: Option<Res>, shows: Vec<Show>, do_form: bool },
}

fn res_to_json(r: &Option<Res>) -> Value {
    match r {
        None => Value::Null,
        Some(r) => json!({"hops": r.hops, "font_hops": r.font_hops, "font_key": r.font_key, "form": r.form,
                           "fonts": r.fonts.iter().map(|f| json!({"name": f.name, "table": f.table, "hops": f.hops})).collect::<Vec<_>>()}),
    }
}

fn res_from_json(v: &Value) -> Option<Res> {
    if v.is_null() {
        return None;
    }
    Some(Res {
        hops: v["hops"].as_u64().unwrap_or(0) as u8,
        font_hops: v["font_hops"].as_u64().unwrap_or(0) as u8,
        font_key: v["font_key"].as_bool().unwrap_or(true),
        form: v["form"].as_str().map(|s| s.to_string()),
        fonts: v["fonts"]
            .as_array()
            .map(|a| a.iter().map(|f| FontBind { name: f["name"].as_str().unwrap_or("F1").to_string(), table: f["table"].as_str().unwrap_or("").to_string(), hops: f["hops"].as_u64().unwrap_or(1) as u8 }).collect())
            .unwrap_or_default(),
    })
}

fn tree_to_json(t: &Tree) -> Value {
    match t {
        Tree::Pages { res, kids } => json!({"pages": {"resources": res_to_json(res), "kids": kids.iter().map(tree_to_json).collect::<Vec<_>>()}}),
        Tree::Page { res, shows, do_form } => json!({"page": {"resources": res_to_json(res), "do_form": do_form,
            "shows": shows.iter().map(|s| json!({"font": s.font, "new_bt": s.new_bt, "tf": s.tf, "block": blocks_to_json(std::slice::from_ref(&s.block))[0]})).collect::<Vec<_>>()}}),
    }
}

fn tree_from_json(v: &Value) -> Tree {
    if let Some(p) = v.get("pages") {
        Tree::Pages { res: res_from_json(&p["resources"]), kids: p["kids"].as_array().map(|a| a.iter().map(tree_from_json).collect()).unwrap_or_default() }
    } else {
        let p = &v["page"];
        Tree::Page {
            res: res_from_json(&p["resources"]),
            do_form: p["do_form"].as_bool().unwrap_or(false),
            shows: p["shows"]
                .as_array()
                .map(|a| {
                    a.iter()
                        .map(|s| Show {
                            font: s["font"].as_str().unwrap_or("F1").to_string(),
                            new_bt: s["new_bt"].as_bool().unwrap_or(true),
                            tf: s["tf"].as_bool().unwrap_or(true),
                            block: blocks_from_json(&Value::Array(vec![s["block"].clone()])).pop().unwrap_or(Block { bytes: vec![], tj_array: false, hex: false, pieces: 0 }),
                        })
                        .collect()
                })
                .unwrap_or_default(),
        }
    }
}

/// `o` behind `hops` indirect objects (2: an object whose value is a reference to the object).
fn behind(doc: &mut Document, o: Object, hops: u8) -> Object {
    let mut o = o;
    for _ in 0..hops {
        o = Object::Reference(doc.add_object(o));
    }
    o
}

fn res_value(doc: &mut Document, r: &Res) -> Object {
    let mut res = Dictionary::new();
    res.set("ProcSet", Object::Array(vec![Object::Name(b"PDF".to_vec()), Object::Name(b"Text".to_vec())]));
    if r.font_key || !r.fonts.is_empty() {
        let mut fonts = Dictionary::new();
        for f in &r.fonts {
            let v = behind(doc, Object::Dictionary(font_dict(&f.table)), f.hops);
            fonts.set(f.name.as_bytes().to_vec(), v);
        }
        let v = behind(doc, Object::Dictionary(fonts), r.font_hops);
        res.set("Font", v);
    }
    if let Some(t) = &r.form {
        let font_id = doc.add_object(font_dict(t));
        let mut ffonts = Dictionary::new();
        ffonts.set("F1", Object::Reference(font_id));
        let mut fres = Dictionary::new();
        fres.set("Font", Object::Dictionary(ffonts));
        let mut fd = Dictionary::new();
        fd.set("Type", Object::Name(b"XObject".to_vec()));
        fd.set("Subtype", Object::Name(b"Form".to_vec()));
        fd.set("BBox", Object::Array(vec![0.into(), 0.into(), 10.into(), 10.into()]));
        fd.set("Resources", Object::Dictionary(fres));
        // selects its own /F1 and shows nothing
        let form_id = doc.add_object(Stream::new(fd, b"/F1 12 Tf".to_vec()));
        let mut xo = Dictionary::new();
        xo.set("Fm1", Object::Reference(form_id));
        res.set("XObject", Object::Dictionary(xo));
    }
    behind(doc, Object::Dictionary(res), r.hops)
}

fn content_of_shows(shows: &[Show], do_form: bool) -> Vec<u8> {
    let mut ops = vec![];
    let mut open = false;
    let mut form_done = !do_form;
    let form_ops = |ops: &mut Vec<Operation>| {
        ops.push(Operation::new("q", vec![]));
        ops.push(Operation::new("Do", vec![Object::Name(b"Fm1".to_vec())]));
        ops.push(Operation::new("Q", vec![]));
    };
    for (k, s) in shows.iter().enumerate() {
        if k == 0 || s.new_bt {
            if open {
                ops.push(Operation::new("ET", vec![]));
                if !form_done {
                    form_ops(&mut ops);
                    form_done = true;
                }
            }
            ops.push(Operation::new("BT", vec![]));
            ops.push(Operation::new("Td", vec![Object::Integer(100), Object::Integer(600)]));
            open = true;
        }
        if s.tf {
            ops.push(Operation::new("Tf", vec![Object::Name(s.font.as_bytes().to_vec()), Object::Integer(12)]));
        }
        ops.push(show_operation(&s.block));
    }
    if open {
        ops.push(Operation::new("ET", vec![]));
    }
    if !form_done {
        form_ops(&mut ops);
    }
    Content { operations: ops }.encode().expect("encode")
}

fn build_tree(doc: &mut Document, t: &Tree, parent: Option<(u32, u16)>, res_first: bool) -> ((u32, u16), i64) {
    match t {
        Tree::Pages { res, kids } => {
            let id = doc.new_object_id();
            // object numbers: the Resources of a Pages node before (lower than) or after those of its descendants
            let early = match res {
                Some(r) if res_first => Some(res_value(doc, r)),
                _ => None,
            };
            let mut kid_refs = vec![];
            let mut count = 0;
            for k in kids {
                let (kid, n) = build_tree(doc, k, Some(id), res_first);
                kid_refs.push(Object::Reference(kid));
                count += n;
            }
            let mut node = Dictionary::new();
            node.set("Type", Object::Name(b"Pages".to_vec()));
            node.set("Count", Object::Integer(count));
            node.set("Kids", Object::Array(kid_refs));
            match parent {
                Some(p) => node.set("Parent", Object::Reference(p)),
                None => node.set("MediaBox", Object::Array(vec![0.into(), 0.into(), 595.into(), 842.into()])),
            }
            if let Some(v) = early {
                node.set("Resources", v);
            } else if let Some(r) = res {
                let v = res_value(doc, r);
                node.set("Resources", v);
            }
            doc.objects.insert(id, Object::Dictionary(node));
            (id, count)
        }
        Tree::Page { res, shows, do_form } => {
            let content_id = doc.add_object(Stream::new(Dictionary::new(), content_of_shows(shows, *do_form)));
            let mut page = Dictionary::new();
            page.set("Type", Object::Name(b"Page".to_vec()));
            if let Some(p) = parent {
                page.set("Parent", Object::Reference(p));
            }
            page.set("Contents", Object::Reference(content_id));
            if let Some(r) = res {
                let v = res_value(doc, r);
                page.set("Resources", v);
            }
            (doc.add_object(page), 1)
        }
    }
}

fn tree_doc(t: &Tree, compress: bool, res_first: bool) -> Document {
    let mut doc = Document::with_version("1.5");
    let (root, _) = build_tree(&mut doc, t, None, res_first);
    let mut cat = Dictionary::new();
    cat.set("Type", Object::Name(b"Catalog".to_vec()));
    cat.set("Pages", Object::Reference(root));
    let cat_id = doc.add_object(cat);
    doc.trailer.set("Root", Object::Reference(cat_id));
    if compress {
        doc.compress();
    }
    doc
}

/// The pages of the tree in document order, each with the Resources of the nodes on its path,
/// nearest (the page's own) first.
fn tree_pages<'a>(t: &'a Tree, above: &mut Vec<Option<&'a Res>>, out: &mut Vec<(Vec<Option<&'a Res>>, &'a [Show])>) {
    match t {
        Tree::Pages { res, kids } => {
            above.push(res.as_ref());
            for k in kids {
                tree_pages(k, above, out);
            }
            above.pop();
        }
        Tree::Page { res, shows, .. } => {
            let mut chain = vec![res.as_ref()];
            chain.extend(above.iter().rev().cloned());
            out.push((chain, shows));
        }
    }
}

#[derive(Clone, Debug, PartialEq)]
enum Bound {
    /// bound by the nearest node that has Resources at all: what ISO 32000-1 7.7.3.4 defines
    Nearest(String),
    /// the nearest Resources dictionary does not bind the name, one further up does (nearest such)
    FurtherUp(String),
    Nowhere,
}

fn resolve_name(chain: &[Option<&Res>], name: &str) -> Bound {
    if let Some(t) = chain.iter().flatten().next().and_then(|r| r.binds(name)) {
        return Bound::Nearest(t.to_string());
    }
    match chain.iter().flatten().find_map(|r| r.binds(name)) {
        Some(t) => Bound::FurtherUp(t.to_string()),
        None => Bound::Nowhere,
    }
}

/// The text extraction must return for one page under a name -> table assignment (None: the
/// strings shown with that name contribute nothing). What `extract_text` adds by construction is
/// added: a space after a TJ array, a line feed at ET unless the text since the last Tf ends in one.
fn page_text(shows: &[Show], table_of: &dyn Fn(&str) -> Option<String>) -> Result<String, String> {
    let mut out = String::new();
    let mut cur = String::new();
    let mut font: Option<String> = None;
    let mut open = false;
    let et = |cur: &mut String| {
        if !cur.ends_with('\n') {
            cur.push('\n');
        }
    };
    for (k, s) in shows.iter().enumerate() {
        if k == 0 || s.new_bt {
            if open {
                et(&mut cur);
            }
            open = true;
        }
        if s.tf {
            font = Some(s.font.clone());
            out.push_str(&cur);
            cur.clear();
        }
        if let Some(table) = font.as_deref().and_then(table_of) {
            let t = with_encoding(&table, |e| dec(e, &s.block.bytes))??;
            cur.push_str(&t);
            if s.block.tj_array {
                cur.push(' ');
            }
        }
    }
    if open {
        et(&mut cur);
    }
    out.push_str(&cur);
    Ok(out)
}

/// The accepted texts of one page (first: every name resolved to its nearest binding) and whether
/// the page uses a name its nearest Resources dictionary does not bind.
fn page_alternatives(chain: &[Option<&Res>], shows: &[Show]) -> Result<(Vec<String>, bool), String> {
    let mut names: Vec<&str> = vec![];
    for s in shows {
        if s.tf && !names.contains(&s.font.as_str()) {
            names.push(&s.font);
        }
    }
    let bounds: Vec<Bound> = names.iter().map(|n| resolve_name(chain, n)).collect();
    let loose: Vec<usize> = (0..names.len()).filter(|i| matches!(bounds[*i], Bound::FurtherUp(_))).collect();
    let mut alts: Vec<String> = vec![];
    for mask in 0..(1u32 << loose.len()) {
        let table_of = |n: &str| -> Option<String> {
            let i = names.iter().position(|x| *x == n)?;
            match &bounds[i] {
                Bound::Nearest(t) => Some(t.clone()),
                Bound::FurtherUp(t) => {
                    let bit = loose.iter().position(|x| *x == i).unwrap_or(0);
                    if mask >> bit & 1 == 1 {
                        None
                    } else {
                        Some(t.clone())
                    }
                }
                Bound::Nowhere => None,
            }
        };
        let t = page_text(shows, &table_of)?;
        if !alts.contains(&t) {
            alts.push(t);
        }
    }
    Ok((alts, !loose.is_empty()))
}

fn matches_pages(got: &str, order: &[u32], alts: &[Vec<String>]) -> bool {
    match order.first() {
        None => got.is_empty(),
        Some(p) => alts.get(*p as usize - 1).map(|a| a.iter().any(|t| got.starts_with(t.as_str()) && matches_pages(&got[t.len()..], &order[1..], alts))).unwrap_or(false),
    }
}

const EXPECT_TREE: &str = "extract_text(pages) == for every listed page, in order, its shown strings decoded with the encoding of the font that the NEAREST node on the path page -> root binds to the name selected by Tf (+ the space after a TJ array, the line feed at ET)";

/// Returns (extract calls, first failure).
fn check_tree(t: &Tree, orders: &[Vec<u32>], compress: bool, res_first: bool) -> (u64, Option<String>) {
    let mut pages = vec![];
    tree_pages(t, &mut vec![], &mut pages);
    let mut alts: Vec<Vec<String>> = vec![];
    for (chain, shows) in &pages {
        match page_alternatives(chain, shows) {
            Ok((a, _)) => alts.push(a),
            Err(m) => return (0, Some(m)),
        }
    }
    let describe = |order: &[u32]| -> String {
        order
            .iter()
            .map(|p| {
                let (chain, shows) = &pages[*p as usize - 1];
                let mut names: Vec<&str> = vec![];
                for s in shows.iter() {
                    if !names.contains(&s.font.as_str()) {
                        names.push(&s.font);
                    }
                }
                let per: Vec<String> = names
                    .iter()
                    .map(|n| {
                        let levels: Vec<String> = chain.iter().enumerate().filter_map(|(l, r)| r.and_then(|r| r.binds(n)).map(|t| format!("level {} {}", l, t))).collect();
                        format!("/{}: {}", n, levels.join(", "))
                    })
                    .collect();
                format!("page {} [{}]", p, per.join("; "))
            })
            .collect::<Vec<_>>()
            .join(" ")
    };
    let doc = tree_doc(t, compress, res_first);
    let mut n = 0;
    let stages: [(&str, Option<bool>); 3] = [("built document", None), ("after save (table) + load", Some(true)), ("after save (stream) + load", Some(false))];
    for (label, fmt) in stages {
        let d = match fmt {
            None => doc.clone(),
            Some(tb) => match util::save_bytes(&doc, tb).and_then(|b| util::load(&b)) {
                Ok(d) => d,
                Err(e) => return (n, Some(format!("{}: {}", label, e))),
            },
        };
        for (k, order) in orders.iter().enumerate() {
            let want: String = order.iter().map(|p| alts[*p as usize - 1][0].as_str()).collect();
            n += 1;
            match extract_pages(&d, order) {
                Err(e) => return (n, Some(format!("{}, pages {:?}: {}", label, order, e))),
                Ok(got) if !matches_pages(&got, order, &alts) => {
                    return (n, Some(format!("{}, extract_text(&{:?}) (bindings, level 0 = the page: {}): {}", label, order, describe(order), diff_text(&got, &want))));
                }
                Ok(_) => {}
            }
            if k == 0 {
                // the sibling entry point
                n += 1;
                match util::guard(|| d.extract_text_chunks(order)) {
                    Err(p) => return (n, Some(format!("{}: extract_text_chunks {}", label, p))),
                    Ok(chunks) => {
                        let mut joined = String::new();
                        for c in chunks {
                            match c {
                                Ok(t) => joined.push_str(&t),
                                Err(e) => return (n, Some(format!("{}: extract_text_chunks(&{:?}) returned an error chunk: {}", label, order, e))),
                            }
                        }
                        if !matches_pages(&joined, order, &alts) {
                            return (n, Some(format!("{}, extract_text_chunks(&{:?}) joined (bindings: {}): {}", label, order, describe(order), diff_text(&joined, &want))));
                        }
                    }
                }
            }
        }
    }
    (n, None)
}

/// The same tree with every DIRECT /Resources dictionary of a Pages node moved behind a reference.
fn ancestors_by_reference(t: &Tree) -> (Tree, bool) {
    match t {
        Tree::Pages { res, kids } => {
            let mut changed = false;
            let res = res.clone().map(|mut r| {
                if r.hops == 0 {
                    r.hops = 1;
                    changed = true;
                }
                r
            });
            let kids = kids
                .iter()
                .map(|k| {
                    let (k2, c) = ancestors_by_reference(k);
                    changed |= c;
                    k2
                })
                .collect();
            (Tree::Pages { res, kids }, changed)
        }
        page => (page.clone(), false),
    }
}

/// Narrow attribution: some Pages node carries its /Resources as a direct dictionary, AND the same
/// document with exactly those dictionaries moved behind references extracts as expected.
fn classify_tree(t: &Tree, orders: &[Vec<u32>], compress: bool, res_first: bool) -> Option<&'static str> {
    let (neutral, changed) = ancestors_by_reference(t);
    if changed && check_tree(&neutral, orders, compress, res_first).1.is_none() {
        Some("inherited-resources-direct-dict")
    } else {
        None
    }
}

struct Tabs {
    names: Vec<String>,
    reps: Vec<Vec<u8>>,
    cells: Vec<Vec<Option<String>>>,
}

impl Tabs {
    fn new(repertoires: &[(String, Vec<u8>)]) -> Tabs {
        let cell = |t: &str, b: u8| -> Option<String> { with_encoding(t, |e| dec(e, &[b])).ok().and_then(|r| r.ok()).filter(|s| !s.is_empty()) };
        Tabs {
            names: repertoires.iter().map(|r| r.0.clone()).collect(),
            reps: repertoires.iter().map(|r| r.1.clone()).collect(),
            cells: repertoires.iter().map(|r| (0..=255u8).map(|b| cell(&r.0, b)).collect()).collect(),
        }
    }
    fn index(&self, table: &str) -> usize {
        self.names.iter().position(|n| n == table).unwrap_or(0)
    }
    /// no table turns the byte into text with a line feed (the line feed at ET stays unambiguous)
    fn safe(&self, b: u8) -> bool {
        self.cells.iter().all(|c| c[b as usize].as_deref().map(|s| !s.contains('\n') && !s.contains('\r')).unwrap_or(true))
    }
    /// Bytes to show with table `a` when the `rivals` are bound to the same name elsewhere: every
    /// byte of a's repertoire that some rival decodes differently (or not at all), then up to six
    /// bytes all of them decode alike; without rivals (or equal tables) the repertoire.
    fn text(&self, a: usize, rivals: &[usize]) -> Vec<u8> {
        let rep: Vec<u8> = self.reps[a].iter().cloned().filter(|b| self.safe(*b)).collect();
        let mut d: Vec<u8> = rep.iter().cloned().filter(|&x| rivals.iter().any(|&r| self.cells[a][x as usize] != self.cells[r][x as usize])).collect();
        if d.is_empty() {
            return rep;
        }
        let common: Vec<u8> = rep.iter().cloned().filter(|&x| rivals.iter().all(|&r| self.cells[a][x as usize] == self.cells[r][x as usize])).take(6).collect();
        d.extend(common);
        d
    }
}

fn tables_of_tree(t: &Tree, out: &mut Vec<String>) {
    let mut take = |r: &Option<Res>| {
        if let Some(r) = r {
            for f in &r.fonts {
                if !out.contains(&f.table) {
                    out.push(f.table.clone());
                }
            }
            if let Some(f) = &r.form {
                if !out.contains(f) {
                    out.push(f.clone());
                }
            }
        }
    };
    match t {
        Tree::Pages { res, kids } => {
            take(res);
            for k in kids {
                tables_of_tree(k, out);
            }
        }
        Tree::Page { res, .. } => take(res),
    }
}

/// Gives every page its content: each name bound somewhere on the page's path is selected and
/// used - first name in a group of its own, the further names by a Tf inside the same group, then
/// every name again in a second group (TJ); a page that draws the form afterwards shows one more
/// string without a new Tf. The bytes are those on which the tables of the document differ.
fn fill_shows(t: &mut Tree, tabs: &Tabs) {
    let mut all = vec![];
    tables_of_tree(t, &mut all);
    let all: Vec<usize> = all.iter().map(|n| tabs.index(n)).collect();
    fn go(t: &mut Tree, above: &mut Vec<Option<Res>>, tabs: &Tabs, all: &[usize]) {
        match t {
            Tree::Pages { res, kids } => {
                above.push(res.clone());
                for k in kids {
                    go(k, above, tabs, all);
                }
                above.pop();
            }
            Tree::Page { res, shows, do_form } => {
                let mut chain: Vec<Option<&Res>> = vec![res.as_ref()];
                chain.extend(above.iter().rev().map(|r| r.as_ref()));
                let mut names: Vec<String> = vec![];
                for r in chain.iter().flatten() {
                    for f in &r.fonts {
                        if !names.contains(&f.name) {
                            names.push(f.name.clone());
                        }
                    }
                }
                names.sort();
                let mut texts: Vec<(String, Vec<u8>)> = vec![];
                for n in &names {
                    let table = match resolve_name(&chain, n) {
                        Bound::Nearest(t) | Bound::FurtherUp(t) => t,
                        Bound::Nowhere => continue,
                    };
                    let a = tabs.index(&table);
                    let rivals: Vec<usize> = all.iter().cloned().filter(|r| *r != a).collect();
                    texts.push((n.clone(), tabs.text(a, &rivals)));
                }
                shows.clear();
                for (k, (n, bytes)) in texts.iter().enumerate() {
                    shows.push(Show { font: n.clone(), new_bt: k == 0, tf: true, block: Block { bytes: bytes.clone(), tj_array: false, hex: k % 2 == 1, pieces: 0 } });
                }
                if texts.len() > 1 {
                    // back to the first name inside the same group
                    shows.push(Show { font: texts[0].0.clone(), new_bt: false, tf: true, block: Block { bytes: texts[0].1.clone(), tj_array: false, hex: true, pieces: 0 } });
                }
                for (k, (n, bytes)) in texts.iter().enumerate() {
                    shows.push(Show { font: n.clone(), new_bt: k == 0, tf: true, block: Block { bytes: bytes.clone(), tj_array: true, hex: k % 2 == 0, pieces: 3 } });
                }
                if *do_form {
                    if let Some((n, bytes)) = texts.first() {
                        // the name selected last stays in force across the form
                        let last = texts.last().map(|t| t.0.clone()).unwrap_or(n.clone());
                        let b = texts.last().map(|t| t.1.clone()).unwrap_or(bytes.clone());
                        shows.push(Show { font: last, new_bt: true, tf: false, block: Block { bytes: b, tj_array: false, hex: false, pieces: 0 } });
                    }
                }
            }
        }
    }
    go(t, &mut vec![], tabs, &all);
}

fn count_pages(t: &Tree) -> usize {
    match t {
        Tree::Pages { kids, .. } => kids.iter().map(count_pages).sum(),
        Tree::Page { .. } => 1,
    }
}

/// Page orders for one extract_text call: every single page, every order of all pages, and
/// orders that come back to a page.
fn orders_for(n: usize) -> Vec<Vec<u32>> {
    let mut v: Vec<Vec<u32>> = vec![];
    if n == 1 {
        return vec![vec![1], vec![1, 1]];
    }
    for i in 0..vharness::gen::factorial(n) {
        v.push(vharness::gen::nth_permutation(n, i).iter().map(|p| *p as u32 + 1).collect());
    }
    for p in 1..=n as u32 {
        v.push(vec![p]);
    }
    v.push(vec![1, n as u32, 1]);
    v.push(vec![n as u32, 1, n as u32]);
    v
}

fn bind(name: &str, table: &str, hops: u8) -> FontBind {
    FontBind { name: name.to_string(), table: table.to_string(), hops }
}

fn res(hops: u8, font_hops: u8, fonts: Vec<FontBind>) -> Res {
    Res { hops, font_hops, font_key: true, fonts, form: None }
}

fn page(res: Option<Res>) -> Tree {
    Tree::Page { res, shows: vec![], do_form: false }
}

/// A single path: `levels[0]` is the page's Resources, `levels[d]` the root's.
fn path_tree(levels: &[Option<Res>]) -> Tree {
    let mut t = page(levels[0].clone());
    for l in &levels[1..] {
        t = Tree::Pages { res: l.clone(), kids: vec![t] };
    }
    t
}

fn part_inheritance(run: &Run, repertoires: &[(String, Vec<u8>)]) {
    let tabs = Tabs::new(repertoires);
    let nt = tabs.names.len();
    if nt < 5 {
        return; // reported by part_tables
    }
    let name = |i: usize| tabs.names[i % nt].as_str();
    let mut docs: Vec<(&'static str, Tree)> = vec![];
    let hop_menu: Vec<u8> = if run.thorough { vec![0, 1, 2] } else { vec![0, 1] };

    // (1) pairs: /F1 -> a, /F2 -> b at the near level i, /F1 -> b, /F2 -> a at the far level j > i,
    // every ordered pair of tables (equal tables: controls), every depth 1..3 and every i < j,
    // Resources and Font each direct / behind a reference (thorough: / behind an alias) at both levels
    for a in 0..nt {
        for b in 0..nt {
            for d in 1..=3usize {
                for i in 0..d {
                    for j in i + 1..=d {
                        for &rh_i in &hop_menu {
                            for &fh_i in &hop_menu {
                                for &rh_j in &hop_menu {
                                    for &fh_j in &hop_menu {
                                        let mut levels: Vec<Option<Res>> = vec![None; d + 1];
                                        levels[i] = Some(res(rh_i, fh_i, vec![bind("F1", name(a), 1), bind("F2", name(b), 0)]));
                                        levels[j] = Some(res(rh_j, fh_j, vec![bind("F1", name(b), 0), bind("F2", name(a), 1)]));
                                        docs.push(("inherit_pairs", path_tree(&levels)));
                                    }
                                }
                            }
                        }
                    }
                }
            }
        }
    }
    let n_pairs = docs.len();

    // (2) levels: every assignment of {no Resources, Resources that do not bind /F1, Resources
    // binding /F1 to the level's own table} to the levels of a path of depth 1..3 with /F1 bound
    // at least once; the tables rotate through the five; four reference shapes; two ways of not
    // binding /F1 (no /Font entry at all; a /Font dictionary that binds only /F10)
    let level_menu: u32 = 3;
    for d in 1..=3usize {
        for cfg in 0..level_menu.pow(d as u32 + 1) {
            let opt = |l: usize| (cfg / level_menu.pow(l as u32)) % level_menu;
            if !(0..=d).any(|l| opt(l) == 2) {
                continue;
            }
            for rot in 0..nt {
                for shape in 0..4u8 {
                    for decoy in 0..2 {
                        if decoy == 1 && !(0..=d).any(|l| opt(l) == 1) {
                            continue;
                        }
                        let hops = |l: usize| -> (u8, u8, u8) {
                            match shape {
                                0 => (1, 0, 1),
                                1 => (0, 1, 0),
                                2 => ((l % 2) as u8, ((l + 1) % 2) as u8, 1),
                                _ => (2, 2, 2),
                            }
                        };
                        let levels: Vec<Option<Res>> = (0..=d)
                            .map(|l| {
                                let (rh, fh, bh) = hops(l);
                                match opt(l) {
                                    0 => None,
                                    1 if decoy == 0 => Some(Res { hops: rh, font_hops: fh, font_key: false, fonts: vec![], form: None }),
                                    1 => Some(res(rh, fh, vec![bind("F10", name(rot + l + 2), bh)])),
                                    _ => Some(res(rh, fh, vec![bind("F1", name(rot + l), bh)])),
                                }
                            })
                            .collect();
                        docs.push(("inherit_levels", path_tree(&levels)));
                    }
                }
            }
        }
    }
    let n_levels = docs.len() - n_pairs;

    // (3) siblings: pages under different parents (and next to each other) that reach the same
    // name through different nodes; every ordered pair of tables, a third one at the root
    for a in 0..nt {
        for b in 0..nt {
            if a == b {
                continue;
            }
            let c = (0..nt).find(|c| *c != a && *c != b).unwrap_or(0);
            for h in 0..2u8 {
                let r1 = |t: usize| Some(res(1 - h, h, vec![bind("F1", name(t), 1)]));
                let r2 = |t: usize, u: usize| Some(res(1 - h, h, vec![bind("F1", name(t), 1), bind("F2", name(u), 1)]));
                let own = |t: usize| Some(res(h, 1 - h, vec![bind("F1", name(t), h)]));
                let node = |res: Option<Res>, kids: Vec<Tree>| Tree::Pages { res, kids };
                // two parents binding the name differently, the pages have nothing of their own
                docs.push(("inherit_siblings", node(None, vec![node(r1(a), vec![page(None)]), node(r1(b), vec![page(None)])])));
                // one parent overrides the root, the other passes the root's binding on
                docs.push(("inherit_siblings", node(r1(b), vec![node(r1(a), vec![page(None)]), node(None, vec![page(None)])])));
                // two pages of one parent: one with its own binding, one inheriting
                docs.push(("inherit_siblings", node(r1(b), vec![node(None, vec![page(own(a)), page(None)])])));
                // two names swapped between root and parent; a page directly under the root
                docs.push(("inherit_siblings", node(r2(a, b), vec![node(r2(b, a), vec![page(None)]), page(None)])));
                // own / through the parent / through the root, three tables
                docs.push(("inherit_siblings", node(r1(c), vec![page(own(a)), node(r1(b), vec![page(None)]), page(None)])));
                // four pages, two parents, own bindings crossing the parents' ones
                docs.push(("inherit_siblings", node(None, vec![node(r1(a), vec![page(own(b)), page(None)]), node(r1(b), vec![page(own(a)), page(None)])])));
                // a form XObject whose own resources bind /F1 to another table is drawn between two groups
                let mut with_form = own(a).unwrap();
                with_form.form = Some(name(b).to_string());
                docs.push(("inherit_siblings", node(r1(b), vec![Tree::Page { res: Some(with_form.clone()), shows: vec![], do_form: true }, page(None)])));
                // the form is inherited with the Resources of the parent
                let mut parent_form = r1(a).unwrap();
                parent_form.form = Some(name(b).to_string());
                docs.push(("inherit_siblings", node(None, vec![node(Some(parent_form), vec![Tree::Page { res: None, shows: vec![], do_form: true }])])));
            }
        }
    }
    let n_siblings = docs.len() - n_pairs - n_levels;

    for (_, t) in docs.iter_mut() {
        fill_shows(t, &tabs);
    }
    let calls = AtomicU64::new(0);
    let loose_docs = AtomicU64::new(0);
    let overriding = AtomicU64::new(0);
    util::par_for(docs.len() * 2, |i| {
        let (part, t) = &docs[i / 2];
        // the Resources objects of Pages nodes numbered below / above those of their descendants
        let res_first = i % 2 == 1;
        let compress = (i / 2).count_ones() % 2 == 1;
        let orders = orders_for(count_pages(t));
        let mut pages = vec![];
        tree_pages(t, &mut vec![], &mut pages);
        if i % 2 == 0 && pages.iter().any(|(chain, shows)| page_alternatives(chain, shows).map(|a| a.1).unwrap_or(false)) {
            loose_docs.fetch_add(1, Ordering::Relaxed);
        }
        // a name bound at two nodes of one path to different tables
        if i % 2 == 0 && pages.iter().any(|(chain, _)| {
            let b: Vec<&str> = chain.iter().flatten().filter_map(|r| r.binds("F1")).collect();
            b.windows(2).any(|w| w[0] != w[1])
        }) {
            overriding.fetch_add(1, Ordering::Relaxed);
        }
        let (n, r) = check_tree(t, &orders, compress, res_first);
        calls.fetch_add(n, Ordering::Relaxed);
        run.eval(n);
        let case = json!({"kind": "tree", "part": part, "tree": tree_to_json(t), "orders": orders, "compress": compress, "resources_numbered_first": res_first});
        run.nontrivial_hash(vharness::run::fnv(case.to_string().as_bytes()));
        if let Some(m) = r {
            run.fail(classify_tree(t, &orders, compress, res_first), case, &m, EXPECT_TREE);
        }
    });
    run.add("extraction_docs", docs.len() as u64 * 2);
    run.add("inherit_docs", docs.len() as u64 * 2);
    run.set(
        "inheritance",
        json!({"pairs_trees": n_pairs, "levels_trees": n_levels, "siblings_trees": n_siblings, "documents_per_tree": "2 (Resources objects of Pages nodes numbered below / above those of their descendants)",
               "trees_with_a_name_bound_to_different_tables_on_one_path": overriding.load(Ordering::Relaxed),
               "trees_using_a_name_the_nearest_resources_do_not_bind": loose_docs.load(Ordering::Relaxed),
               "extract_calls": calls.load(Ordering::Relaxed),
               "reference_shapes": if run.thorough { "Resources / Font / font each direct, behind a reference, behind an alias object" } else { "Resources / Font each direct or behind a reference (pairs); levels: four shapes incl. alias objects" }}),
    );
    if let Some((part, t)) = docs.get(n_pairs / 2) {
        run.sample(json!({"part": format!("c-{}", part), "tree": tree_to_json(t)}));
    }
    if let Some((part, t)) = docs.last() {
        run.sample(json!({"part": format!("c-{}", part), "tree": tree_to_json(t)}));
    }
}

// ---------------------------------------------------------------------------------------------

fn main() {
    let run = Run::from_args("C16", "exploration");
    util::quiet_panics();
    util::init_pool();
    util::pin_schedule();
    if let Mode::Replay(path) = run.mode.clone() {
        replay(&run, &path);
    }
    run.rule(
        "complete enumerations: every Unicode scalar value as a one-character string x {text_string, encode_utf16_be, encode_utf8}; all \
         strings of length <=3 (thorough: <=5) over the 15-character alphabet x the same three encoders; all byte strings of length \
         <=5 (thorough: <=7) over {FE,FF,EF,BB,BF,00,41,D8,DC} (totality); 5 tables x 256 bytes (+ the 256-byte string both ways, + \
         the published cells; thorough: + all byte pairs); extraction documents = table x repertoire byte x {Tj literal, Tj hex, TJ} \
         + whole repertoire + ordered pairs of repertoire bytes (thorough: all; quick: a seed-rotated slice) + multi-page documents \
         (every ordered pair of the five encodings and one five-page document, each page with its own Resources and a font named \
         /F1, showing the bytes the two tables decode differently and the whole repertoire, extracted in several page orders \
         in one call); escape-shaped strings ESC w ESC, w over {a,Z,1,U+00E9}^k, k<=5, in 8 contexts; long text strings (filler^n + \
         U+1F600 + tail for every n below 2100 (thorough 8300) and around 2^k, three fillers of 1 / 2 / 3 UTF-8 bytes, periodic astral \
         characters) x the three encoders; long marked byte strings ending in unpaired surrogates / half units (totality); pairs \
         (string decoded first, string round-tripped next) on a thread of their own; long byte strings through each table (every \
         lead length, every pair of UTF-8 length classes, cycles at 2^k); extraction of long strings and of 1000 groups; font \
         variants (widths / descriptor, consistent complete and partial /ToUnicode) x table x every repertoire byte; documents \
         extracted one after the other on one thread (every ordered pair of tables); page-tree inheritance of font resources: \
         (1) every ordered pair of tables (a, b) incl. a = b x path depth 1..3 x every pair of levels i < j (0 = the page) with \
         /F1 -> a, /F2 -> b at i and /F1 -> b, /F2 -> a at j x Resources {direct, reference} x Font {direct, reference} at both \
         levels (thorough: also alias objects); (2) every assignment of {no Resources, Resources not binding /F1, Resources \
         binding /F1} to the levels of a path of depth 1..3 x 5 table rotations x 4 reference shapes x 2 ways of not binding; \
         (3) eight sibling shapes (two parents binding the name differently, own / parent / root bindings side by side, a form \
         XObject with resources of its own) x every ordered pair of different tables x 2 reference shapes; every tree as two documents (object numbers of the Resources of Pages nodes below / above those of their descendants); each page selects \
         every name bound on its path (Tf switches inside one BT group, a second group with TJ) and shows the bytes on which \
         the document's tables differ; extract_text for every single page, every order of all pages and orders that return \
         to a page, before and after save+load in both formats. All cases \
         count as non-trivial except totality strings over {00,41}; distinct by construction (inheritance documents: by hash)",
    );
    run.assume(
        "inheritance: a font name selected by Tf denotes the binding of the NEAREST node on the path page -> root whose Resources bind it. \
         Where the nearest node that has Resources at all binds the name (every document of families (1) and (3), and those of (2) \
         without a non-binding Resources dictionary below the binding one) this is exactly ISO 32000-1 7.7.3.4 / Table 30: an inheritable \
         entry is taken from the nearest ancestor that has it. Where a nearer Resources dictionary exists but does not bind the name \
         (counted under inheritance.trees_using_a_name_the_nearest_resources_do_not_bind) the specification leaves the name undefined on \
         that page; the unchanged lopdf merges the dictionaries of the whole path, nearest first. For those names the check accepts both \
         readings - the nearest binding further up, or no text for the strings shown with that name - and nothing else (in particular \
         not a binding that lies behind a nearer one). Bytes that some table decodes to text containing a line feed or carriage return \
         are not shown in this family (the line feed extract_text adds at ET stays unambiguous); extract_text does not descend into \
         form XObjects: the form of family (3) shows nothing and only selects its own /F1",
    );
    run.assume("the published tables are those written into this check: Microsoft cp1252 and Apple Mac OS Roman as shipped with Python's codecs, PDFDocEncoding per ISO 32000-1 Annex D.2; compared only on 0x20-0x7E and on the Latin-1 characters U+00A1-U+00FF; cells whose published value differs between the glyph-name and the code-page convention are excluded and listed under coverage.tables");
    run.assume("extraction: the font dictionary has /Type /Font, /Subtype, /BaseFont and /Encoding <name> (no Differences); the font-variant part adds entries that cannot change what the text is: FirstChar / LastChar / Widths / FontDescriptor, or a /ToUnicode CMap that agrees with the table on every code it lists (complete, or partial as producers write it for the glyphs used so far; a /ToUnicode that contradicts the table is not generated: which of the two wins is outside this property); expected text = decoded text + what extract_text adds by construction (a space after each TJ array, a line feed at ET)");
    run.assume("the tables are private to lopdf; they are read through Dictionary::get_font_encoding + Document::decode_text / encode_text");
    part_scalars(&run);
    part_strings(&run);
    part_escapes(&run);
    part_totality(&run);
    part_long_text(&run);
    part_long_totality(&run);
    part_text_sequences(&run);
    let reps = part_tables(&run);
    part_long_tables(&run, &reps);
    part_extraction(&run, &reps);
    part_multipage(&run, &reps);
    part_inheritance(&run, &reps);
    part_long_extraction(&run, &reps);
    part_font_variants(&run, &reps);
    part_doc_sequences(&run, &reps);
    run.set("exhaustive_parts", json!({"scalars": true, "strings": true, "totality": true, "table_cells": true, "extraction_single_bytes": true, "extraction_pairs": run.thorough,
                                       "long_text_every_lead_length_below_bound": true, "long_table_strings_every_lead_length_below_bound": true, "font_variants_x_tables_x_repertoire_bytes": true,
                                       "text_sequences_menu_pairs": true, "document_sequences_ordered_table_pairs": true,
                                       "inheritance_table_pairs_x_depths_x_level_pairs_x_reference_shapes": true, "inheritance_level_assignments": true}));
    run.exhaustive(true);
    run.finish();
}

fn replay(run: &Run, path: &std::path::Path) -> ! {
    let case: Value = vharness::run::read_replay(path);
    let res: Option<String> = match case["kind"].as_str() {
        Some("text") => {
            let sc: Vec<u32> = case["scalars"].as_array().map(|a| a.iter().map(|x| x.as_u64().unwrap_or(0) as u32).collect()).unwrap_or_default();
            let s = string_of(&sc);
            let via = case["via"].as_str().unwrap_or("text_string");
            println!("text: {:?} via {}", s, via);
            check_text(&s, via)
        }
        Some("bytes") => {
            let b = unhex(case["bytes"].as_str().unwrap_or(""));
            let obj = Object::String(b, StringFormat::Hexadecimal);
            match util::guard(|| decode_text_string(&obj)) {
                Ok(r) => {
                    println!("decode_text_string -> {:?}", r.map_err(|e| e.to_string()));
                    None
                }
                Err(p) => Some(p),
            }
        }
        Some("longtext") => {
            let lt = LongText::from_json(&case["long"]);
            let via = case["via"].as_str().unwrap_or("text_string");
            println!("text: {} via {}", lt.label(), via);
            check_text(&lt.text(), via).map(|m| vharness::run::truncate(&m, 400))
        }
        Some("longbytes") => {
            let mut b = vec![0xfe, 0xff];
            for _ in 0..case["units_00e9"].as_u64().unwrap_or(0) {
                b.extend_from_slice(&[0x00, 0xe9]);
            }
            b.extend_from_slice(&unhex(case["tail"].as_str().unwrap_or("")));
            let obj = Object::String(b, StringFormat::Hexadecimal);
            util::guard(|| decode_text_string(&obj)).err()
        }
        Some("text_seq") => {
            let first = unhex(case["first_bytes"].as_str().unwrap_or(""));
            let second = LongText::from_json(&case["second"]);
            let via = case["via"].as_str().unwrap_or("text_string");
            println!("first: {} bytes; then {} via {}", first.len(), second.label(), via);
            let a = check_text_seq(&first, &second.text(), via);
            let b = check_text_seq(&first, &second.text(), via);
            if a != b {
                eprintln!("MACHINERY: replay not deterministic");
                std::process::exit(3);
            }
            a.map(|m| vharness::run::truncate(&m, 400))
        }
        Some("longcell") => check_long_bytes(case["table"].as_str().unwrap_or(""), &LongBytes::from_json(&case["long"])),
        Some("fontcell") => {
            let table = case["table"].as_str().unwrap_or("");
            let variant = variant_of(case["font"].as_str().unwrap_or(""));
            let b = unhex(case["bytes"].as_str().unwrap_or(""));
            match (dec_variant(table, "plain", &b), dec_variant(table, variant, &b)) {
                (Ok(w), Ok(g)) if w == g => None,
                (Ok(w), Ok(g)) => Some(format!("font with /Encoding /{} ({}): {}", table, variant, diff_text(&g, &w).replace("extracted", "decoded"))),
                (Err(e), _) | (_, Err(e)) => Some(e),
            }
        }
        Some("docseq") => {
            let tables: Vec<String> = case["tables"].as_array().map(|a| a.iter().map(|t| t.as_str().unwrap_or("").to_string()).collect()).unwrap_or_default();
            let blocks: Vec<Vec<Block>> = case["blocks"].as_array().map(|a| a.iter().map(blocks_from_json).collect()).unwrap_or_default();
            let a = check_doc_sequence(&tables, &blocks);
            let b = check_doc_sequence(&tables, &blocks);
            if a != b {
                eprintln!("MACHINERY: replay not deterministic");
                std::process::exit(3);
            }
            a
        }
        Some("cell") => check_cell(case["table"].as_str().unwrap_or(""), &unhex(case["bytes"].as_str().unwrap_or(""))),
        Some("published") => match case["scalar"].as_u64() {
            Some(v) => check_published(case["table"].as_str().unwrap_or(""), case["byte"].as_u64().unwrap_or(0) as u8, v as u16),
            None => {
                // reverse direction: the byte must not decode to a Latin-1 character the published table does not have there
                let table = case["table"].as_str().unwrap_or("");
                let b = case["byte"].as_u64().unwrap_or(0) as u8;
                match with_encoding(table, |enc| dec(enc, &[b])) {
                    Ok(Ok(d)) => {
                        let sc = scalars_of(&d);
                        let p = published(table);
                        if sc.len() == 1 && (0xa1..=0xff).contains(&sc[0]) && p.map(|p| !p.cells.contains(&(b, sc[0] as u16))).unwrap_or(false) {
                            Some(format!("byte {:02X} decodes to U+{:04X}", b, sc[0]))
                        } else {
                            None
                        }
                    }
                    Ok(Err(m)) | Err(m) => Some(m),
                }
            }
        },
        Some("multi") => {
            let pages = pages_from_json(&case["pages"]);
            let orders: Vec<Vec<u32>> = case["orders"].as_array().map(|a| a.iter().map(|o| o.as_array().map(|x| x.iter().map(|v| v.as_u64().unwrap_or(1) as u32).collect()).unwrap_or_default()).collect()).unwrap_or_default();
            let compress = case["compress"].as_bool().unwrap_or(false);
            let a = check_multi(&pages, &orders, compress).1;
            let b = check_multi(&pages, &orders, compress).1;
            if a != b {
                eprintln!("MACHINERY: replay not deterministic: {:?} vs {:?}", a, b);
                std::process::exit(3);
            }
            a
        }
        Some("tree") => {
            let t = tree_from_json(&case["tree"]);
            let orders: Vec<Vec<u32>> = case["orders"].as_array().map(|a| a.iter().map(|o| o.as_array().map(|x| x.iter().map(|v| v.as_u64().unwrap_or(1) as u32).collect()).unwrap_or_default()).collect()).unwrap_or_default();
            let compress = case["compress"].as_bool().unwrap_or(false);
            let res_first = case["resources_numbered_first"].as_bool().unwrap_or(false);
            let a = check_tree(&t, &orders, compress, res_first).1;
            let b = check_tree(&t, &orders, compress, res_first).1;
            if a != b {
                eprintln!("MACHINERY: replay not deterministic: {:?} vs {:?}", a, b);
                std::process::exit(3);
            }
            if a.is_some() {
                println!("classified as: {:?}", classify_tree(&t, &orders, compress, res_first));
            }
            a
        }
        Some("extract") => {
            let table = case["table"].as_str().unwrap_or("");
            let blocks = blocks_from_json(&case["blocks"]);
            let compress = case["compress"].as_bool().unwrap_or(false);
            let variant = variant_of(case["font"].as_str().unwrap_or("plain"));
            let a = check_extraction_v(table, variant, &blocks, compress).1;
            let b = check_extraction_v(table, variant, &blocks, compress).1;
            if a != b {
                eprintln!("MACHINERY: replay not deterministic: {:?} vs {:?}", a, b);
                std::process::exit(3);
            }
            a
        }
        _ => {
            eprintln!("MACHINERY: unknown replay kind");
            std::process::exit(3);
        }
    };
    match &res {
        Some(m) => println!("observed: {}", m),
        None => println!("observed: property holds for this case"),
    }
    run.finish_replay(res.is_some())
}
