//! C16 - text strings and one-byte encodings round-trip text (DESIGN §4 C16).
//!
//! (a) `text_string` / `decode_text_string`: every Unicode scalar value, all strings of length <= 3
//!     over a 14-character alphabet, the outputs of `encode_utf16_be` / `encode_utf8`, and totality
//!     on all byte strings of length <= 5 over the byte-order-mark alphabet.
//! (b) the five tables reachable through `Dictionary::get_font_encoding` x 256 bytes: decoding is
//!     total, decode(encode(decode(b))) == decode(b), and the printable-ASCII and Latin-1 portions
//!     of WinAnsi, MacRoman and PDFDoc agree with the published tables written out below.
//! (c) extraction: `Document::extract_text` on documents that show text with Tj / TJ through a
//!     font with `/Encoding <name>`, before and after save+load in both cross-reference formats.
use lopdf::content::{Content, Operation};
use lopdf::{decode_text_string, encode_utf16_be, encode_utf8, text_string, Dictionary, Document, Encoding, Object, Stream, StringFormat};
use serde_json::{json, Value};
use std::sync::atomic::{AtomicU64, Ordering};
use vharness::gen::tuples;
use vharness::objjson::{hex, unhex};
use vharness::{util, Mode, Run};

// ---------------------------------------------------------------------------------------------
// published tables (upper halves; 0 = undefined). Generated with Python's codecs `cp1252` and
// `mac_roman` (Microsoft code page 1252; Apple's current Mac OS Roman). PDFDocEncoding follows
// ISO 32000-1 Annex D.2 / D.3: 0xA0 Euro, 0xAD undefined, 0xA1-0xFF otherwise Latin-1.

const CP1252_HIGH: [u16; 128] = [
    0x20ac, 0x0000, 0x201a, 0x0192, 0x201e, 0x2026, 0x2020, 0x2021, 0x02c6, 0x2030, 0x0160, 0x2039, 0x0152, 0x0000, 0x017d, 0x0000,
    0x0000, 0x2018, 0x2019, 0x201c, 0x201d, 0x2022, 0x2013, 0x2014, 0x02dc, 0x2122, 0x0161, 0x203a, 0x0153, 0x0000, 0x017e, 0x0178,
    0x00a0, 0x00a1, 0x00a2, 0x00a3, 0x00a4, 0x00a5, 0x00a6, 0x00a7, 0x00a8, 0x00a9, 0x00aa, 0x00ab, 0x00ac, 0x00ad, 0x00ae, 0x00af,
    0x00b0, 0x00b1, 0x00b2, 0x00b3, 0x00b4, 0x00b5, 0x00b6, 0x00b7, 0x00b8, 0x00b9, 0x00ba, 0x00bb, 0x00bc, 0x00bd, 0x00be, 0x00bf,
    0x00c0, 0x00c1, 0x00c2, 0x00c3, 0x00c4, 0x00c5, 0x00c6, 0x00c7, 0x00c8, 0x00c9, 0x00ca, 0x00cb, 0x00cc, 0x00cd, 0x00ce, 0x00cf,
    0x00d0, 0x00d1, 0x00d2, 0x00d3, 0x00d4, 0x00d5, 0x00d6, 0x00d7, 0x00d8, 0x00d9, 0x00da, 0x00db, 0x00dc, 0x00dd, 0x00de, 0x00df,
    0x00e0, 0x00e1, 0x00e2, 0x00e3, 0x00e4, 0x00e5, 0x00e6, 0x00e7, 0x00e8, 0x00e9, 0x00ea, 0x00eb, 0x00ec, 0x00ed, 0x00ee, 0x00ef,
    0x00f0, 0x00f1, 0x00f2, 0x00f3, 0x00f4, 0x00f5, 0x00f6, 0x00f7, 0x00f8, 0x00f9, 0x00fa, 0x00fb, 0x00fc, 0x00fd, 0x00fe, 0x00ff,
];
const MAC_ROMAN_HIGH: [u16; 128] = [
    0x00c4, 0x00c5, 0x00c7, 0x00c9, 0x00d1, 0x00d6, 0x00dc, 0x00e1, 0x00e0, 0x00e2, 0x00e4, 0x00e3, 0x00e5, 0x00e7, 0x00e9, 0x00e8,
    0x00ea, 0x00eb, 0x00ed, 0x00ec, 0x00ee, 0x00ef, 0x00f1, 0x00f3, 0x00f2, 0x00f4, 0x00f6, 0x00f5, 0x00fa, 0x00f9, 0x00fb, 0x00fc,
    0x2020, 0x00b0, 0x00a2, 0x00a3, 0x00a7, 0x2022, 0x00b6, 0x00df, 0x00ae, 0x00a9, 0x2122, 0x00b4, 0x00a8, 0x2260, 0x00c6, 0x00d8,
    0x221e, 0x00b1, 0x2264, 0x2265, 0x00a5, 0x00b5, 0x2202, 0x2211, 0x220f, 0x03c0, 0x222b, 0x00aa, 0x00ba, 0x03a9, 0x00e6, 0x00f8,
    0x00bf, 0x00a1, 0x00ac, 0x221a, 0x0192, 0x2248, 0x2206, 0x00ab, 0x00bb, 0x2026, 0x00a0, 0x00c0, 0x00c3, 0x00d5, 0x0152, 0x0153,
    0x2013, 0x2014, 0x201c, 0x201d, 0x2018, 0x2019, 0x00f7, 0x25ca, 0x00ff, 0x0178, 0x2044, 0x20ac, 0x2039, 0x203a, 0xfb01, 0xfb02,
    0x2021, 0x00b7, 0x201a, 0x201e, 0x2030, 0x00c2, 0x00ca, 0x00c1, 0x00cb, 0x00c8, 0x00cd, 0x00ce, 0x00cf, 0x00cc, 0x00d3, 0x00d4,
    0xf8ff, 0x00d2, 0x00da, 0x00db, 0x00d9, 0x0131, 0x02c6, 0x02dc, 0x00af, 0x02d8, 0x02d9, 0x02da, 0x00b8, 0x02dd, 0x02db, 0x02c7,
];

const TABLES: [&str; 5] = ["StandardEncoding", "MacRomanEncoding", "MacExpertEncoding", "WinAnsiEncoding", "PDFDocEncoding"];

/// Published value of the cells this check compares: (byte -> scalar) for bytes 0x20-0x7E and for
/// the bytes that hold a Latin-1 character U+00A1-U+00FF. `excluded` cells are not compared: their
/// published value differs between the glyph-name convention of ISO 32000-1 Annex D and the
/// code-page convention.
struct Published {
    cells: Vec<(u8, u16)>,
    excluded: Vec<(u8, &'static str)>,
}

fn published(table: &str) -> Option<Published> {
    let mut cells: Vec<(u8, u16)> = (0x20u8..=0x7e).map(|b| (b, b as u16)).collect();
    let excluded: Vec<(u8, &'static str)>;
    match table {
        "WinAnsiEncoding" => {
            excluded = vec![
                (0xa0, "Annex D: space (U+0020, second code); cp1252: U+00A0 NO-BREAK SPACE"),
                (0xad, "Annex D: hyphen (U+002D, second code); cp1252: U+00AD SOFT HYPHEN"),
            ];
            for b in 0x80..=0xffu8 {
                let v = CP1252_HIGH[b as usize - 0x80];
                if (0xa1..=0xff).contains(&v) {
                    cells.push((b, v));
                }
            }
        }
        "MacRomanEncoding" => {
            excluded = vec![
                (0xca, "Annex D: space (U+0020, second code); Apple: U+00A0 NO-BREAK SPACE"),
                (0xdb, "Annex D: currency (U+00A4); Apple since Mac OS 8.5 and Python mac_roman: U+20AC EURO SIGN"),
            ];
            for b in 0x80..=0xffu8 {
                let v = MAC_ROMAN_HIGH[b as usize - 0x80];
                if (0xa1..=0xff).contains(&v) {
                    cells.push((b, v));
                }
            }
        }
        "PDFDocEncoding" => {
            excluded = vec![
                (0xa0, "Annex D.2: Euro (U+20AC); Latin-1 has U+00A0 there (outside U+00A1-U+00FF either way)"),
                (0xad, "Annex D.2: undefined; Latin-1 has U+00AD SOFT HYPHEN there"),
            ];
            for b in 0xa1..=0xffu8 {
                cells.push((b, b as u16));
            }
        }
        _ => return None,
    }
    let ex: Vec<u8> = excluded.iter().map(|e| e.0).collect();
    cells.retain(|(b, _)| !ex.contains(b));
    Some(Published { cells, excluded })
}

// ---------------------------------------------------------------------------------------------
// (a) text strings

const EXPECT_TEXT: &str = "decode_text_string(text_string(s)) == s; ASCII is stored as PDFDocEncoding bytes without a mark, everything else as FE FF + UTF-16BE";

fn string_of(scalars: &[u32]) -> String {
    scalars.iter().map(|c| char::from_u32(*c).expect("scalar")).collect()
}

fn scalars_of(s: &str) -> Vec<u32> {
    s.chars().map(|c| c as u32).collect()
}

fn decode_obj(o: &Object) -> Result<String, String> {
    match util::guard(|| decode_text_string(o)) {
        Ok(Ok(s)) => Ok(s),
        Ok(Err(e)) => Err(format!("decode_text_string error: {}", e)),
        Err(p) => Err(format!("decode_text_string {}", p)),
    }
}

fn utf16be(s: &str) -> Vec<u8> {
    let mut b = vec![0xfe, 0xff];
    for u in s.encode_utf16() {
        b.extend_from_slice(&u.to_be_bytes());
    }
    b
}

fn ascii_control(c: char) -> bool {
    (c as u32) < 0x20 || c as u32 == 0x7f
}

/// One text-string case. `via`: "text_string" | "utf16" | "utf8". None = holds.
fn check_text(s: &str, via: &str) -> Option<String> {
    let obj = match via {
        "text_string" => match util::guard(|| text_string(s)) {
            Ok(o) => o,
            Err(p) => return Some(format!("text_string {}", p)),
        },
        "utf16" => Object::String(encode_utf16_be(s), StringFormat::Hexadecimal),
        _ => Object::String(encode_utf8(s), StringFormat::Literal),
    };
    let bytes = match &obj {
        Object::String(b, _) => b.clone(),
        o => return Some(format!("text_string returned {:?}, not a string", o)),
    };
    // encoded form
    match via {
        "text_string" => {
            if s.is_ascii() {
                // controls are not demanded to stay one byte (PDFDocEncoding does not define most of
                // them); printable ASCII must stay as it is
                let plain = bytes == s.as_bytes();
                let marked = bytes == utf16be(s);
                if !(plain || (marked && s.chars().any(ascii_control))) {
                    return Some(format!("encoded form of ASCII text is {} (expected the ASCII bytes themselves)", hex(&bytes)));
                }
            } else if bytes != utf16be(s) {
                return Some(format!("encoded form of non-ASCII text is {} (expected FE FF + UTF-16BE = {})", hex(&bytes), hex(&utf16be(s))));
            }
        }
        "utf16" => {
            if bytes != utf16be(s) {
                return Some(format!("encode_utf16_be gives {} (expected {})", hex(&bytes), hex(&utf16be(s))));
            }
        }
        _ => {
            let mut e = vec![0xef, 0xbb, 0xbf];
            e.extend_from_slice(s.as_bytes());
            if bytes != e {
                return Some(format!("encode_utf8 gives {} (expected {})", hex(&bytes), hex(&e)));
            }
        }
    }
    match decode_obj(&obj) {
        Err(e) => Some(format!("{} (encoded {})", e, hex(&bytes))),
        Ok(d) if d == s => None,
        Ok(d) => Some(format!("decoded {:?} = {:x?} (encoded {})", d, scalars_of(&d), hex(&bytes))),
    }
}

/// Narrow attribution to the two catalogued text-string defects.
fn classify_text(s: &str, via: &str) -> Option<&'static str> {
    match via {
        "text_string" => {
            // ASCII-only text with a C0 control or DEL, and the same text with those characters
            // replaced by 'A' round-trips
            if s.is_ascii() && s.chars().any(ascii_control) {
                let n: String = s.chars().map(|c| if ascii_control(c) { 'A' } else { c }).collect();
                if check_text(&n, via).is_none() {
                    return Some("textstring-ascii-control");
                }
            }
            None
        }
        "utf8" => {
            // the decoded text is exactly U+FEFF followed by the expected text
            let obj = Object::String(encode_utf8(s), StringFormat::Literal);
            match decode_obj(&obj) {
                Ok(d) if d.strip_prefix('\u{feff}') == Some(s) => Some("textstring-utf8-bom"),
                _ => None,
            }
        }
        _ => None,
    }
}

fn report_text(run: &Run, part: &str, s: &str, via: &str, msg: &str) {
    run.fail(
        classify_text(s, via),
        json!({"kind": "text", "part": part, "via": via, "scalars": scalars_of(s), "text": s.escape_default().to_string()}),
        msg,
        match via {
            "text_string" => EXPECT_TEXT,
            "utf16" => "decode_text_string(String(encode_utf16_be(s))) == s",
            _ => "decode_text_string(String(encode_utf8(s))) == s",
        },
    );
}

fn part_scalars(run: &Run) {
    let blocks = 0x110000u32 / 0x1000;
    let n = AtomicU64::new(0);
    util::par_for(blocks as usize, |b| {
        let lo = b as u32 * 0x1000;
        let mut k = 0u64;
        for cp in lo..lo + 0x1000 {
            let Some(c) = char::from_u32(cp) else { continue };
            let s = c.to_string();
            k += 1;
            for via in ["text_string", "utf16", "utf8"] {
                if let Some(m) = check_text(&s, via) {
                    report_text(run, "scalars", &s, via, &m);
                }
            }
        }
        n.fetch_add(k, Ordering::Relaxed);
    });
    let n = n.load(Ordering::Relaxed);
    run.eval(n * 3);
    run.nontrivial(n * 3);
    run.add("scalars", n);
    run.sample(json!({"part": "a-scalars", "scalar": "U+10FFFF", "text_string_bytes": match text_string("\u{10ffff}") { Object::String(b, _) => hex(&b), _ => String::new() }}));
}

const TEXT_ALPHABET: [u32; 15] = [0x41, 0x09, 0x0a, 0x0d, 0x00, 0x1b, 0x7f, 0x80, 0xff, 0x100, 0xfeff, 0xfffd, 0xffff, 0x10000, 0x10ffff];

fn part_strings(run: &Run) {
    let idx: [u8; 15] = [0, 1, 2, 3, 4, 5, 6, 7, 8, 9, 10, 11, 12, 13, 14];
    let mut list: Vec<Vec<u32>> = vec![];
    let max_len = if run.thorough { 5 } else { 3 };
    for len in 0..=max_len {
        for t in tuples(&idx, len) {
            list.push(t.iter().map(|i| TEXT_ALPHABET[*i as usize]).collect());
        }
    }
    let chunk = 128;
    util::par_for(list.len().div_ceil(chunk), |c| {
        for sc in &list[c * chunk..((c + 1) * chunk).min(list.len())] {
            let s = string_of(sc);
            for via in ["text_string", "utf16", "utf8"] {
                if let Some(m) = check_text(&s, via) {
                    report_text(run, "strings", &s, via, &m);
                }
            }
        }
    });
    run.eval(list.len() as u64 * 3);
    run.nontrivial(list.len() as u64 * 3);
    run.add(if run.thorough { "strings_le5" } else { "strings_le3" }, list.len() as u64);
    run.sample(json!({"part": "a-strings", "scalars": list[list.len() - 1], "alphabet": TEXT_ALPHABET}));
}

/// Strings shaped like the language escape sequences of ISO 32000-1 7.9.2.2 (ESC, language code,
/// optional country code, ESC). `text_string` takes *any* Unicode string, so such text must come
/// back unchanged like every other string: ESC + w + ESC for every w over {a, Z, 1, e-acute}^k,
/// k = 0..5, alone and embedded in ASCII and non-ASCII text, and two sequences in one string.
fn part_escapes(run: &Run) {
    let letters: [char; 4] = ['a', 'Z', '1', '\u{e9}'];
    let idx: [u8; 4] = [0, 1, 2, 3];
    let contexts: [(&str, &str); 8] = [
        ("", ""),
        ("A", "B"),
        ("x", ""),
        ("", "x"),
        ("\u{e9}", ""),
        ("", "\u{e9}"),
        ("caf\u{e9} ", " ol\u{e9}"),
        ("\u{1b}", "\u{1b}"),
    ];
    let mut list: Vec<String> = vec![];
    for k in 0..=5 {
        for t in tuples(&idx, k) {
            let w: String = t.iter().map(|i| letters[*i as usize]).collect();
            for (pre, post) in contexts {
                list.push(format!("{}\u{1b}{}\u{1b}{}", pre, w, post));
            }
            // two sequences in one text, and an unterminated one
            list.push(format!("\u{1b}{}\u{1b}t\u{1b}{}\u{1b}", w, w));
            list.push(format!("\u{e9}\u{1b}{}", w));
        }
    }
    let chunk = 256;
    util::par_for(list.len().div_ceil(chunk), |c| {
        for s in &list[c * chunk..((c + 1) * chunk).min(list.len())] {
            for via in ["text_string", "utf16", "utf8"] {
                if let Some(m) = check_text(s, via) {
                    report_text(run, "escapes", s, via, &m);
                }
            }
        }
    });
    run.eval(list.len() as u64 * 3);
    run.nontrivial(list.len() as u64 * 3);
    run.add("escape_shaped_strings", list.len() as u64);
    run.sample(json!({"part": "a-escapes", "scalars": scalars_of(&list[list.len() / 2]), "rule": "ESC + w + ESC, w over {a,Z,1,U+00E9}^k, k=0..5, in 8 contexts + doubled + unterminated"}));
}

const BOM_ALPHABET: [u8; 9] = [0xfe, 0xff, 0xef, 0xbb, 0xbf, 0x00, 0x41, 0xd8, 0xdc];

fn part_totality(run: &Run) {
    let counts = [AtomicU64::new(0), AtomicU64::new(0)];
    let mut total = 0u64;
    let max_len = if run.thorough { 7usize } else { 5 };
    for len in 0..=max_len {
        let n = BOM_ALPHABET.len().pow(len as u32);
        total += n as u64;
        let list: Vec<Vec<u8>> = tuples(&BOM_ALPHABET, len).collect();
        let chunk = 2048;
        util::par_for(list.len().div_ceil(chunk), |c| {
            let (mut ok, mut err) = (0u64, 0u64);
            for b in &list[c * chunk..((c + 1) * chunk).min(list.len())] {
                let obj = Object::String(b.clone(), StringFormat::Hexadecimal);
                match util::guard(|| decode_text_string(&obj)) {
                    Ok(Ok(_)) => ok += 1,
                    Ok(Err(_)) => err += 1,
                    Err(p) => run.fail(
                        None,
                        json!({"kind": "bytes", "part": "totality", "bytes": hex(b)}),
                        &format!("decode_text_string {}", p),
                        "decode_text_string returns Ok or Err on every byte string (no panic)",
                    ),
                }
            }
            counts[0].fetch_add(ok, Ordering::Relaxed);
            counts[1].fetch_add(err, Ordering::Relaxed);
        });
    }
    run.eval(total);
    // non-trivial: the string carries (part of) a byte-order mark or a surrogate unit, i.e. every string but those over {00, 41}
    let trivial: u64 = (0..=max_len as u32).map(|l| 2u64.pow(l)).sum();
    run.nontrivial(total - trivial);
    run.add("totality_byte_strings", total);
    run.set("totality_outcomes", json!({"ok": counts[0].load(Ordering::Relaxed), "err": counts[1].load(Ordering::Relaxed)}));
    // other object kinds: an error, not a panic
    for o in [Object::Null, Object::Integer(1), Object::Name(b"x".to_vec())] {
        run.eval(1);
        if let Err(p) = util::guard(|| decode_text_string(&o)) {
            run.fail(None, json!({"kind": "bytes", "part": "totality", "non_string": format!("{:?}", o)}), &p, "no panic");
        }
    }
}

// ---------------------------------------------------------------------------------------------
// (b) tables

fn font_dict(encoding: &str) -> Dictionary {
    let mut font = Dictionary::new();
    font.set("Type", Object::Name(b"Font".to_vec()));
    font.set("Subtype", Object::Name(b"Type1".to_vec()));
    font.set("BaseFont", Object::Name(b"Courier".to_vec()));
    font.set("Encoding", Object::Name(encoding.as_bytes().to_vec()));
    font
}

fn with_encoding<T>(table: &str, f: impl FnOnce(&Encoding) -> T) -> Result<T, String> {
    let doc = Document::with_version("1.5");
    let font = font_dict(table);
    let enc = match util::guard(|| font.get_font_encoding(&doc)) {
        Ok(Ok(e)) => e,
        Ok(Err(e)) => return Err(format!("get_font_encoding error: {}", e)),
        Err(p) => return Err(format!("get_font_encoding {}", p)),
    };
    if !matches!(enc, Encoding::OneByteEncoding(_)) {
        return Err(format!("get_font_encoding({}) returned {:?}, not a one-byte table", table, enc));
    }
    Ok(f(&enc))
}

fn dec(enc: &Encoding, bytes: &[u8]) -> Result<String, String> {
    match util::guard(|| Document::decode_text(enc, bytes)) {
        Ok(Ok(s)) => Ok(s),
        Ok(Err(e)) => Err(format!("decode_text error: {}", e)),
        Err(p) => Err(format!("decode_text {}", p)),
    }
}

fn enc_text(enc: &Encoding, text: &str) -> Result<Vec<u8>, String> {
    util::guard(|| Document::encode_text(enc, text)).map_err(|p| format!("encode_text {}", p))
}

/// decode never fails and decode(encode(decode(b))) == decode(b) for the byte string `b`.
fn check_cell(table: &str, bytes: &[u8]) -> Option<String> {
    let r = with_encoding(table, |enc| {
        let d = dec(enc, bytes)?;
        let e = enc_text(enc, &d)?;
        let d2 = dec(enc, &e)?;
        if d2 != d {
            return Err(format!("decode({}) = {:?}, encode gives {}, which decodes to {:?}", hex(bytes), d, hex(&e), d2));
        }
        Ok(())
    });
    match r {
        Ok(Ok(())) => None,
        Ok(Err(m)) | Err(m) => Some(m),
    }
}

/// The published cell (byte, scalar) of `table`: lopdf decodes the byte to exactly that character.
fn check_published(table: &str, byte: u8, scalar: u16) -> Option<String> {
    let want = string_of(&[scalar as u32]);
    match with_encoding(table, |enc| dec(enc, &[byte])) {
        Ok(Ok(d)) if d == want => None,
        Ok(Ok(d)) => Some(format!("byte {:02X} decodes to {:?} = {:x?}", byte, d, scalars_of(&d))),
        Ok(Err(m)) | Err(m) => Some(m),
    }
}

fn part_tables(run: &Run) -> Vec<(String, Vec<u8>)> {
    let mut repertoires = vec![];
    let mut info = serde_json::Map::new();
    for table in TABLES {
        // the whole table, read through the public path
        let cells: Vec<Result<String, String>> = match with_encoding(table, |enc| (0..=255u8).map(|b| dec(enc, &[b])).collect()) {
            Ok(c) => c,
            Err(m) => {
                run.fail(None, json!({"kind": "cell", "table": table, "bytes": ""}), &m, "get_font_encoding returns the predefined table");
                continue;
            }
        };
        run.eval(256);
        for b in 0..=255u8 {
            run.eval(1);
            if let Some(m) = check_cell(table, &[b]) {
                run.fail(None, json!({"kind": "cell", "table": table, "bytes": hex(&[b])}), &m, "decode never fails and decode(encode(decode(b))) == decode(b)");
            }
        }
        // all 256 bytes as one string, ascending and descending
        let asc: Vec<u8> = (0..=255u8).collect();
        let desc: Vec<u8> = (0..=255u8).rev().collect();
        for s in [&asc, &desc] {
            run.eval(1);
            if let Some(m) = check_cell(table, s) {
                run.fail(None, json!({"kind": "cell", "table": table, "bytes": hex(s)}), &m, "decode never fails and decode(encode(decode(b))) == decode(b)");
            }
        }
        if run.thorough {
            // all byte pairs (order and duplicates inside one string)
            util::par_for(256, |a| {
                for b in 0..=255u8 {
                    if let Some(m) = check_cell(table, &[a as u8, b]) {
                        run.fail(None, json!({"kind": "cell", "table": table, "bytes": hex(&[a as u8, b])}), &m, "decode never fails and decode(encode(decode(b))) == decode(b)");
                    }
                }
            });
            run.eval(65536);
            run.nontrivial(65536);
            run.add("table_byte_pairs", 65536);
        }
        let rep: Vec<u8> = (0..=255u8).filter(|b| matches!(&cells[*b as usize], Ok(s) if !s.is_empty())).collect();
        let mut ti = serde_json::Map::new();
        ti.insert("repertoire_bytes".into(), json!(rep.len()));
        if let Some(p) = published(table) {
            for (b, v) in &p.cells {
                run.eval(1);
                if let Some(m) = check_published(table, *b, *v) {
                    run.fail(
                        None,
                        json!({"kind": "published", "table": table, "byte": b, "scalar": v}),
                        &m,
                        &format!("the published {} table has U+{:04X} at byte {:02X}", table, v, b),
                    );
                }
            }
            // the other direction: a Latin-1 character U+00A1-U+00FF occurs in no cell but its published one
            let ex: Vec<u8> = p.excluded.iter().map(|e| e.0).collect();
            for b in 0..=255u8 {
                if ex.contains(&b) {
                    continue;
                }
                if let Ok(s) = &cells[b as usize] {
                    let sc = scalars_of(s);
                    if sc.len() == 1 && (0xa1..=0xff).contains(&sc[0]) && !p.cells.contains(&(b, sc[0] as u16)) {
                        run.fail(
                            None,
                            json!({"kind": "published", "table": table, "byte": b, "scalar": Value::Null}),
                            &format!("byte {:02X} decodes to U+{:04X}", b, sc[0]),
                            &format!("the published {} table does not have that Latin-1 character at byte {:02X}", table, b),
                        );
                    }
                }
            }
            ti.insert("published_cells_compared".into(), json!(p.cells.len()));
            ti.insert(
                "excluded_cells".into(),
                Value::Array(
                    p.excluded
                        .iter()
                        .map(|(b, why)| json!({"byte": format!("{:02X}", b), "why": why, "lopdf_decodes_to": match &cells[*b as usize] { Ok(s) => json!(scalars_of(s).iter().map(|c| format!("U+{:04X}", c)).collect::<Vec<_>>()), Err(e) => json!(e) }}))
                        .collect(),
                ),
            );
            run.add("published_cells", p.cells.len() as u64);
        }
        info.insert(table.to_string(), Value::Object(ti));
        repertoires.push((table.to_string(), rep));
    }
    run.nontrivial(5 * 256);
    run.add("table_cells", 5 * 256);
    run.set("tables", Value::Object(info));
    run.sample(json!({"part": "b", "table": "WinAnsiEncoding", "byte": "E9", "decodes_to": with_encoding("WinAnsiEncoding", |e| dec(e, &[0xe9])).ok().and_then(|r| r.ok())}));
    repertoires
}

// ---------------------------------------------------------------------------------------------
// (c) extraction

#[derive(Clone, Debug)]
struct Block {
    bytes: Vec<u8>,
    /// false: `(..) Tj`, true: `[(..)] TJ`
    tj_array: bool,
    hex: bool,
}

fn blocks_to_json(blocks: &[Block]) -> Value {
    Value::Array(blocks.iter().map(|b| json!({"bytes": hex(&b.bytes), "tj_array": b.tj_array, "hex": b.hex})).collect())
}

fn blocks_from_json(v: &Value) -> Vec<Block> {
    v.as_array()
        .map(|a| {
            a.iter()
                .map(|b| Block { bytes: unhex(b["bytes"].as_str().unwrap_or("")), tj_array: b["tj_array"].as_bool().unwrap_or(false), hex: b["hex"].as_bool().unwrap_or(false) })
                .collect()
        })
        .unwrap_or_default()
}

/// A one-page document in the shape of lopdf's own `create_document_with_texts`, with one
/// `BT /F1 12 Tf 100 600 Td <show> ET` group per block and a font that names the encoding.
fn text_doc(table: &str, blocks: &[Block], compress: bool) -> Document {
    let mut doc = Document::with_version("1.5");
    let pages_id = doc.new_object_id();
    let font_id = doc.add_object(font_dict(table));
    let mut fonts = Dictionary::new();
    fonts.set("F1", Object::Reference(font_id));
    let mut res = Dictionary::new();
    res.set("Font", Object::Dictionary(fonts));
    let resources_id = doc.add_object(res);
    let mut ops = vec![];
    for b in blocks {
        let fmt = if b.hex { StringFormat::Hexadecimal } else { StringFormat::Literal };
        let s = Object::String(b.bytes.clone(), fmt);
        ops.push(Operation::new("BT", vec![]));
        ops.push(Operation::new("Tf", vec![Object::Name(b"F1".to_vec()), Object::Integer(12)]));
        ops.push(Operation::new("Td", vec![Object::Integer(100), Object::Integer(600)]));
        if b.tj_array {
            ops.push(Operation::new("TJ", vec![Object::Array(vec![s])]));
        } else {
            ops.push(Operation::new("Tj", vec![s]));
        }
        ops.push(Operation::new("ET", vec![]));
    }
    let content = Content { operations: ops }.encode().expect("encode");
    let content_id = doc.add_object(Stream::new(Dictionary::new(), content));
    let mut page = Dictionary::new();
    page.set("Type", Object::Name(b"Page".to_vec()));
    page.set("Parent", Object::Reference(pages_id));
    page.set("Contents", Object::Reference(content_id));
    let page_id = doc.add_object(page);
    let mut pages = Dictionary::new();
    pages.set("Type", Object::Name(b"Pages".to_vec()));
    pages.set("Kids", Object::Array(vec![Object::Reference(page_id)]));
    pages.set("Count", Object::Integer(1));
    pages.set("Resources", Object::Reference(resources_id));
    pages.set("MediaBox", Object::Array(vec![0.into(), 0.into(), 595.into(), 842.into()]));
    doc.objects.insert(pages_id, Object::Dictionary(pages));
    let mut cat = Dictionary::new();
    cat.set("Type", Object::Name(b"Catalog".to_vec()));
    cat.set("Pages", Object::Reference(pages_id));
    let cat_id = doc.add_object(cat);
    doc.trailer.set("Root", Object::Reference(cat_id));
    if compress {
        doc.compress();
    }
    doc
}

/// What extraction must return: the decoded text of every block, plus exactly what
/// `extract_text` adds (a space after a TJ array, a line feed at ET unless the text ends in one).
fn expected_extraction(table: &str, blocks: &[Block]) -> Result<String, String> {
    with_encoding(table, |enc| {
        let mut out = String::new();
        for b in blocks {
            let mut t = dec(enc, &b.bytes)?;
            if b.tj_array {
                t.push(' ');
            }
            if !t.ends_with('\n') {
                t.push('\n');
            }
            out.push_str(&t);
        }
        Ok(out)
    })?
}

fn extract(doc: &Document) -> Result<String, String> {
    match util::guard(|| doc.extract_text(&[1])) {
        Ok(Ok(s)) => Ok(s),
        Ok(Err(e)) => Err(format!("extract_text error: {}", e)),
        Err(p) => Err(format!("extract_text {}", p)),
    }
}

/// Returns (number of extract_text executions, first failure).
fn check_extraction(table: &str, blocks: &[Block], compress: bool) -> (u64, Option<String>) {
    let want = match expected_extraction(table, blocks) {
        Ok(w) => w,
        Err(m) => return (0, Some(m)),
    };
    let doc = text_doc(table, blocks, compress);
    let mut n = 0;
    let stages: [(&str, Option<bool>); 3] = [("built document", None), ("after save (table) + load", Some(true)), ("after save (stream) + load", Some(false))];
    for (label, fmt) in stages {
        let d = match fmt {
            None => doc.clone(),
            Some(t) => match util::save_bytes(&doc, t).and_then(|b| util::load(&b)) {
                Ok(d) => d,
                Err(e) => return (n, Some(format!("{}: {}", label, e))),
            },
        };
        n += 1;
        match extract(&d) {
            Err(e) => return (n, Some(format!("{}: {}", label, e))),
            Ok(got) if got != want => {
                return (n, Some(format!("{}: extracted {:?} = {:x?}, expected {:?} = {:x?}", label, trunc(&got), trunc_sc(&got), trunc(&want), trunc_sc(&want))))
            }
            Ok(_) => {}
        }
    }
    (n, None)
}

fn trunc(s: &str) -> String {
    s.chars().take(40).collect()
}
fn trunc_sc(s: &str) -> Vec<u32> {
    s.chars().take(40).map(|c| c as u32).collect()
}

fn run_extraction(run: &Run, part: &str, table: &str, blocks: &[Block], compress: bool) {
    let (n, r) = check_extraction(table, blocks, compress);
    run.eval(n);
    if let Some(m) = r {
        run.fail(
            None,
            json!({"kind": "extract", "part": part, "table": table, "blocks": blocks_to_json(blocks), "compress": compress}),
            &m,
            "extract_text(&[1]) == decoded text of every shown string + the space after a TJ array + the line feed at ET",
        );
    }
}

fn part_extraction(run: &Run, repertoires: &[(String, Vec<u8>)]) {
    // singles: table x repertoire byte x {Tj literal, Tj hex, TJ}
    let mut singles: Vec<(usize, Block)> = vec![];
    for (ti, (_, rep)) in repertoires.iter().enumerate() {
        for &b in rep {
            for (tj_array, hexs) in [(false, false), (false, true), (true, false)] {
                singles.push((ti, Block { bytes: vec![b], tj_array, hex: hexs }));
            }
        }
    }
    util::par_for(singles.len(), |i| {
        let (ti, b) = &singles[i];
        run_extraction(run, "single", &repertoires[*ti].0, std::slice::from_ref(b), i % 2 == 1);
    });
    run.nontrivial(singles.len() as u64);
    run.add("extraction_docs", singles.len() as u64);
    if let Some((ti, b)) = singles.last() {
        run.sample(json!({"part": "c-single", "table": repertoires[*ti].0, "blocks": blocks_to_json(std::slice::from_ref(b)),
                          "content": String::from_utf8_lossy(&Content { operations: vec![Operation::new("Tj", vec![Object::String(b.bytes.clone(), StringFormat::Literal)])] }.encode().unwrap())}));
    }
    // the whole repertoire in one string, each way of showing
    let mut whole = vec![];
    for (ti, (_, rep)) in repertoires.iter().enumerate() {
        for (tj_array, hexs) in [(false, false), (false, true), (true, false), (true, true)] {
            for compress in [false, true] {
                whole.push((ti, Block { bytes: rep.clone(), tj_array, hex: hexs }, compress));
            }
        }
    }
    util::par_for(whole.len(), |i| {
        let (ti, b, c) = &whole[i];
        run_extraction(run, "whole_repertoire", &repertoires[*ti].0, std::slice::from_ref(b), *c);
    });
    run.nontrivial(whole.len() as u64);
    run.add("extraction_docs", whole.len() as u64);
    // ordered pairs of repertoire bytes: one document per (table, first byte), one group per second byte
    let mut firsts: Vec<(usize, u8)> = vec![];
    for (ti, (_, rep)) in repertoires.iter().enumerate() {
        for (k, &b) in rep.iter().enumerate() {
            if run.thorough || k as u64 % 16 == run.seed % 16 {
                firsts.push((ti, b));
            }
        }
    }
    let pairs = AtomicU64::new(0);
    util::par_for(firsts.len(), |i| {
        let (ti, a) = firsts[i];
        let rep = &repertoires[ti].1;
        let blocks: Vec<Block> = rep.iter().enumerate().map(|(k, &b)| Block { bytes: vec![a, b], tj_array: k % 3 == 2, hex: k % 2 == 1 }).collect();
        pairs.fetch_add(blocks.len() as u64, Ordering::Relaxed);
        run_extraction(run, "pairs", &repertoires[ti].0, &blocks, i % 2 == 0);
    });
    // one case per document (a document holds one group per second byte; the pairs are counted separately)
    run.nontrivial(firsts.len() as u64);
    run.add("extraction_docs", firsts.len() as u64);
    run.add("extraction_pairs", pairs.load(Ordering::Relaxed));
    if !run.thorough {
        run.set("extraction_pairs_slice", json!(format!("first byte index mod 16 == {} (supplementary in quick; all ordered pairs in thorough)", run.seed % 16)));
    }
}

// ---------------------------------------------------------------------------------------------
// (c') several pages, each with its own Resources dictionary and its own font named /F1

#[derive(Clone, Debug)]
struct PageSpec {
    table: String,
    blocks: Vec<Block>,
}

fn pages_to_json(pages: &[PageSpec]) -> Value {
    Value::Array(pages.iter().map(|p| json!({"table": p.table, "blocks": blocks_to_json(&p.blocks)})).collect())
}

fn pages_from_json(v: &Value) -> Vec<PageSpec> {
    v.as_array()
        .map(|a| a.iter().map(|p| PageSpec { table: p["table"].as_str().unwrap_or("").to_string(), blocks: blocks_from_json(&p["blocks"]) }).collect())
        .unwrap_or_default()
}

fn content_of(blocks: &[Block]) -> Vec<u8> {
    let mut ops = vec![];
    for b in blocks {
        let fmt = if b.hex { StringFormat::Hexadecimal } else { StringFormat::Literal };
        let s = Object::String(b.bytes.clone(), fmt);
        ops.push(Operation::new("BT", vec![]));
        ops.push(Operation::new("Tf", vec![Object::Name(b"F1".to_vec()), Object::Integer(12)]));
        ops.push(Operation::new("Td", vec![Object::Integer(100), Object::Integer(600)]));
        if b.tj_array {
            ops.push(Operation::new("TJ", vec![Object::Array(vec![s])]));
        } else {
            ops.push(Operation::new("Tj", vec![s]));
        }
        ops.push(Operation::new("ET", vec![]));
    }
    Content { operations: ops }.encode().expect("encode")
}

/// One page per entry. Every page has its own /Resources (odd pages: a direct dictionary, even
/// pages: a reference) whose /Font dictionary names that page's font /F1; the Pages node has none.
fn multi_doc(pages: &[PageSpec], compress: bool) -> Document {
    let mut doc = Document::with_version("1.5");
    let pages_id = doc.new_object_id();
    let mut kids = vec![];
    for (i, p) in pages.iter().enumerate() {
        let font_id = doc.add_object(font_dict(&p.table));
        let mut fonts = Dictionary::new();
        fonts.set("F1", Object::Reference(font_id));
        let mut res = Dictionary::new();
        res.set("Font", Object::Dictionary(fonts));
        let content_id = doc.add_object(Stream::new(Dictionary::new(), content_of(&p.blocks)));
        let mut page = Dictionary::new();
        page.set("Type", Object::Name(b"Page".to_vec()));
        page.set("Parent", Object::Reference(pages_id));
        page.set("Contents", Object::Reference(content_id));
        if i % 2 == 0 {
            page.set("Resources", Object::Dictionary(res));
        } else {
            let rid = doc.add_object(res);
            page.set("Resources", Object::Reference(rid));
        }
        kids.push(Object::Reference(doc.add_object(page)));
    }
    let mut node = Dictionary::new();
    node.set("Type", Object::Name(b"Pages".to_vec()));
    node.set("Count", Object::Integer(kids.len() as i64));
    node.set("Kids", Object::Array(kids));
    node.set("MediaBox", Object::Array(vec![0.into(), 0.into(), 595.into(), 842.into()]));
    doc.objects.insert(pages_id, Object::Dictionary(node));
    let mut cat = Dictionary::new();
    cat.set("Type", Object::Name(b"Catalog".to_vec()));
    cat.set("Pages", Object::Reference(pages_id));
    let cat_id = doc.add_object(cat);
    doc.trailer.set("Root", Object::Reference(cat_id));
    if compress {
        doc.compress();
    }
    doc
}

fn extract_pages(doc: &Document, order: &[u32]) -> Result<String, String> {
    match util::guard(|| doc.extract_text(order)) {
        Ok(Ok(s)) => Ok(s),
        Ok(Err(e)) => Err(format!("extract_text error: {}", e)),
        Err(p) => Err(format!("extract_text {}", p)),
    }
}

/// extract_text(order) == the expected text of the listed pages in that order, each page decoded
/// with the table of *its own* font, on the built document and after save+load in both formats.
fn check_multi(pages: &[PageSpec], orders: &[Vec<u32>], compress: bool) -> (u64, Option<String>) {
    let mut per_page = vec![];
    for p in pages {
        match expected_extraction(&p.table, &p.blocks) {
            Ok(w) => per_page.push(w),
            Err(m) => return (0, Some(m)),
        }
    }
    let doc = multi_doc(pages, compress);
    let mut n = 0;
    let stages: [(&str, Option<bool>); 3] = [("built document", None), ("after save (table) + load", Some(true)), ("after save (stream) + load", Some(false))];
    for (label, fmt) in stages {
        let d = match fmt {
            None => doc.clone(),
            Some(t) => match util::save_bytes(&doc, t).and_then(|b| util::load(&b)) {
                Ok(d) => d,
                Err(e) => return (n, Some(format!("{}: {}", label, e))),
            },
        };
        for order in orders {
            let want: String = order.iter().map(|p| per_page[*p as usize - 1].as_str()).collect();
            n += 1;
            match extract_pages(&d, order) {
                Err(e) => return (n, Some(format!("{}, pages {:?}: {}", label, order, e))),
                Ok(got) if got != want => {
                    let at = got.chars().zip(want.chars()).position(|(a, b)| a != b).unwrap_or(got.chars().count().min(want.chars().count()));
                    let g: String = got.chars().skip(at.saturating_sub(3)).take(12).collect();
                    let w: String = want.chars().skip(at.saturating_sub(3)).take(12).collect();
                    return (
                        n,
                        Some(format!(
                            "{}, extract_text(&{:?}) (page tables {:?}): differs at character {}: got ..{:?} = {:x?}, expected ..{:?} = {:x?}",
                            label,
                            order,
                            pages.iter().map(|p| p.table.as_str()).collect::<Vec<_>>(),
                            at,
                            g,
                            scalars_of(&g),
                            w,
                            scalars_of(&w)
                        )),
                    );
                }
                Ok(_) => {}
            }
        }
    }
    (n, None)
}

fn run_multi(run: &Run, part: &str, pages: &[PageSpec], orders: &[Vec<u32>], compress: bool) {
    let (n, r) = check_multi(pages, orders, compress);
    run.eval(n);
    if let Some(m) = r {
        run.fail(
            None,
            json!({"kind": "multi", "part": part, "pages": pages_to_json(pages), "orders": orders, "compress": compress}),
            &m,
            "extract_text(pages) == for every listed page, in order, the text decoded with that page's own font encoding (+ the space after a TJ array, the line feed at ET)",
        );
    }
}

fn part_multipage(run: &Run, repertoires: &[(String, Vec<u8>)]) {
    // what each table makes of each byte (None = not in the repertoire)
    let cell = |ti: usize, b: u8| -> Option<String> { with_encoding(&repertoires[ti].0, |e| dec(e, &[b])).ok().and_then(|r| r.ok()).filter(|s| !s.is_empty()) };
    let cells: Vec<Vec<Option<String>>> = (0..repertoires.len()).map(|ti| (0..=255u8).map(|b| cell(ti, b)).collect()).collect();
    // bytes of table a's repertoire that table b decodes differently (or not at all)
    let differing = |a: usize, b: usize| -> Vec<u8> { repertoires[a].1.iter().cloned().filter(|&x| cells[a][x as usize] != cells[b][x as usize]).collect() };
    let page_for = |a: usize, other: usize| -> PageSpec {
        let mut blocks = vec![];
        let d = differing(a, other);
        if !d.is_empty() {
            blocks.push(Block { bytes: d.clone(), tj_array: false, hex: false });
            blocks.push(Block { bytes: d, tj_array: true, hex: true });
        }
        blocks.push(Block { bytes: repertoires[a].1.clone(), tj_array: false, hex: false });
        PageSpec { table: repertoires[a].0.clone(), blocks }
    };
    let n = repertoires.len();
    let mut docs: Vec<(Vec<PageSpec>, Vec<Vec<u32>>)> = vec![];
    let mut diff_info = serde_json::Map::new();
    for a in 0..n {
        for b in 0..n {
            if a == b {
                continue;
            }
            diff_info.insert(format!("{} vs {}", repertoires[a].0, repertoires[b].0), json!(differing(a, b).len()));
            docs.push((vec![page_for(a, b), page_for(b, a)], vec![vec![1, 2], vec![2, 1], vec![1], vec![2], vec![2, 1, 2]]));
        }
    }
    // the same table on both pages (the cached entry is the right one by luck): control cases
    for a in 0..n {
        docs.push((vec![page_for(a, a), page_for(a, a)], vec![vec![1, 2], vec![2, 1]]));
    }
    // one document with all five, every order of the five pages
    if n >= 2 {
        let pages: Vec<PageSpec> = (0..n).map(|a| page_for(a, (a + 1) % n)).collect();
        let orders: Vec<Vec<u32>> = (0..vharness::gen::factorial(n)).map(|i| vharness::gen::nth_permutation(n, i).iter().map(|p| *p as u32 + 1).collect()).collect();
        docs.push((pages, orders));
    }
    let extracts = AtomicU64::new(0);
    util::par_for(docs.len() * 2, |i| {
        let (pages, orders) = &docs[i / 2];
        let compress = i % 2 == 1;
        extracts.fetch_add(orders.len() as u64 * 3, Ordering::Relaxed);
        run_multi(run, "multipage", pages, orders, compress);
    });
    run.nontrivial(docs.len() as u64 * 2);
    run.add("extraction_docs", docs.len() as u64 * 2);
    run.add("multipage_docs", docs.len() as u64 * 2);
    run.add("multipage_extract_calls", extracts.load(Ordering::Relaxed));
    run.set("multipage_differing_bytes", Value::Object(diff_info));
    if let Some((pages, orders)) = docs.first() {
        run.sample(json!({"part": "c-multipage", "page_tables": pages.iter().map(|p| p.table.clone()).collect::<Vec<_>>(), "orders": orders,
                          "page_1_first_block": hex(&pages[0].blocks[0].bytes), "resources": "own dictionary per page, font named /F1 on every page"}));
    }
}

// ---------------------------------------------------------------------------------------------

fn main() {
    let run = Run::from_args("C16", "exploration");
    util::quiet_panics();
    util::init_pool();
    util::pin_schedule();
    if let Mode::Replay(path) = run.mode.clone() {
        replay(&run, &path);
    }
    run.rule(
        "complete enumerations: every Unicode scalar value as a one-character string x {text_string, encode_utf16_be, encode_utf8}; all \
         strings of length <=3 (thorough: <=5) over the 15-character alphabet x the same three encoders; all byte strings of length \
         <=5 (thorough: <=7) over {FE,FF,EF,BB,BF,00,41,D8,DC} (totality); 5 tables x 256 bytes (+ the 256-byte string both ways, + \
         the published cells; thorough: + all byte pairs); extraction documents = table x repertoire byte x {Tj literal, Tj hex, TJ} \
         + whole repertoire + ordered pairs of repertoire bytes (thorough: all; quick: a seed-rotated slice) + multi-page documents \
         (every ordered pair of the five encodings and one five-page document, each page with its own Resources and a font named \
         /F1, showing the bytes the two tables decode differently and the whole repertoire, extracted in several page orders \
         in one call); escape-shaped strings ESC w ESC, w over {a,Z,1,U+00E9}^k, k<=5, in 8 contexts. All cases \
         count as non-trivial except totality strings over {00,41}; distinct by construction",
    );
    run.assume("the published tables are those written into this check: Microsoft cp1252 and Apple Mac OS Roman as shipped with Python's codecs, PDFDocEncoding per ISO 32000-1 Annex D.2; compared only on 0x20-0x7E and on the Latin-1 characters U+00A1-U+00FF; cells whose published value differs between the glyph-name and the code-page convention are excluded and listed under coverage.tables");
    run.assume("extraction: the font dictionary has /Type /Font and /Encoding <name> only (no Differences, no ToUnicode); expected text = decoded text + what extract_text adds by construction (a space after each TJ array, a line feed at ET)");
    run.assume("the tables are private to lopdf; they are read through Dictionary::get_font_encoding + Document::decode_text / encode_text");
    part_scalars(&run);
    part_strings(&run);
    part_escapes(&run);
    part_totality(&run);
    let reps = part_tables(&run);
    part_extraction(&run, &reps);
    part_multipage(&run, &reps);
    run.set("exhaustive_parts", json!({"scalars": true, "strings": true, "totality": true, "table_cells": true, "extraction_single_bytes": true, "extraction_pairs": run.thorough}));
    run.exhaustive(true);
    run.finish();
}

fn replay(run: &Run, path: &std::path::Path) -> ! {
    let case: Value = vharness::run::read_replay(path);
    let res: Option<String> = match case["kind"].as_str() {
        Some("text") => {
            let sc: Vec<u32> = case["scalars"].as_array().map(|a| a.iter().map(|x| x.as_u64().unwrap_or(0) as u32).collect()).unwrap_or_default();
            let s = string_of(&sc);
            let via = case["via"].as_str().unwrap_or("text_string");
            println!("text: {:?} via {}", s, via);
            check_text(&s, via)
        }
        Some("bytes") => {
            let b = unhex(case["bytes"].as_str().unwrap_or(""));
            let obj = Object::String(b, StringFormat::Hexadecimal);
            match util::guard(|| decode_text_string(&obj)) {
                Ok(r) => {
                    println!("decode_text_string -> {:?}", r.map_err(|e| e.to_string()));
                    None
                }
                Err(p) => Some(p),
            }
        }
        Some("cell") => check_cell(case["table"].as_str().unwrap_or(""), &unhex(case["bytes"].as_str().unwrap_or(""))),
        Some("published") => match case["scalar"].as_u64() {
            Some(v) => check_published(case["table"].as_str().unwrap_or(""), case["byte"].as_u64().unwrap_or(0) as u8, v as u16),
            None => {
                // reverse direction: the byte must not decode to a Latin-1 character the published table does not have there
                let table = case["table"].as_str().unwrap_or("");
                let b = case["byte"].as_u64().unwrap_or(0) as u8;
                match with_encoding(table, |enc| dec(enc, &[b])) {
                    Ok(Ok(d)) => {
                        let sc = scalars_of(&d);
                        let p = published(table);
                        if sc.len() == 1 && (0xa1..=0xff).contains(&sc[0]) && p.map(|p| !p.cells.contains(&(b, sc[0] as u16))).unwrap_or(false) {
                            Some(format!("byte {:02X} decodes to U+{:04X}", b, sc[0]))
                        } else {
                            None
                        }
                    }
                    Ok(Err(m)) | Err(m) => Some(m),
                }
            }
        },
        Some("multi") => {
            let pages = pages_from_json(&case["pages"]);
            let orders: Vec<Vec<u32>> = case["orders"].as_array().map(|a| a.iter().map(|o| o.as_array().map(|x| x.iter().map(|v| v.as_u64().unwrap_or(1) as u32).collect()).unwrap_or_default()).collect()).unwrap_or_default();
            let compress = case["compress"].as_bool().unwrap_or(false);
            let a = check_multi(&pages, &orders, compress).1;
            let b = check_multi(&pages, &orders, compress).1;
            if a != b {
                eprintln!("MACHINERY: replay not deterministic: {:?} vs {:?}", a, b);
                std::process::exit(3);
            }
            a
        }
        Some("extract") => {
            let table = case["table"].as_str().unwrap_or("");
            let blocks = blocks_from_json(&case["blocks"]);
            let compress = case["compress"].as_bool().unwrap_or(false);
            let a = check_extraction(table, &blocks, compress).1;
            let b = check_extraction(table, &blocks, compress).1;
            if a != b {
                eprintln!("MACHINERY: replay not deterministic: {:?} vs {:?}", a, b);
                std::process::exit(3);
            }
            a
        }
        _ => {
            eprintln!("MACHINERY: unknown replay kind");
            std::process::exit(3);
        }
    };
    match &res {
        Some(m) => println!("observed: {}", m),
        None => println!("observed: property holds for this case"),
    }
    run.finish_replay(res.is_some())
}
