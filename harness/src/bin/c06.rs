fn main() {
    match vharness::refcrypt::selftest() {
        Ok(n) => println!("selftest ok: {} checks", n),
        Err(e) => { println!("selftest FAILED: {}", e); std::process::exit(3) }
    }
}
