//! C06 - the standard security handler agrees with the ISO 32000 algorithms (DESIGN §4 C06).
//!
//! Differential check against the independent reference handler of `refcrypt.rs`.
//! Direction A: lopdf encrypts (real `EncryptionState::try_from` + `Document::encrypt`); the reference
//! reads the encryption dictionary, recomputes the deterministic fields, validates the randomised
//! ones, authenticates as user and as owner and decrypts every string and stream -> plaintext.
//! Direction B: the reference builds the encryption dictionary and encrypts (salts / IVs / padding from
//! a fixed menu, no RNG); lopdf's `decrypt(user)` / `decrypt(owner)` must restore the plaintext.
//! Both directions are run on the in-memory document and through lopdf's writer + loader.
//! Direction K ("kept state"): a document protected by the reference (or by lopdf) is opened by lopdf with the
//! user or the owner password (or by the loader's empty password); the state lopdf keeps in
//! `Document::encryption_state` is re-encoded and used to encrypt the document again; the reference must find
//! the same P/O/U/OE/UE/Perms/V/R/key length/filters, authenticate both passwords, derive the same key and
//! decrypt the result to the plaintext.
use lopdf::{Document, Object, ObjectId};
use serde_json::{json, Value};
use std::collections::BTreeMap;
use std::sync::atomic::{AtomicU64, Ordering};
use vharness::objjson::hex;
use vharness::refcrypt::menu::{self, doc_from_portable, doc_to_portable, Config, DocKind, IdShape, Ver, F};
use vharness::refcrypt::{self as rc, Direction, EncDict, IvSource, MakeParams, Quirks, Role};
use vharness::{cmp, util, Mode, Run};

#[derive(Clone, Debug)]
struct Case {
    /// 'A' lopdf encrypts, reference opens; 'B' reference encrypts, lopdf opens
    dir: char,
    cfg: Config,
    kind: DocKind,
    pair: String,
    user: String,
    owner: String,
    perms: u64,
    id_len: usize,
    via_file: bool,
    table: bool,
    /// B: menu index for salts, IVs, U padding, Perms padding, file key
    pattern: usize,
    /// B: write the top-level /Length entry
    write_length: bool,
    /// B: leave StmF / StrF out instead of naming /Identity
    omit_identity: bool,
    /// B, revision 6: salts [user validation, user key, owner validation, owner key] chosen so that
    /// Algorithm 2.B ends in a particular way (see `boundary_salts`); None = salts from `pattern`
    salts: Option<[[u8; 8]; 4]>,
    salt_class: Option<String>,
    /// shape of the trailer's /ID entry
    id_shape: IdShape,
    /// K: who protected the document first ('A' lopdf, 'B' the reference)
    kept_source: char,
    /// K: how lopdf opened it: "user", "owner", or "loader" (the loader's own decrypt with the empty password)
    kept_role: String,
}

impl Case {
    /// the plaintext document of this case
    fn plain(&self) -> Document {
        let id0 = menu::id_of_len(self.id_len);
        let mut d = menu::build_doc(self.kind, &self.cfg, &id0, !self.via_file);
        if self.id_shape != IdShape::Hex {
            self.id_shape.apply(&mut d, &id0);
        }
        d
    }
    /// first element of the file identifier as the algorithms see it (empty when there is none: only
    /// revisions 5 and 6, which never use it, are combined with such documents)
    fn id0(&self) -> Vec<u8> {
        self.id_shape.id0(&menu::id_of_len(self.id_len)).unwrap_or_default()
    }
    fn to_json(&self) -> Value {
        json!({
            "direction": self.dir.to_string(), "config": self.cfg.to_json(), "doc": self.kind.name(), "pair": self.pair,
            "user": self.user, "owner": self.owner, "perms": self.perms, "p_word": menu::p_word(self.perms), "id_len": self.id_len,
            "via_file": self.via_file, "table": self.table, "pattern": self.pattern, "write_length": self.write_length,
            "omit_identity": self.omit_identity,
            "salts": self.salts.map(|s| s.iter().map(|x| hex(x)).collect::<Vec<_>>()), "salt_class": self.salt_class,
            "id_shape": self.id_shape.name(), "kept_source": self.kept_source.to_string(), "kept_role": self.kept_role,
        })
    }
    fn from_json(v: &Value) -> Case {
        Case {
            dir: v["direction"].as_str().and_then(|s| s.chars().next()).unwrap_or('A'),
            cfg: Config::from_json(&v["config"]),
            kind: DocKind::from_name(v["doc"].as_str().unwrap_or("page")),
            pair: v["pair"].as_str().unwrap_or("").to_string(),
            user: v["user"].as_str().unwrap_or("").to_string(),
            owner: v["owner"].as_str().unwrap_or("").to_string(),
            perms: v["perms"].as_u64().unwrap_or(0),
            id_len: v["id_len"].as_u64().unwrap_or(16) as usize,
            via_file: v["via_file"].as_bool().unwrap_or(false),
            table: v["table"].as_bool().unwrap_or(true),
            pattern: v["pattern"].as_u64().unwrap_or(0) as usize,
            write_length: v["write_length"].as_bool().unwrap_or(true),
            omit_identity: v["omit_identity"].as_bool().unwrap_or(false),
            salts: v["salts"].as_array().filter(|a| a.len() == 4).map(|a| {
                core::array::from_fn(|i| {
                    let b = vharness::objjson::unhex(a[i].as_str().unwrap_or("0000000000000000"));
                    core::array::from_fn(|j| b.get(j).copied().unwrap_or(0))
                })
            }),
            salt_class: v["salt_class"].as_str().map(|s| s.to_string()),
            id_shape: IdShape::from_name(v["id_shape"].as_str().unwrap_or("hex")),
            kept_source: v["kept_source"].as_str().and_then(|s| s.chars().next()).unwrap_or('B'),
            kept_role: v["kept_role"].as_str().unwrap_or("user").to_string(),
        }
    }
}

#[derive(Clone, Debug)]
struct Fail {
    item: String,
    detail: String,
    finding: Option<&'static str>,
}

#[derive(Default)]
struct Counters {
    fields_equal: AtomicU64,
    fields_validated: AtomicU64,
    ref_strings: AtomicU64,
    ref_streams: AtomicU64,
    lopdf_opens: AtomicU64,
    skipped: AtomicU64,
    kept_not_applicable: AtomicU64,
}

fn inc(a: &AtomicU64, n: u64) {
    a.fetch_add(n, Ordering::Relaxed);
}

fn expected_text(item: &str) -> &'static str {
    if item.starts_with("A:field") {
        "the entry lopdf writes equals the value the ISO 32000 algorithm defines (deterministic fields) or validates under it (randomised fields)"
    } else if item.starts_with("K:") {
        "the state lopdf keeps after decrypting re-encodes to the parameters of the original protection (V, R, key length, P, O, U, OE, UE, Perms, EncryptMetadata, filters, file key), and the document encrypted again with it is authenticated by the reference handler with the user and the owner password, gives the same file key and decrypts to the plaintext"
    } else if item.starts_with("A:") {
        "the reference handler authenticates with this password and decrypts every string and stream of the lopdf-encrypted document to the plaintext"
    } else {
        "lopdf authenticates this password and decrypt restores the plaintext of the document the reference handler encrypted"
    }
}

fn nominal_cfm(f: F) -> &'static [u8] {
    menu::nominal_cfm(f)
}

/// finding: lopdf encrypts / decrypts the Contents value of a signature dictionary like any other string
const SIG_FINDING: &str = "sig-contents-not-exempt";

fn identity_named_not_in_cf(c: &Config) -> bool {
    c.has_filters() && (c.stm == F::Identity || c.strf == F::Identity) && !c.identity_in_cf && !c.custom_identity
}

fn uses_custom_identity(c: &Config) -> bool {
    c.has_filters() && c.custom_identity && (c.stm == F::Identity || c.strf == F::Identity)
}

fn too_long_r5(r: i64, pw: &str) -> bool {
    r >= 5 && rc::utf8_prep_full(pw).map(|b| b.len() > 127).unwrap_or(false)
}

/// For documents of long strings: which strings differ, with format and length (the values would fill pages).
fn long_string_note(plain: &BTreeMap<ObjectId, Object>, got: &BTreeMap<ObjectId, Object>, m: String) -> String {
    fn fmt(f: &lopdf::StringFormat) -> &'static str {
        match f {
            lopdf::StringFormat::Literal => "literal",
            lopdf::StringFormat::Hexadecimal => "hexadecimal",
        }
    }
    fn go(a: &Object, b: &Object, path: &mut String, out: &mut Vec<String>) {
        let keep = path.len();
        match (a, b) {
            (Object::String(x, fx), Object::String(y, fy)) if x != y => out.push(format!(
                "{}: plaintext a {} string of {} bytes, got a {} string of {} bytes{}",
                path,
                fmt(fx),
                x.len(),
                fmt(fy),
                y.len(),
                if x.len() == y.len() { format!(" ({} of them differ)", x.iter().zip(y.iter()).filter(|(p, q)| p != q).count()) } else { String::new() }
            )),
            (Object::Array(x), Object::Array(y)) => {
                for (i, (p, q)) in x.iter().zip(y.iter()).enumerate() {
                    path.push_str(&format!("[{}]", i));
                    go(p, q, path, out);
                    path.truncate(keep);
                }
            }
            (Object::Dictionary(x), Object::Dictionary(y)) => {
                for (k, p) in x.iter() {
                    if let Ok(q) = y.get(k) {
                        path.push('/');
                        path.push_str(&String::from_utf8_lossy(k));
                        go(p, q, path, out);
                        path.truncate(keep);
                    }
                }
            }
            _ => {}
        }
    }
    if m.len() <= 1500 {
        return m;
    }
    let mut out = vec![];
    for (id, p) in plain {
        if let Some(o) = got.get(id) {
            go(p, o, &mut format!("obj({} {})", id.0, id.1), &mut out);
        }
    }
    if out.is_empty() {
        vharness::run::truncate(&m, 600)
    } else {
        format!("{} string(s) differ from the plaintext: {}", out.len(), out.iter().take(3).cloned().collect::<Vec<_>>().join("; "))
    }
}

fn diff_plain(plain: &Document, d: &Document) -> Option<String> {
    if d.trailer.has(b"Encrypt") {
        return Some("trailer still has /Encrypt".into());
    }
    let m = cmp::diff_objects(&plain.objects, &d.objects)?;
    let m = long_string_note(&plain.objects, &d.objects, m);
    // deep documents: say at which nesting depth the first string differs (the path alone is hard to read)
    let depth = plain.objects.iter().filter_map(|(id, p)| d.objects.get(id).and_then(|o| menu::first_differing_string_depth(p, o))).min();
    match depth {
        Some(k) if k > 24 => Some(format!("the shallowest differing string is enclosed by {} arrays/dictionaries: {}", k, vharness::run::truncate(&m, 100))),
        _ => Some(m),
    }
}

// ---------------------------------------------------------------------------------------------
// direction A

/// Decrypt the container with `key` by the reference handler and compare with the plaintext.
fn ref_content(k: Option<&Counters>, plain: &Document, container: &Document, enc: &EncDict, enc_id: ObjectId, key: &[u8], q: Quirks) -> Option<String> {
    let mut objs: BTreeMap<ObjectId, Object> = container
        .objects
        .iter()
        .filter(|(id, o)| **id != enc_id && !matches!(o.type_name(), Ok(b"XRef")))
        .map(|(k, v)| (*k, v.clone()))
        .collect();
    let rep = rc::apply(&mut objs, None, enc, key, Direction::Decrypt, q);
    if let Some(k) = k {
        inc(&k.ref_strings, rep.strings);
        inc(&k.ref_streams, rep.streams);
    }
    if let Some((path, e)) = rep.errors.first() {
        return Some(format!("{} object(s) cannot be decrypted, first {}: {}", rep.errors.len(), path, e));
    }
    cmp::diff_objects(&plain.objects, &objs).map(|m| long_string_note(&plain.objects, &objs, m))
}

/// What lopdf produced in direction A: the encrypted document (in memory, or after lopdf's writer and
/// loader) and the file key lopdf says it used. lopdf draws IVs, salts and paddings at random, so this
/// artefact - not the case descriptor - is what a verdict is a deterministic function of.
struct Artefact {
    container: Document,
    lopdf_file_key: Vec<u8>,
}

impl Artefact {
    fn to_json(&self) -> Value {
        json!({"encrypted_document": doc_to_portable(&self.container), "lopdf_file_key": hex(&self.lopdf_file_key)})
    }
    fn from_json(v: &Value) -> Artefact {
        Artefact {
            container: doc_from_portable(&v["encrypted_document"]),
            lopdf_file_key: vharness::objjson::unhex(v["lopdf_file_key"].as_str().unwrap_or("")),
        }
    }
}

/// Direction A, lopdf's half: encrypt the plaintext document with the real library.
fn a_produce(c: &Case) -> Result<Result<Artefact, Vec<Fail>>, String> {
    let plain = c.plain();
    let r = c.cfg.revision();
    rc::prep(r, &c.user)?;
    rc::prep(r, &c.owner)?;
    let state = match menu::build_state(&c.cfg, &plain, &c.user, &c.owner, c.perms) {
        Ok(s) => s,
        Err(e) => return Ok(Err(vec![Fail { item: "A:state".into(), detail: e, finding: None }])),
    };
    let mut enc_doc = plain.clone();
    match util::guard(|| enc_doc.encrypt(&state)) {
        Ok(Ok(())) => {}
        other => return Ok(Err(vec![Fail { item: "A:encrypt".into(), detail: format!("{:?}", other), finding: None }])),
    }
    // the encrypted document as a container of objects: in memory, or written and parsed back
    let container = if c.via_file {
        let l = util::save_bytes(&enc_doc, c.table).and_then(|b| util::load(&b))?;
        if !l.is_encrypted() {
            return Err("loader auto-decrypted: cannot serve as a container".into());
        }
        l
    } else {
        enc_doc
    };
    Ok(Ok(Artefact { container, lopdf_file_key: state.file_encryption_key().to_vec() }))
}

fn run_a(c: &Case, k: Option<&Counters>) -> Result<Vec<Fail>, String> {
    match a_produce(c)? {
        Ok(a) => a_judge(c, &a, k),
        Err(f) => Ok(f),
    }
}

/// Direction A, the reference's half: a deterministic function of the case descriptor and the artefact.
fn a_judge(c: &Case, art: &Artefact, k: Option<&Counters>) -> Result<Vec<Fail>, String> {
    let r = c.cfg.revision();
    let id0 = c.id0();
    let plain = c.plain();
    let up = rc::prep(r, &c.user)?;
    let op = rc::prep(r, &c.owner)?;
    let mut fails: Vec<Fail> = vec![];
    let container = &art.container;
    let enc_id = container.trailer.get(b"Encrypt").and_then(Object::as_reference).map_err(|e| format!("no /Encrypt reference: {}", e))?;
    let dict = match container.objects.get(&enc_id) {
        Some(Object::Dictionary(d)) => d,
        _ => return Ok(vec![Fail { item: "A:dictionary".into(), detail: "encryption dictionary object missing".into(), finding: None }]),
    };
    let enc = match EncDict::parse(dict) {
        Ok(e) => e,
        Err(e) => return Ok(vec![Fail { item: "A:dictionary".into(), detail: e, finding: None }]),
    };
    let file_id0 = rc::id0_of(&container.trailer);
    let eq = |fails: &mut Vec<Fail>, name: &str, got: &[u8], want: &[u8], finding: Option<&'static str>| {
        if got == want {
            if let Some(k) = k {
                inc(&k.fields_equal, 1);
            }
        } else {
            let printable = |b: &[u8]| !b.is_empty() && b.iter().all(|x| (0x20..0x7f).contains(x));
            let text = if printable(got) && printable(want) { format!(" (as text: {} / {})", String::from_utf8_lossy(got), String::from_utf8_lossy(want)) } else { String::new() };
            fails.push(Fail { item: format!("A:field {}", name), detail: format!("lopdf wrote {} , the standard defines {}{}", hex(got), hex(want), text), finding });
        }
    };
    // --- fields every revision has
    eq(&mut fails, "ID[0]", &file_id0, &id0, None);
    eq(&mut fails, "V", &enc.v.to_be_bytes(), &c.cfg.version().to_be_bytes(), None);
    eq(&mut fails, "R", &enc.r.to_be_bytes(), &r.to_be_bytes(), None);
    eq(&mut fails, "P", &enc.p.to_be_bytes(), &menu::p_word(c.perms).to_be_bytes(), None);
    eq(&mut fails, "key length", &enc.key_bits.to_be_bytes(), &c.cfg.key_bits().to_be_bytes(), None);
    if c.cfg.has_filters() {
        eq(&mut fails, "EncryptMetadata", &[enc.encrypt_metadata as u8], &[c.cfg.em as u8], None);
        for f in [c.cfg.stm, c.cfg.strf] {
            if f != F::Identity {
                let got = enc.cf.get(&c.cfg.filter_name(f)).cloned().unwrap_or_default();
                eq(&mut fails, "CFM", &got, nominal_cfm(f), None);
            }
        }
        // every crypt filter registered with lopdf that neither StmF nor StrF names must be defined in the written
        // CF dictionary as well: a stream's own Crypt filter may name it
        for (name, f) in c.cfg.extra_entries() {
            match enc.cf.get(&name) {
                Some(got) => eq(&mut fails, &format!("CF /{} CFM", String::from_utf8_lossy(&name)), got, nominal_cfm(f), None),
                None => fails.push(Fail {
                    item: format!("A:field CF /{}", String::from_utf8_lossy(&name)),
                    detail: format!(
                        "the encryption dictionary lopdf wrote has no CF entry /{} (CF holds [{}]; StmF /{}, StrF /{}) although the EncryptionState it was encoded from registers that crypt filter (CFM /{}): a stream whose Crypt filter names it cannot be decrypted by any reader",
                        String::from_utf8_lossy(&name),
                        enc.cf.keys().map(|k| format!("/{}", String::from_utf8_lossy(k))).collect::<Vec<_>>().join(" "),
                        String::from_utf8_lossy(enc.stmf.as_deref().unwrap_or(b"(absent)")),
                        String::from_utf8_lossy(enc.strf.as_deref().unwrap_or(b"(absent)")),
                        String::from_utf8_lossy(nominal_cfm(f))
                    ),
                    finding: None,
                }),
            }
        }
    }
    if r <= 4 {
        // --- deterministic fields: O, file key, U (R2: all 32 bytes, R3-4: first 16)
        let n = enc.n();
        let o_ref = rc::alg3_o(r, n, &op, &up, false);
        let o_finding = if op.is_empty() && !up.is_empty() && rc::alg3_o(r, n, &op, &up, true) == enc.o { Some("empty-owner-password") } else { None };
        eq(&mut fails, "O", &enc.o, &o_ref, o_finding);
        let key_ref = rc::alg2_file_key(&enc, &id0, &up);
        eq(&mut fails, "file key", &art.lopdf_file_key, &key_ref, None);
        if r == 2 {
            eq(&mut fails, "U", &enc.u, &rc::alg4_u(&key_ref), None);
        } else {
            eq(&mut fails, "U[0..16]", &enc.u[..16], &rc::alg5_u(&key_ref, &id0, &[0; 16])[..16], None);
        }
    } else {
        // --- randomised fields validate and yield the file key
        let long = too_long_r5(r, &c.user) || too_long_r5(r, &c.owner);
        let upf = rc::utf8_prep_full(&c.user)?;
        let opf = rc::utf8_prep_full(&c.owner)?;
        let val = |fails: &mut Vec<Fail>, name: &str, ok: bool, ok_untruncated: bool| {
            if ok {
                if let Some(k) = k {
                    inc(&k.fields_validated, 1);
                }
            } else {
                fails.push(Fail {
                    item: format!("A:field {}", name),
                    detail: "does not validate under the standard's algorithm".into(),
                    finding: if long && ok_untruncated { Some("r6-password-over-127") } else { None },
                });
            }
        };
        let fk = Some(&menu::FILE_KEY[..]);
        val(&mut fails, "U (Algorithm 11)", rc::alg11_user(&enc, &up), rc::alg11_user(&enc, &upf));
        val(&mut fails, "O (Algorithm 12)", rc::alg12_owner(&enc, &op), rc::alg12_owner(&enc, &opf));
        val(&mut fails, "UE (file key)", rc::alg2a_user(&enc, &up).as_deref() == fk, rc::alg2a_user(&enc, &upf).as_deref() == fk);
        val(&mut fails, "OE (file key)", rc::alg2a_owner(&enc, &op).as_deref() == fk, rc::alg2a_owner(&enc, &opf).as_deref() == fk);
        match rc::alg13(&enc, &menu::FILE_KEY) {
            Ok(()) => val(&mut fails, "Perms (Algorithm 13)", true, true),
            Err(e) => {
                // finding: the 16 bytes lopdf stores are the *unencrypted* block of Algorithm 10
                let raw = &enc.perms;
                let plain_block = raw.len() == 16
                    && &raw[9..12] == b"adb"
                    && raw[..4] == (enc.p as u32).to_le_bytes()
                    && raw[8] == if enc.encrypt_metadata { b'T' } else { b'F' };
                fails.push(Fail {
                    item: "A:field Perms (Algorithm 13)".into(),
                    detail: format!("{}; stored bytes {}", e, hex(raw)),
                    finding: if plain_block { Some("perms-not-encrypted") } else { None },
                });
            }
        }
        eq(&mut fails, "file key", &art.lopdf_file_key, &menu::FILE_KEY, None);
    }
    // --- authenticate and open, as user and as owner
    let mut user_key: Option<Vec<u8>> = None;
    for role in [Role::User, Role::Owner] {
        let rname = if role == Role::User { "user" } else { "owner" };
        // an empty owner password is "no owner password" for R <= 4: the user password opens as owner
        let absent_owner = role == Role::Owner && r <= 4 && op.is_empty() && !up.is_empty();
        let pw: &[u8] = if role == Role::User || absent_owner { &up } else { &op };
        let key = match rc::derive(&enc, &id0, pw, role) {
            Ok(key) => key,
            Err(e) => {
                // one catalogued deviation neutralised must make the authentication pass
                let mut alt: Vec<(&'static str, Vec<u8>, bool)> = vec![];
                let text = if role == Role::User { &c.user } else { &c.owner };
                if too_long_r5(r, text) {
                    alt.push(("r6-password-over-127", rc::utf8_prep_full(text)?, false));
                }
                if absent_owner {
                    alt.push(("empty-owner-password", vec![], true));
                }
                let mut found = None;
                for (id, p, trunc) in alt {
                    if let Ok(key) = rc::derive_opt(&enc, &id0, &p, role, trunc) {
                        found = Some((id, key));
                        break;
                    }
                }
                fails.push(Fail { item: format!("A:authenticate as {}", rname), detail: e, finding: found.as_ref().map(|x| x.0) });
                match found {
                    Some((_, key)) => key,
                    None => continue,
                }
            }
        };
        if role == Role::User {
            user_key = Some(key.clone());
        } else if user_key.as_deref() == Some(&key[..]) {
            // same key as the user role: the decrypted content is the same by construction
            if let Some(k) = k {
                inc(&k.fields_equal, 1);
            }
            continue;
        }
        let Some(problem) = ref_content(k, &plain, container, &enc, enc_id, &key, Quirks::default()) else { continue };
        let mut cands: Vec<(&'static str, Quirks)> = vec![];
        if c.kind == DocKind::StreamDict && c.cfg.strf != F::Identity {
            cands.push(("stream-dict-strings", Quirks { skip_stream_dict_strings: true, ..Default::default() }));
        }
        if identity_named_not_in_cf(&c.cfg) {
            cands.push(("identity-filter-fallback", Quirks { missing_filter_is_rc4: true, ..Default::default() }));
        }
        if uses_custom_identity(&c.cfg) {
            cands.push(("cfm-none", Quirks { cfm_identity_is_none: true, ..Default::default() }));
        }
        if c.kind == DocKind::CryptArray {
            cands.push(("crypt-decodeparms-array", Quirks { crypt_parms_array_ignored: true, ..Default::default() }));
        }
        if c.kind == DocKind::SigDict {
            cands.push((SIG_FINDING, Quirks { sig_contents_processed: true, ..Default::default() }));
        }
        let finding = cands.into_iter().find(|(_, q)| ref_content(None, &plain, container, &enc, enc_id, &key, *q).is_none()).map(|x| x.0);
        fails.push(Fail { item: format!("A:content opened as {}", rname), detail: problem, finding });
    }
    Ok(fails)
}

// ---------------------------------------------------------------------------------------------
// direction B

fn pattern16(p: usize) -> [u8; 16] {
    match p {
        0 => [0; 16],
        1 => [0xff; 16],
        _ => core::array::from_fn(|i| i as u8),
    }
}

/// What the reference-side writer does differently (classifier only; default = the standard).
#[derive(Clone, Copy, Default, PartialEq)]
struct BVariant {
    quirks: Quirks,
    /// spell the CFM of the identity crypt filter /Identity (lopdf's spelling) instead of /None
    cfm_identity: bool,
    /// V4: always write /Length 128
    force_length: bool,
    /// V5: never write /Length 256
    no_length: bool,
    /// store the Perms block of Algorithm 10 without the AES-256 ECB step
    perms_plain: bool,
}

struct BDoc {
    plain: Document,
    doc: Document,
    enc: EncDict,
    id0: Vec<u8>,
    op: Vec<u8>,
    up: Vec<u8>,
}

fn build_b(c: &Case, v: BVariant) -> Result<BDoc, String> {
    let r = c.cfg.revision();
    let id0 = c.id0();
    let plain = c.plain();
    let up = rc::prep(r, &c.user)?;
    let op = rc::prep(r, &c.owner)?;
    let mut cf: Vec<(Vec<u8>, Vec<u8>)> = vec![];
    for f in [c.cfg.stm, c.cfg.strf] {
        let name = c.cfg.filter_name(f);
        if cf.iter().any(|(n, _)| *n == name) {
            continue;
        }
        if f != F::Identity {
            cf.push((name, nominal_cfm(f).to_vec()));
        } else if c.cfg.custom_identity {
            cf.push((name, if v.cfm_identity { b"Identity".to_vec() } else { b"None".to_vec() }));
        }
    }
    for (name, f) in c.cfg.extra_entries() {
        cf.push((name, if f == F::Identity && v.cfm_identity { b"Identity".to_vec() } else { nominal_cfm(f).to_vec() }));
    }
    let fname = |f: F| -> Option<Vec<u8>> {
        if f == F::Identity && !c.cfg.custom_identity && c.omit_identity {
            None
        } else {
            Some(c.cfg.filter_name(f))
        }
    };
    let p16 = pattern16(c.pattern);
    let mut file_key = menu::FILE_KEY;
    if c.pattern == 1 {
        file_key = [0xff; 32];
    } else if c.pattern == 2 {
        file_key = core::array::from_fn(|i| (255 - i) as u8);
    }
    let s8 = |x: u8| -> [u8; 8] { core::array::from_fn(|i| p16[i] ^ x) };
    let mp = MakeParams {
        v: c.cfg.version(),
        r,
        key_bits: c.cfg.key_bits(),
        write_length: match c.cfg.ver {
            Ver::V1 => false,
            Ver::R5 | Ver::V5 => c.write_length && !v.no_length,
            _ => c.write_length || v.force_length,
        },
        p: menu::p_word(c.perms),
        encrypt_metadata: c.cfg.em,
        write_encrypt_metadata: !(c.cfg.em && c.pattern % 2 == 1),
        cf,
        stmf: fname(c.cfg.stm),
        strf: fname(c.cfg.strf),
        file_key,
        u_tail: p16,
        salts: c.salts.unwrap_or([s8(0), s8(0x10), s8(0x20), s8(0x30)]),
        perms_tail: [p16[0], p16[1], p16[2], p16[3]],
    };
    let (mut dict, key) = rc::make(&mp, &id0, &up, &op);
    let enc = EncDict::parse(&dict).map_err(|e| format!("reference wrote a dictionary it cannot read: {}", e))?;
    if v.perms_plain && r >= 5 {
        let mut b = [0u8; 16];
        b.copy_from_slice(&enc.perms);
        let raw = rc::aes_ecb_decrypt_block(&key, &b)?;
        dict.set("Perms", Object::String(raw.to_vec(), lopdf::StringFormat::Hexadecimal));
    }
    let mut doc = plain.clone();
    let mut q = v.quirks;
    q.cfm_identity_is_none |= v.cfm_identity;
    let rep = rc::apply(&mut doc.objects, None, &enc, &key, Direction::Encrypt(IvSource::new(p16)), q);
    if let Some((p, e)) = rep.errors.first() {
        return Err(format!("reference cannot encrypt {}: {}", p, e));
    }
    // the encryption dictionary takes the lowest object number the document does not use: for documents with gaps
    // in their numbering it then sits in FRONT of objects that have to be processed (lopdf itself always appends it)
    let used: std::collections::BTreeSet<u32> = doc.objects.keys().map(|k| k.0).collect();
    let enc_id = ((1u32..).find(|n| !used.contains(n)).unwrap(), 0);
    doc.max_id = doc.max_id.max(enc_id.0);
    doc.objects.insert(enc_id, Object::Dictionary(dict));
    doc.trailer.set("Encrypt", Object::Reference(enc_id));
    Ok(BDoc { plain, doc, enc, id0, op, up })
}

/// decrypt with a password (or raw bytes); Ok(document) or the error text
fn lopdf_open(target: &Document, pw: Result<&str, &[u8]>) -> Result<Document, String> {
    let mut d = target.clone();
    let r = match pw {
        Ok(s) => util::guard(|| d.decrypt(s)),
        Err(raw) => util::guard(|| d.decrypt_raw(raw)),
    };
    match r {
        Ok(Ok(())) => Ok(d),
        Ok(Err(e)) => Err(format!("decrypt returned Err({:?})", e)),
        Err(p) => Err(p),
    }
}

struct BItem {
    name: &'static str,
    problem: Option<String>,
    /// finding established by the item's own evidence (owner-key-r2-4)
    intrinsic: Option<&'static str>,
}

/// Build the reference-encrypted document under a writer variant and let lopdf open it.
/// `only`: evaluate just these items (classifier: the items that failed under the standard variant).
fn b_eval(c: &Case, v: BVariant, k: Option<&Counters>, only: Option<&[&'static str]>) -> Result<Vec<BItem>, String> {
    let want = |name: &str| only.map(|o| o.contains(&name)).unwrap_or(true);
    let r = c.cfg.revision();
    let b = build_b(c, v)?;
    let item = |name: &'static str, problem: Option<String>| BItem { name, problem, intrinsic: None };
    let target = if c.via_file {
        match util::save_bytes(&b.doc, c.table).and_then(|x| util::load(&x)) {
            Ok(t) => t,
            // the loader's own decrypt("") failed
            Err(e) => return Ok(vec![item("B:load", Some(e))]),
        }
    } else {
        b.doc.clone()
    };
    if let Some(k) = k {
        inc(&k.lopdf_opens, 1);
    }
    if !target.is_encrypted() {
        // the loader opened it with the empty password
        return Ok(vec![item("B:auto-decrypt on load", diff_plain(&b.plain, &target))]);
    }
    let mut out = vec![];
    let show = |x: Result<Result<(), lopdf::Error>, String>| match x {
        Ok(Ok(())) => None,
        other => Some(format!("{:?}", other)),
    };
    if want("B:authenticate user") {
        out.push(item("B:authenticate user", show(util::guard(|| target.authenticate_user_password(&c.user)))));
    }
    let owner_present = !(r <= 4 && b.op.is_empty());
    let mut owner_auth_ok = false;
    if owner_present && (want("B:authenticate owner") || want("B:decrypt(owner)")) {
        let a = show(util::guard(|| target.authenticate_owner_password(&c.owner)));
        owner_auth_ok = a.is_none();
        out.push(item("B:authenticate owner", a));
    }
    let as_user = if want("B:decrypt(user)") || (want("B:decrypt(owner)") && r <= 4) { lopdf_open(&target, Ok(&c.user)) } else { Err("not evaluated".into()) };
    if want("B:decrypt(user)") {
        out.push(item(
            "B:decrypt(user)",
            match &as_user {
                Ok(d) => diff_plain(&b.plain, d),
                Err(e) => Some(e.clone()),
            },
        ));
    }
    if owner_present && want("B:decrypt(owner)") {
        if let Some(k) = k {
            inc(&k.lopdf_opens, 1);
        }
        let as_owner = lopdf_open(&target, Ok(&c.owner));
        let problem = match &as_owner {
            Ok(d) => diff_plain(&b.plain, d),
            Err(e) => Some(e.clone()),
        };
        let mut intrinsic = None;
        // (only when decrypt(user) itself restores the plaintext: otherwise something else is wrong)
        let user_fine = matches!(&as_user, Ok(d) if diff_plain(&b.plain, d).is_none());
        if problem.is_some() && r <= 4 && rc::pad32(&b.op) != rc::pad32(&b.up) && owner_auth_ok && user_fine {
            // finding (i): lopdf authenticates it as owner, and offering the user password that Algorithm 7
            // recovers from O gives exactly what decrypt(user) gives
            if let (Some((_, recovered)), Ok(du)) = (rc::alg7_owner(&b.enc, &b.id0, &b.op), &as_user) {
                if let Ok(dr) = lopdf_open(&target, Err(&recovered)) {
                    if cmp::digest_doc(&dr) == cmp::digest_doc(du) {
                        intrinsic = Some("owner-key-r2-4");
                    }
                }
            }
        }
        out.push(BItem { name: "B:decrypt(owner)", problem, intrinsic });
    }
    Ok(out)
}

fn run_b(c: &Case, k: Option<&Counters>) -> Result<Vec<Fail>, String> {
    let r = c.cfg.revision();
    let base = b_eval(c, BVariant::default(), k, None)?;
    if base.iter().all(|i| i.problem.is_none()) {
        return Ok(vec![]);
    }
    // candidate deviations whose predicate holds for this case (most frequent first)
    type Mod = Box<dyn Fn(&mut BVariant)>;
    let mut cands: Vec<(&'static str, Mod)> = vec![];
    if r >= 5 && c.write_length {
        cands.push(("v5-length-256", Box::new(|v| v.no_length = true)));
    }
    if r >= 5 {
        cands.push(("perms-not-encrypted", Box::new(|v| v.perms_plain = true)));
    }
    if matches!(c.cfg.ver, Ver::V4) && !c.write_length {
        cands.push(("v4-length-absent", Box::new(|v| v.force_length = true)));
    }
    if c.kind == DocKind::StreamDict && c.cfg.strf != F::Identity {
        cands.push(("stream-dict-strings", Box::new(|v| v.quirks.skip_stream_dict_strings = true)));
    }
    if identity_named_not_in_cf(&c.cfg) {
        cands.push(("identity-filter-fallback", Box::new(|v| v.quirks.missing_filter_is_rc4 = true)));
    }
    if uses_custom_identity(&c.cfg) {
        cands.push(("cfm-none", Box::new(|v| v.cfm_identity = true)));
    }
    if c.kind == DocKind::CryptArray {
        cands.push(("crypt-decodeparms-array", Box::new(|v| v.quirks.crypt_parms_array_ignored = true)));
    }
    if c.kind == DocKind::SigDict {
        cands.push((SIG_FINDING, Box::new(|v| v.quirks.sig_contents_processed = true)));
    }
    // variants to try: every single candidate, then every pair - evaluated lazily and cached
    let mut sets: Vec<Vec<usize>> = (0..cands.len()).map(|i| vec![i]).collect();
    for i in 0..cands.len() {
        for j in i + 1..cands.len() {
            sets.push(vec![i, j]);
        }
    }
    let failing: Vec<&'static str> = base.iter().filter(|i| i.problem.is_some() && i.intrinsic.is_none()).map(|i| i.name).collect();
    let mut cache: Vec<Option<Vec<BItem>>> = sets.iter().map(|_| None).collect();
    let passes = |items: &[BItem], name: &str| -> bool {
        // the item passes under the variant (an item that no longer exists because the document now
        // opens differently - e.g. loads - counts only if nothing at all fails there)
        match items.iter().find(|i| i.name == name) {
            Some(i) => i.problem.is_none() || i.intrinsic.is_some(),
            None => items.iter().all(|i| i.problem.is_none() || i.intrinsic.is_some()),
        }
    };
    let mut fails = vec![];
    for it in base.into_iter().filter(|i| i.problem.is_some()) {
        let detail = it.problem.unwrap();
        if let Some(f) = it.intrinsic {
            fails.push(Fail { item: it.name.into(), detail, finding: Some(f) });
            continue;
        }
        let mut explained: Option<&Vec<usize>> = None;
        for (si, set) in sets.iter().enumerate() {
            if cache[si].is_none() {
                let mut v = BVariant::default();
                for i in set {
                    (cands[*i].1)(&mut v);
                }
                cache[si] = Some(b_eval(c, v, None, Some(&failing))?);
            }
            if passes(cache[si].as_ref().unwrap(), it.name) {
                explained = Some(set);
                break;
            }
        }
        match explained {
            Some(set) => {
                let ids: Vec<&'static str> = set.iter().map(|i| cands[*i].0).collect();
                for (n, id) in ids.iter().enumerate() {
                    let item = if ids.len() == 1 { it.name.to_string() } else { format!("{} [{} of {} deviations: {}]", it.name, n + 1, ids.len(), ids.join(" + ")) };
                    fails.push(Fail { item, detail: detail.clone(), finding: Some(id) });
                }
            }
            None => fails.push(Fail { item: it.name.into(), detail, finding: None }),
        }
    }
    Ok(fails)
}

// ---------------------------------------------------------------------------------------------
// direction K: the state lopdf keeps after a decrypt

/// What lopdf produced in direction K; the verdict is a deterministic function of it and the case.
struct KArtefact {
    /// encryption dictionary of the first protection (written by the reference or by lopdf)
    first_dict: lopdf::Dictionary,
    /// `EncryptionState::encode()` of the state lopdf kept
    kept_dict: lopdf::Dictionary,
    /// `EncryptionState::file_encryption_key()` of the state lopdf kept
    kept_key: Vec<u8>,
    /// the document encrypted again with the kept state (in memory, or after lopdf's writer and loader)
    container: Document,
}

impl KArtefact {
    fn to_json(&self) -> Value {
        json!({
            "first_dictionary": vharness::objjson::dict_to_json(&self.first_dict),
            "kept_state_encoded": vharness::objjson::dict_to_json(&self.kept_dict),
            "kept_file_key": hex(&self.kept_key),
            "reencrypted_document": doc_to_portable(&self.container),
        })
    }
    fn from_json(v: &Value) -> KArtefact {
        KArtefact {
            first_dict: vharness::objjson::dict_from_json(&v["first_dictionary"]),
            kept_dict: vharness::objjson::dict_from_json(&v["kept_state_encoded"]),
            kept_key: vharness::objjson::unhex(v["kept_file_key"].as_str().unwrap_or("")),
            container: doc_from_portable(&v["reencrypted_document"]),
        }
    }
}

fn enc_dict_of(d: &Document) -> Result<(ObjectId, lopdf::Dictionary), String> {
    let id = d.trailer.get(b"Encrypt").and_then(Object::as_reference).map_err(|e| format!("no /Encrypt reference: {}", e))?;
    match d.objects.get(&id) {
        Some(Object::Dictionary(x)) => Ok((id, x.clone())),
        _ => Err("encryption dictionary object missing".into()),
    }
}

const K_SKIP: &str = "kept-state case not applicable";

/// Direction K, lopdf's half. Err(text containing K_SKIP) = the case does not arise (e.g. the loader decrypted
/// the document although the case wants an explicit decrypt).
fn k_produce(c: &Case) -> Result<Result<KArtefact, Vec<Fail>>, String> {
    let r = c.cfg.revision();
    rc::prep(r, &c.user)?;
    rc::prep(r, &c.owner)?;
    let plain = c.plain();
    let fail = |item: &str, detail: String| Ok(Err(vec![Fail { item: item.to_string(), detail, finding: None }]));
    // --- the first protection
    let first = if c.kept_source == 'B' {
        build_b(c, BVariant::default())?.doc
    } else {
        let state = match menu::build_state(&c.cfg, &plain, &c.user, &c.owner, c.perms) {
            Ok(s) => s,
            Err(e) => return fail("K:first protection (lopdf)", e),
        };
        let mut d = plain.clone();
        match util::guard(|| d.encrypt(&state)) {
            Ok(Ok(())) => d,
            other => return fail("K:first protection (lopdf)", format!("{:?}", other)),
        }
    };
    let (_, first_dict) = enc_dict_of(&first)?;
    let target = if c.via_file {
        match util::save_bytes(&first, c.table).and_then(|x| util::load(&x)) {
            Ok(t) => t,
            Err(e) => return fail("K:load", e),
        }
    } else {
        first
    };
    // --- lopdf opens it
    let opened = if c.kept_role == "loader" {
        if target.is_encrypted() {
            return Err(format!("{}: the loader did not decrypt", K_SKIP));
        }
        target
    } else {
        if !target.is_encrypted() {
            return Err(format!("{}: the loader already decrypted", K_SKIP));
        }
        let pw = if c.kept_role == "owner" { &c.owner } else { &c.user };
        match lopdf_open(&target, Ok(pw)) {
            Ok(d) => d,
            Err(e) => return fail(&format!("K:open as {}", c.kept_role), e),
        }
    };
    if let Some(m) = diff_plain(&plain, &opened) {
        return fail(&format!("K:open as {}", c.kept_role), m);
    }
    // --- the kept state, re-encoded and used again
    let Some(kept) = opened.encryption_state.clone() else {
        return fail("K:kept state", "Document::encryption_state is None after the document was decrypted".into());
    };
    let kept_dict = match util::guard(|| kept.encode()) {
        Ok(Ok(d)) => d,
        other => return fail("K:kept state", format!("EncryptionState::encode: {:?}", other.map(|x| x.map(|_| ())))),
    };
    let mut again = opened.clone();
    match util::guard(|| again.encrypt(&kept)) {
        Ok(Ok(())) => {}
        other => return fail("K:encrypt with the kept state", format!("{:?}", other)),
    }
    // through the writer and the loader only when the loader will not decrypt it (both passwords non-empty)
    let container = if c.via_file && !c.user.is_empty() && !c.owner.is_empty() {
        match util::save_bytes(&again, c.table).and_then(|x| util::load(&x)) {
            Ok(l) if l.is_encrypted() => l,
            Ok(_) => return fail("K:reload of the re-encrypted document", "the loader opened it with the empty password although neither password is empty".into()),
            Err(e) => return fail("K:reload of the re-encrypted document", e),
        }
    } else {
        again
    };
    Ok(Ok(KArtefact { first_dict, kept_dict, kept_key: kept.file_encryption_key().to_vec(), container }))
}

/// Direction K, the reference's half, with the classification of failing items.
fn k_judge(c: &Case, art: &KArtefact, k: Option<&Counters>) -> Result<Vec<Fail>, String> {
    let mut fails = k_judge_q(c, art, k, Quirks::default())?;
    if fails.is_empty() {
        return Ok(fails);
    }
    // finding kept-state-empty-filter-name: the first protection leaves StmF or StrF out (default /Identity) AND
    // the item passes when the empty name lopdf's kept state writes for it is read as /Identity
    let absent = EncDict::parse(&art.first_dict).map(|e| e.v >= 4 && (e.stmf.is_none() || e.strf.is_none())).unwrap_or(false);
    if absent {
        let neutral = k_judge_q(c, art, None, Quirks { empty_filter_name_is_identity: true, ..Default::default() })?;
        for f in fails.iter_mut() {
            if !neutral.iter().any(|n| n.item == f.item) {
                f.finding = Some("kept-state-empty-filter-name");
            }
        }
    }
    Ok(fails)
}

fn k_judge_q(c: &Case, art: &KArtefact, k: Option<&Counters>, q: Quirks) -> Result<Vec<Fail>, String> {
    let r = c.cfg.revision();
    let id0 = c.id0();
    let plain = c.plain();
    let up = rc::prep(r, &c.user)?;
    let op = rc::prep(r, &c.owner)?;
    let mut fails: Vec<Fail> = vec![];
    let enc1 = match EncDict::parse(&art.first_dict) {
        Ok(e) => e,
        Err(e) => return Ok(vec![Fail { item: "K:first protection".into(), detail: format!("the reference cannot read the first encryption dictionary: {}", e), finding: None }]),
    };
    let key1 = match rc::derive(&enc1, &id0, &up, Role::User) {
        Ok(key) => key,
        Err(e) => return Ok(vec![Fail { item: "K:first protection".into(), detail: format!("the reference cannot open the first protection: {}", e), finding: None }]),
    };
    let method = |e: &EncDict, name: &Option<Vec<u8>>| match e.resolve(name.as_deref(), &q) {
        Ok(m) => format!("{:?}", m),
        Err(x) => format!("unresolvable ({})", x),
    };
    let eq = |fails: &mut Vec<Fail>, what: &str, name: &str, got: String, want: String| {
        if got == want {
            if let Some(k) = k {
                inc(&k.fields_equal, 1);
            }
        } else {
            fails.push(Fail { item: format!("K:field {} ({})", name, what), detail: format!("the first protection has {} , {} has {}", want, what, got), finding: None });
        }
    };
    let (enc_id, cdict) = match enc_dict_of(&art.container) {
        Ok(x) => x,
        Err(e) => return Ok(vec![Fail { item: "K:re-encrypted document".into(), detail: e, finding: None }]),
    };
    let mut enc3: Option<EncDict> = None;
    for (what, dict) in [("kept state re-encoded", &art.kept_dict), ("re-encrypted document", &cdict)] {
        let e = match EncDict::parse(dict) {
            Ok(e) => e,
            Err(x) => {
                fails.push(Fail { item: format!("K:dictionary ({})", what), detail: x, finding: None });
                continue;
            }
        };
        eq(&mut fails, what, "V", e.v.to_string(), enc1.v.to_string());
        eq(&mut fails, what, "R", e.r.to_string(), enc1.r.to_string());
        eq(&mut fails, what, "key length in bytes", e.n().to_string(), enc1.n().to_string());
        eq(&mut fails, what, "P", e.p.to_string(), enc1.p.to_string());
        eq(&mut fails, what, "O", hex(&e.o), hex(&enc1.o));
        eq(&mut fails, what, "U", hex(&e.u), hex(&enc1.u));
        eq(&mut fails, what, "OE", hex(&e.oe), hex(&enc1.oe));
        eq(&mut fails, what, "UE", hex(&e.ue), hex(&enc1.ue));
        eq(&mut fails, what, "Perms", hex(&e.perms), hex(&enc1.perms));
        if enc1.v >= 4 {
            eq(&mut fails, what, "EncryptMetadata", e.encrypt_metadata.to_string(), enc1.encrypt_metadata.to_string());
            eq(&mut fails, what, "method of StmF", method(&e, &e.stmf), method(&enc1, &enc1.stmf));
            eq(&mut fails, what, "method of StrF", method(&e, &e.strf), method(&enc1, &enc1.strf));
            // every crypt filter the first protection defines - a stream's own Crypt filter may name any of them
            let cf_map = |x: &EncDict| x.cf.iter().map(|(n, m)| format!("/{} -> /{}", String::from_utf8_lossy(n), String::from_utf8_lossy(m))).collect::<Vec<_>>().join(", ");
            eq(&mut fails, what, "crypt filters defined in CF", format!("[{}]", cf_map(&e)), format!("[{}]", cf_map(&enc1)));
        }
        if what == "re-encrypted document" {
            enc3 = Some(e);
        }
    }
    eq(&mut fails, "kept state", "file key", hex(&art.kept_key), hex(&key1));
    if c.id_shape.usable() {
        eq(&mut fails, "re-encrypted document", "ID[0]", hex(&rc::id0_of(&art.container.trailer)), hex(&id0));
    }
    let Some(enc3) = enc3 else { return Ok(fails) };
    // --- the reference opens the re-encrypted document with both passwords
    let mut content_checked = false;
    for role in [Role::User, Role::Owner] {
        let rname = if role == Role::User { "user" } else { "owner" };
        let absent_owner = role == Role::Owner && r <= 4 && op.is_empty() && !up.is_empty();
        let pw: &[u8] = if role == Role::User || absent_owner { &up } else { &op };
        let key = match rc::derive(&enc3, &id0, pw, role) {
            Ok(key) => key,
            Err(e) => {
                fails.push(Fail { item: format!("K:authenticate as {} (re-encrypted document)", rname), detail: e, finding: None });
                continue;
            }
        };
        eq(&mut fails, "re-encrypted document", &format!("file key derived as {}", rname), hex(&key), hex(&key1));
        if r >= 5 {
            match rc::alg13(&enc3, &key) {
                Ok(()) => {
                    if let Some(k) = k {
                        inc(&k.fields_validated, 1);
                    }
                }
                Err(e) => fails.push(Fail { item: "K:field Perms (Algorithm 13, re-encrypted document)".into(), detail: e, finding: None }),
            }
        }
        if !content_checked {
            content_checked = true;
            if let Some(problem) = ref_content(k, &plain, &art.container, &enc3, enc_id, &key, q) {
                fails.push(Fail { item: format!("K:content opened as {} (re-encrypted document)", rname), detail: problem, finding: None });
            }
        }
    }
    Ok(fails)
}

fn run_k(c: &Case, k: Option<&Counters>) -> Result<Vec<Fail>, String> {
    match k_produce(c)? {
        Ok(a) => k_judge(c, &a, k),
        Err(f) => Ok(f),
    }
}

// ---------------------------------------------------------------------------------------------
// enumeration

fn run_case(c: &Case, k: Option<&Counters>) -> Result<Vec<Fail>, String> {
    match c.dir {
        'A' => run_a(c, k),
        'K' => run_k(c, k),
        _ => run_b(c, k),
    }
}

fn signature(f: &[Fail]) -> Vec<(String, String)> {
    let mut v: Vec<(String, String)> = f.iter().map(|x| (x.item.clone(), x.finding.unwrap_or("-").to_string())).collect();
    v.sort();
    v
}

fn pairs() -> Vec<(String, String, String)> {
    let mut v: Vec<(String, String, String)> = menu::password_pairs().into_iter().map(|(n, u, o)| (n.to_string(), u, o)).collect();
    let u32_: String = (0..32).map(|i| (b'a' + (i % 26) as u8) as char).collect();
    let o32: String = (0..32).map(|i| (b'Z' - (i % 26) as u8) as char).collect();
    v.push(("len32".into(), u32_, o32));
    // SASLprep changes these: ligature -> "fi", soft hyphen removed, NBSP -> space, Roman numeral -> "IX"
    v.push(("saslprep".into(), "\u{fb01}x\u{ad}pw\u{a0}1".into(), "\u{2168} owner".into()));
    // longer than 127 bytes with a multi-byte character across offset 127 (R >= 5 only)
    for (n, u, o) in menu::straddling_pairs() {
        v.push((n.to_string(), u, o));
    }
    v
}

/// One quadruple of salts [user validation, user key, owner validation, owner key] for which all four
/// hardened hashes (Algorithm 2.B) of a password pair end in the same way.
struct SaltSet {
    pair: String,
    class: &'static str,
    salts: [[u8; 8]; 4],
    traces: [rc::HashTrace; 4],
    searched: u64,
}

const SALT_CLASSES: [&str; 3] = ["boundary", "inside64", "over64"];
const SALT_SEARCH_CAP: u64 = 4000;

fn in_class(class: &str, t: &rc::HashTrace) -> bool {
    match class {
        "boundary" => t.on_boundary(),
        "inside64" => t.well_inside_64(),
        _ => t.over_64(),
    }
}

/// Search the counting salts 1, 2, 3, ... (8 bytes, big-endian) for the first two salts of the class, for
/// the user hashes, and then - U being fixed by them - for the owner hashes. No RNG.
fn boundary_salts(pair: &str, user: &str, owner: &str) -> Vec<SaltSet> {
    let (Ok(up), Ok(op)) = (rc::prep(6, user), rc::prep(6, owner)) else { return vec![] };
    let mut out = vec![];
    for class in SALT_CLASSES {
        let find = |pw: &[u8], udata: &[u8]| -> Option<(Vec<([u8; 8], rc::HashTrace)>, u64)> {
            let mut found = vec![];
            for n in 1..=SALT_SEARCH_CAP {
                let salt = n.to_be_bytes();
                let (_, t) = rc::hash_r56_trace(6, pw, &salt, udata);
                if in_class(class, &t) {
                    found.push((salt, t));
                    if found.len() == 2 {
                        return Some((found, n));
                    }
                }
            }
            None
        };
        let Some((u, nu)) = find(&up, &[]) else { continue };
        let mut uval = rc::hash_r56(6, &up, &u[0].0, &[]);
        uval.extend_from_slice(&u[0].0);
        uval.extend_from_slice(&u[1].0);
        let Some((o, no)) = find(&op, &uval) else { continue };
        out.push(SaltSet {
            pair: pair.to_string(),
            class,
            salts: [u[0].0, u[1].0, o[0].0, o[1].0],
            traces: [u[0].1, u[1].1, o[0].1, o[1].1],
            searched: nu + no,
        });
    }
    out
}

fn configs_a() -> Vec<Config> {
    let mut v = menu::configs();
    for (ver, other) in [(Ver::V4, F::Aes128), (Ver::V5, F::Aes256)] {
        for (stm, strf) in [(F::Identity, other), (other, F::Identity), (F::Identity, F::Identity)] {
            v.push(Config { ver, stm, strf, identity_in_cf: false, custom_identity: true, em: true, extra_cf: false });
        }
    }
    v
}

fn configs_b() -> Vec<Config> {
    configs_a().into_iter().filter(|c| !c.identity_in_cf).collect()
}

fn main_kinds() -> Vec<DocKind> {
    let mut v = DocKind::ALL.to_vec();
    v.push(DocKind::CryptArray);
    v.push(DocKind::CryptBare);
    v
}

fn pair_ok(r: i64, pname: &str, user: &str, owner: &str) -> bool {
    !(r <= 4 && (!rc::pdfdoc_encodable(user) || !rc::pdfdoc_encodable(owner) || pname == "saslprep" || pname.starts_with("cut127")))
}

fn base_case(dir: char, cfg: &Config, kind: DocKind, pair: &(String, String, String), perms: u64) -> Case {
    Case {
        dir,
        cfg: cfg.clone(),
        kind,
        pair: pair.0.clone(),
        user: pair.1.clone(),
        owner: pair.2.clone(),
        perms,
        id_len: 16,
        via_file: false,
        table: true,
        pattern: 0,
        // Table 20: Length belongs to V 2 and 3 (V 4 writers add it by habit; V 5 baseline has none)
        write_length: !matches!(cfg.ver, Ver::R5 | Ver::V5),
        omit_identity: false,
        salts: None,
        salt_class: None,
        id_shape: IdShape::Hex,
        kept_source: 'B',
        kept_role: String::new(),
    }
}

/// One configuration per key-derivation variant (the shapes of /ID and the nesting depth do not interact
/// with the choice of filters beyond that).
fn representative(c: &Config) -> bool {
    match c.ver {
        Ver::V1 => true,
        Ver::V2(b) => b == 40 || b == 128,
        Ver::V4 => c.stm == c.strf && c.stm != F::Identity && !c.custom_identity,
        Ver::R5 => true,
        Ver::V5 => c.stm == F::Aes256 && c.strf == F::Aes256 && !c.custom_identity,
    }
}

/// Deep-nesting family: the two ladder documents (a string at every nesting depth 1..=120 resp. 1..=1100 in arrays,
/// dictionaries, both alternating and a stream dictionary) in both directions, in memory, and the shallower one
/// also through lopdf's writer and loader.
fn deep_cases(run: &Run) -> Vec<Case> {
    let mut out = vec![];
    let pairs = pairs();
    let all = menu::all_flags();
    for dir in ['A', 'B'] {
        let cfgs = if dir == 'A' { configs_a() } else { configs_b() };
        for (ci, cfg) in cfgs.iter().enumerate() {
            let r = cfg.revision();
            if !run.thorough && !representative(cfg) && !(cfg.has_filters() && cfg.strf != cfg.stm && !cfg.custom_identity && cfg.em) {
                continue;
            }
            for (ki, kind) in [DocKind::DeepLoadable, DocKind::DeepMemory].into_iter().enumerate() {
                for pair in pairs.iter().filter(|p| p.0 == "distinct" || (run.thorough && r != 6 && (p.0 == "both_empty" || p.0 == "latin1"))) {
                    let base = base_case(dir, cfg, kind, pair, all);
                    let base = Case { pattern: (ci + ki) % 3, ..base };
                    out.push(base.clone());
                    if kind == DocKind::DeepLoadable {
                        out.push(Case { via_file: true, table: (ci + ki) % 2 == 0, ..base });
                    }
                }
            }
        }
    }
    out
}

/// File-identifier family: the page document with the other shapes of the trailer's /ID entry. Revisions 5 and 6
/// never use the identifier: every shape must work. Revisions <= 4 hash its first element (Algorithm 2): only the
/// shapes that have a first string are in the domain (ISO 32000-1 requires /ID in an encrypted document).
fn id_cases(run: &Run) -> Vec<Case> {
    let mut out = vec![];
    let pairs = pairs();
    let all = menu::all_flags();
    for dir in ['A', 'B'] {
        let cfgs = if dir == 'A' { configs_a() } else { configs_b() };
        for (ci, cfg) in cfgs.iter().filter(|c| representative(c)).enumerate() {
            let r = cfg.revision();
            for (si, shape) in IdShape::ALL.into_iter().enumerate() {
                if shape == IdShape::Hex || (r <= 4 && !shape.usable()) {
                    continue;
                }
                for (pi, pair) in pairs.iter().enumerate() {
                    if !pair_ok(r, &pair.0, &pair.1, &pair.2) {
                        continue;
                    }
                    // quick, revision 6: two password pairs
                    if r == 6 && !run.thorough && pair.0 != "distinct" && pair.0 != "empty_user" {
                        continue;
                    }
                    let base = Case { id_shape: shape, pattern: (ci + si + pi) % 3, ..base_case(dir, cfg, DocKind::Page, pair, all) };
                    out.push(base.clone());
                    if dir == 'B' || (!pair.1.is_empty() && !pair.2.is_empty()) {
                        out.push(Case { via_file: true, table: (ci + si + pi) % 2 == 0, ..base });
                    }
                }
            }
        }
    }
    out
}

/// Direction K: (first protection by the reference or by lopdf) x configuration x {page document; the streams
/// document (metadata stream) when EncryptMetadata is false} x password pairs x permission words x
/// (opened by lopdf as user / as owner / by the loader's empty password) x {in memory, through writer+loader}.
fn kept_cases(run: &Run) -> Vec<Case> {
    let mut out = vec![];
    let thorough = run.thorough;
    let pairs = pairs();
    let all = menu::all_flags();
    for source in ['B', 'A'] {
        let mut cfgs = if source == 'A' { configs_a() } else { configs_b() };
        // configurations whose CF holds more filters than StmF / StrF name: the kept state must keep (and re-encode) them all
        cfgs.extend(menu::configs_extra_cf());
        for (ci, cfg) in cfgs.iter().enumerate() {
            let r = cfg.revision();
            let r6 = r == 6;
            let mut kinds = vec![DocKind::Page];
            if cfg.has_filters() && !cfg.em {
                kinds.push(DocKind::Streams);
            }
            if cfg.extra_cf {
                kinds = vec![DocKind::CryptNamed];
            } else if representative(cfg) {
                kinds.push(DocKind::KeyNames);
            }
            for (ki, kind) in kinds.into_iter().enumerate() {
                for (pi, pair) in pairs.iter().enumerate() {
                    let (pname, user, owner) = (&pair.0, &pair.1, &pair.2);
                    if !pair_ok(r, pname, user, owner) {
                        continue;
                    }
                    // the two newer documents: three password pairs (thorough: all), revision 6 quick: EncryptMetadata true
                    if matches!(kind, DocKind::CryptNamed | DocKind::KeyNames) && !thorough && (!quick3(pname) || (r6 && !cfg.em)) {
                        continue;
                    }
                    if r6 && !thorough && pname != "distinct" && pname != "empty_user" {
                        continue;
                    }
                    // permission words: the menu (thorough, R <= 5: all 256 conforming words) with the pair of two
                    // distinct passwords on the page document, `all` elsewhere
                    let perm_list: Vec<u64> = if pname == "distinct" && kind == DocKind::Page {
                        if thorough && !r6 {
                            let mut v = menu::perm_menu();
                            for w in menu::perm_all256() {
                                if !v.contains(&w) {
                                    v.push(w);
                                }
                            }
                            v
                        } else if r6 && !thorough {
                            vec![all, 0]
                        } else {
                            menu::perm_menu()
                        }
                    } else {
                        vec![all]
                    };
                    // spellings of the reference-side dictionary the kept state has to survive
                    let mut spellings: Vec<(bool, bool)> = vec![(!matches!(cfg.ver, Ver::R5 | Ver::V5), false)];
                    if source == 'B' && pname == "distinct" && (kind == DocKind::Page || kind == DocKind::CryptNamed) {
                        if matches!(cfg.ver, Ver::V4 | Ver::V2(40)) {
                            spellings.push((false, false));
                        }
                        if matches!(cfg.ver, Ver::R5 | Ver::V5) {
                            spellings.push((true, false));
                        }
                        if identity_named_not_in_cf(cfg) {
                            spellings.push((!matches!(cfg.ver, Ver::R5 | Ver::V5), true));
                        }
                    }
                    for (mi, perms) in perm_list.iter().enumerate() {
                        for (si, (write_length, omit_identity)) in spellings.iter().enumerate() {
                            if si > 0 && mi > 0 {
                                continue;
                            }
                            let base = Case {
                                dir: 'K',
                                kept_source: source,
                                pattern: (ci + ki + pi + mi) % 3,
                                write_length: *write_length,
                                omit_identity: *omit_identity,
                                ..base_case('K', cfg, kind, pair, *perms)
                            };
                            let owner_is_a_password = !(r <= 4 && owner.is_empty()) && owner != user;
                            let mut roles = vec!["user"];
                            if owner_is_a_password {
                                roles.push("owner");
                            }
                            for role in roles {
                                out.push(Case { kept_role: role.to_string(), ..base.clone() });
                                // through the writer and the loader: both passwords non-empty (the loader does not decrypt)
                                if *perms == all && si == 0 && !user.is_empty() && !owner.is_empty() && (thorough || !r6 || pname == "distinct") {
                                    out.push(Case { kept_role: role.to_string(), via_file: true, table: (ci + ki + pi) % 2 == 0, ..base.clone() });
                                }
                            }
                            // the state kept by the loader's own decrypt with the empty password
                            if *perms == all && si == 0 && (user.is_empty() || (r >= 5 && owner.is_empty())) {
                                out.push(Case { kept_role: "loader".to_string(), via_file: true, table: (ci + ki + pi) % 2 == 0, ..base.clone() });
                            }
                        }
                    }
                }
            }
        }
    }
    out
}

fn quick3(pname: &str) -> bool {
    matches!(pname, "distinct" | "empty_user" | "both_empty")
}

/// Extra-crypt-filter family: configurations whose CF dictionary holds MORE crypt filters than StmF / StrF name x
/// documents whose streams carry Crypt overrides (naming every CF entry, /Identity, nothing; dictionary and array form of
/// /DecodeParms), both directions, in memory and through lopdf's writer and loader; direction B also with StmF / StrF
/// left out (default /Identity) where the configuration names /Identity.
fn extra_cf_cases(run: &Run) -> Vec<Case> {
    let mut out = vec![];
    let pairs = pairs();
    let all = menu::all_flags();
    for dir in ['A', 'B'] {
        for (ci, cfg) in menu::configs_extra_cf().iter().enumerate() {
            let r = cfg.revision();
            for (ki, kind) in [DocKind::CryptNamed, DocKind::Crypt, DocKind::CryptArray, DocKind::Page].into_iter().enumerate() {
                for (pi, pair) in pairs.iter().enumerate() {
                    if !pair_ok(r, &pair.0, &pair.1, &pair.2) {
                        continue;
                    }
                    let in_quick = if r == 6 { cfg.em && ki < 2 && pair.0 == "distinct" } else { quick3(&pair.0) };
                    if !(in_quick || (run.thorough && (r != 6 || quick3(&pair.0)))) {
                        continue;
                    }
                    let mut spellings = vec![false];
                    if dir == 'B' && (cfg.stm == F::Identity || cfg.strf == F::Identity) {
                        spellings.push(true);
                    }
                    for omit_identity in spellings {
                        let base = Case { pattern: (ci + ki + pi) % 3, omit_identity, ..base_case(dir, cfg, kind, pair, all) };
                        out.push(base.clone());
                        if dir == 'B' || (!pair.1.is_empty() && !pair.2.is_empty()) {
                            out.push(Case { via_file: true, table: (ci + ki + pi) % 2 == 0, ..base });
                        }
                    }
                }
            }
        }
    }
    out
}

/// Key-name family: strings in literal and hexadecimal format under key names that look special, in ordinary
/// dictionaries at every placement (all must be processed), and real signature dictionaries (the hexadecimal Contents
/// is exempt, ISO 32000-2 7.6.2; everything else in them is processed) x one configuration per key-derivation variant
/// and the V4 configurations with different methods for strings and streams x password pairs, both directions.
fn key_cases(run: &Run) -> Vec<Case> {
    let mut out = vec![];
    let pairs = pairs();
    let all = menu::all_flags();
    for dir in ['A', 'B'] {
        let cfgs = if dir == 'A' { configs_a() } else { configs_b() };
        for (ci, cfg) in cfgs.iter().filter(|c| representative(c) || (c.has_filters() && c.strf != c.stm && !c.custom_identity && !c.identity_in_cf && c.em)).enumerate() {
            let r = cfg.revision();
            for (ki, kind) in [DocKind::KeyNames, DocKind::SigDict].into_iter().enumerate() {
                for (pi, pair) in pairs.iter().enumerate() {
                    if !pair_ok(r, &pair.0, &pair.1, &pair.2) {
                        continue;
                    }
                    let in_quick = if r == 6 { cfg.em && pair.0 == "distinct" } else { quick3(&pair.0) || pair.0 == "latin1" };
                    if !(in_quick || (run.thorough && (r != 6 || quick3(&pair.0)))) {
                        continue;
                    }
                    let base = Case { pattern: (ci + ki + pi) % 3, ..base_case(dir, cfg, kind, pair, all) };
                    out.push(base.clone());
                    if dir == 'B' || (!pair.1.is_empty() && !pair.2.is_empty()) {
                        out.push(Case { via_file: true, table: (ci + ki + pi) % 2 == 1, ..base });
                    }
                }
            }
        }
    }
    out
}

/// Long-password family (revisions 5 and 6): passwords of around and beyond 127 UTF-8 bytes made of 2-, 3- and 4-byte
/// characters, both directions (next to the three pairs with a character across byte 127 of the main product).
fn long_password_cases(run: &Run) -> Vec<Case> {
    let mut out = vec![];
    let all = menu::all_flags();
    let r6_quick = ["long_cyrillic", "long_cjk", "mixed_scripts", "prep_shrinks_below_127", "short_user_long_owner"];
    for dir in ['A', 'B'] {
        for (ci, cfg) in configs_b().iter().filter(|c| c.revision() >= 5 && c.em && c.stm == F::Aes256 && c.strf == F::Aes256 && !c.custom_identity).enumerate() {
            for (pi, (n, u, o)) in menu::long_nonlatin_pairs().into_iter().enumerate() {
                if cfg.revision() == 6 && !run.thorough && !r6_quick.contains(&n) {
                    continue;
                }
                let pair = (n.to_string(), u, o);
                let base = Case { pattern: (ci + pi) % 3, ..base_case(dir, cfg, DocKind::Page, &pair, all) };
                out.push(base.clone());
                if dir == 'B' || (!pair.1.is_empty() && !pair.2.is_empty()) {
                    out.push(Case { via_file: true, table: (ci + pi) % 2 == 0, ..base });
                }
            }
        }
    }
    out
}

/// PDFDocEncoding family (revisions 2-4, Algorithm 2 step a): for EVERY defined cell of PDFDocEncoding (232: TAB, LF, CR,
/// 0x18-0x1F, 0x20-0x7E, 0x80-0x9E, 0xA0, 0xA1-0xFF without 0xAD) a user and an owner password containing that character
/// alone, at the start, in the middle and at the end of an ASCII word, both directions: the reference converts the
/// passwords with its own table (`pdfdoc_code`, cross-checked against the by-code table in the self-test), so a
/// dropped or differently encoded character shows as a different O, U or file key (A) or as a rejected password (B).
/// Plus ten pairs of several such characters: passwords made of nothing else, only one password affected, control
/// characters, such a character on either side of the 32-byte cut.
fn pdfdoc_password_cases(run: &Run) -> Vec<Case> {
    let mut out = vec![];
    let all = menu::all_flags();
    let cells = rc::pdfdoc_cells();
    for dir in ['A', 'B'] {
        // quick: one configuration per revision (R2: V1; R3: V2 with 128 bits; R4: V4 with AESV2)
        let quick_cfg = |c: &Config| c.em && !matches!(c.ver, Ver::V2(40)) && !(c.ver == Ver::V4 && c.strf == F::Rc4);
        let cfgs: Vec<Config> = configs_b().into_iter().filter(|c| c.revision() <= 4 && representative(c) && (run.thorough || quick_cfg(c))).collect();
        for (ci, cfg) in cfgs.iter().enumerate() {
            for (code, ch) in &cells {
                for position in 0..4usize {
                    let pair = menu::pdfdoc_cell_pair(*code, *ch, position);
                    assert!(rc::prep(cfg.revision(), &pair.1).is_ok() && rc::prep(cfg.revision(), &pair.2).is_ok() && pair.1 != pair.2);
                    let base = Case { pattern: (ci + *code as usize + position) % 3, ..base_case(dir, cfg, DocKind::Page, &pair, all) };
                    out.push(base.clone());
                    if run.thorough && position == (ci + *code as usize) % 4 {
                        out.push(Case { via_file: true, table: (*code as usize + position) % 2 == 0, ..base });
                    }
                }
            }
        }
        let multi_cfgs: Vec<Config> = configs_b().into_iter().filter(|c| representative(c) && (c.em || run.thorough) && (c.revision() <= 5 || run.thorough)).collect();
        for (ci, cfg) in multi_cfgs.iter().enumerate() {
            let r = cfg.revision();
            for (pi, (n, u, o)) in menu::pdfdoc_special_pairs().into_iter().enumerate() {
                // (revisions 5 and 6: SASLprep refuses control characters)
                if rc::prep(r, &u).is_err() || rc::prep(r, &o).is_err() {
                    continue;
                }
                let pair = (n.to_string(), u, o);
                let base = Case { pattern: (ci + pi) % 3, ..base_case(dir, cfg, DocKind::Page, &pair, all) };
                out.push(base.clone());
                out.push(Case { via_file: true, table: (ci + pi) % 2 == 0, ..base });
            }
        }
    }
    out
}

/// String size / format / content family: the document with strings of 2^e - 1, 2^e, 2^e + 1 bytes (e = 7..12) x {literal,
/// hexadecimal} x {printable, mixed, all-binary, escape-heavy}, each in an ordinary dictionary / array AND as the
/// Contents of a signature dictionary, and the document with the same axes at 2^16 +- 1; both directions, in memory
/// and through lopdf's writer and loader in BOTH cross-reference formats. The reference leaves exactly the
/// hexadecimal Contents of signature dictionaries alone and processes every other string.
fn sized_cases(run: &Run) -> Vec<Case> {
    let mut out = vec![];
    let all = menu::all_flags();
    let pairs = pairs();
    for dir in ['A', 'B'] {
        let cfgs = if dir == 'A' { configs_a() } else { configs_b() };
        for (ci, cfg) in cfgs.iter().filter(|c| representative(c)).enumerate() {
            let r = cfg.revision();
            let cipher_cfg = cfg.em && (matches!(cfg.ver, Ver::V2(128) | Ver::R5 | Ver::V5) || (cfg.ver == Ver::V4 && cfg.strf == F::Aes128));
            for (pi, pair) in pairs.iter().enumerate() {
                if !pair_ok(r, &pair.0, &pair.1, &pair.2) {
                    continue;
                }
                // the empty user password: the loader itself decrypts what the reference encrypted (direction B)
                let in_quick = cipher_cfg && (pair.0 == "distinct" || (pair.0 == "empty_user" && dir == 'B' && r != 6));
                if !(in_quick || (run.thorough && (quick3(&pair.0) || (pair.0 == "latin1" && r != 6)))) {
                    continue;
                }
                let base = Case { pattern: (ci + pi) % 3, ..base_case(dir, cfg, DocKind::BigStrings, pair, all) };
                out.push(base.clone());
                if dir == 'B' || (!pair.1.is_empty() && !pair.2.is_empty()) {
                    out.push(Case { via_file: true, table: true, ..base.clone() });
                    out.push(Case { via_file: true, table: false, ..base.clone() });
                }
                let huge_quick = cipher_cfg && !matches!(cfg.ver, Ver::R5 | Ver::V5) && pair.0 == "distinct";
                if huge_quick || (run.thorough && cipher_cfg && (pair.0 == "distinct" || (pair.0 == "empty_user" && dir == 'B'))) {
                    let huge = Case { kind: DocKind::HugeStrings, ..base };
                    if run.thorough {
                        out.push(huge.clone());
                    }
                    if dir == 'B' || (!pair.1.is_empty() && !pair.2.is_empty()) {
                        out.push(Case { via_file: true, table: (ci + pi) % 2 == 0, ..huge });
                    }
                }
            }
        }
    }
    out
}

fn cases(run: &Run) -> Vec<Case> {
    let mut out = vec![];
    let thorough = run.thorough;
    let all = menu::all_flags();
    let pairs = pairs();
    for dir in ['A', 'B'] {
        let cfgs = if dir == 'A' { configs_a() } else { configs_b() };
        for (ci, cfg) in cfgs.iter().enumerate() {
            let r = cfg.revision();
            let r6 = r == 6;
            for (ki, kind) in main_kinds().iter().enumerate() {
                if kind.needs_filters() && !cfg.has_filters() {
                    continue;
                }
                // compound deviations are kept apart (narrow classification): the stream-dictionary
                // document is combined with conforming filter spellings only
                if *kind == DocKind::StreamDict && (identity_named_not_in_cf(cfg) || uses_custom_identity(cfg)) {
                    continue;
                }
                for (pi, (pname, user, owner)) in pairs.iter().enumerate() {
                    if r <= 4 && (!rc::pdfdoc_encodable(user) || !rc::pdfdoc_encodable(owner)) {
                        continue;
                    }
                    if r <= 4 && (pname == "saslprep" || pname.starts_with("cut127")) {
                        continue;
                    }
                    // revision 6 costs ~40 ms per case (Algorithm 2.B): the quick bound takes every sixth
                    // (document, password pair) per configuration; revision 5 shares everything but the hash and keeps the full menu
                    if r6 && !thorough && (ci + ki + pi) % 6 != 0 && !(pname == "distinct" && *kind == DocKind::Page) {
                        continue;
                    }
                    let perm_list: Vec<u64> = if thorough {
                        // thorough bound: all 256 conforming words on one document (menu first, so that the
                        // first ten indices are the menu), the menu on the others; revision 6: the menu
                        if r6 && *kind != DocKind::Page {
                            vec![all]
                        } else if r6 || *kind != DocKind::Page {
                            menu::perm_menu()
                        } else {
                            let mut v = menu::perm_menu();
                            for w in menu::perm_all256() {
                                if !v.contains(&w) {
                                    v.push(w);
                                }
                            }
                            v
                        }
                    } else if r6 {
                        if pname == "distinct" && *kind == DocKind::Page {
                            menu::perm_menu()
                        } else {
                            vec![all]
                        }
                    } else if *kind == DocKind::Page {
                        menu::perm_menu()
                    } else {
                        // quick bound: the permission menu is crossed with one document only (P enters
                        // Algorithm 2 / 10 as four bytes and does not interact with the document)
                        vec![all]
                    };
                    let ids: Vec<usize> = if r <= 4 { vec![16, 0, 32] } else { vec![16] };
                    // variants of the reference-side spelling (B only)
                    let mut spellings: Vec<(bool, bool)> = vec![(true, false)];
                    if dir == 'B' {
                        let conforming = !identity_named_not_in_cf(cfg) && !uses_custom_identity(cfg) && *kind != DocKind::StreamDict;
                        if (matches!(cfg.ver, Ver::V4) && conforming) || matches!(cfg.ver, Ver::V2(40)) {
                            spellings.push((false, false));
                        }
                        if matches!(cfg.ver, Ver::R5 | Ver::V5) {
                            // baseline: no /Length (Table 20: only for V 2 and 3); variant: /Length 256 as most writers add
                            spellings = vec![(false, false)];
                            if conforming {
                                spellings.push((true, false));
                            }
                        }
                        if identity_named_not_in_cf(cfg) {
                            spellings.push((!matches!(cfg.ver, Ver::R5 | Ver::V5), true));
                        }
                        if r6 && !thorough && *kind != DocKind::Page {
                            spellings.truncate(1);
                        }
                    }
                    for (mi, perms) in perm_list.iter().enumerate() {
                        for (ii, id_len) in ids.iter().enumerate() {
                            // quick bound: identifier lengths 0 and 32 with the first permission word only
                            if !thorough && ii > 0 && mi > 0 {
                                continue;
                            }
                            // thorough bound: identifier lengths 0 and 32 with the permission menu only
                            if thorough && ii > 0 && mi >= 10 {
                                continue;
                            }
                            for (si, (write_length, omit_identity)) in spellings.iter().enumerate() {
                                // quick bound: the alternative spellings with the first permission word and identifier only
                                if !thorough && si > 0 && (mi > 0 || ii > 0) {
                                    continue;
                                }
                                let patterns: Vec<usize> = if dir == 'A' {
                                    vec![0]
                                } else if thorough && mi == 0 && ii == 0 {
                                    vec![0, 1, 2]
                                } else {
                                    vec![(ci + ki + pi + mi + ii + si) % 3]
                                };
                                for pattern in patterns {
                                    let base = Case {
                                        dir,
                                        cfg: cfg.clone(),
                                        kind: *kind,
                                        pair: pname.clone(),
                                        user: user.clone(),
                                        owner: owner.clone(),
                                        perms: *perms,
                                        id_len: *id_len,
                                        via_file: false,
                                        table: true,
                                        pattern,
                                        write_length: *write_length,
                                        omit_identity: *omit_identity,
                                        salts: None,
                                        salt_class: None,
                                        id_shape: IdShape::Hex,
                                        kept_source: 'B',
                                        kept_role: String::new(),
                                    };
                                    out.push(base.clone());
                                    // through lopdf's writer and loader: permissions = all only (thorough: the menu)
                                    let file_too = if thorough { mi < 10 && !(r6 && mi > 0) } else { *perms == all };
                                    let r6_quick_file = pname == "distinct" || pname == "empty_user";
                                    if file_too && !(r6 && !thorough && (mi > 0 || !r6_quick_file)) {
                                        // direction A needs a loader that does not decrypt: both passwords non-empty
                                        if dir == 'B' || (!user.is_empty() && !owner.is_empty()) {
                                            out.push(Case { via_file: true, table: (ci + ki + pi + ii) % 2 == 0, ..base });
                                        }
                                    }
                                }
                            }
                        }
                    }
                }
            }
        }
    }
    out
}

/// Direction B, revision 6, salts that steer Algorithm 2.B to its termination boundary.
fn boundary_cases(sets: &[SaltSet]) -> Vec<Case> {
    let mut out = vec![];
    let pairs = pairs();
    for cfg in configs_b().iter().filter(|c| c.revision() == 6) {
        for set in sets {
            let Some((_, user, owner)) = pairs.iter().find(|p| p.0 == set.pair) else { continue };
            let base = Case {
                dir: 'B',
                cfg: cfg.clone(),
                kind: DocKind::Page,
                pair: set.pair.clone(),
                user: user.clone(),
                owner: owner.clone(),
                perms: menu::all_flags(),
                id_len: 16,
                via_file: false,
                table: true,
                pattern: 0,
                write_length: false,
                omit_identity: false,
                salts: Some(set.salts),
                salt_class: Some(set.class.to_string()),
                id_shape: IdShape::Hex,
                kept_source: 'B',
                kept_role: String::new(),
            };
            out.push(base.clone());
            // the loader's own authenticate("") / decrypt("") runs the same hashes
            if set.class == "boundary" && cfg.stm == F::Aes256 && cfg.strf == F::Aes256 {
                out.push(Case { via_file: true, ..base });
            }
        }
    }
    out
}

fn main() {
    let run = Run::from_args("C06", "exploration");
    util::quiet_panics();
    util::init_pool();
    util::pin_schedule();
    match rc::selftest() {
        Ok(n) => run.set("reference_selftest_checks", json!(n)),
        Err(e) => {
            eprintln!("MACHINERY: reference handler self-test failed: {}", e);
            std::process::exit(3);
        }
    }
    if let Mode::Replay(path) = run.mode.clone() {
        replay(&run, &path);
    }
    run.rule(
        "cases = direction {A: lopdf encrypts, reference opens; B: reference encrypts, lopdf opens} x handler configuration (V1; V2 x 12 key \
         lengths; V4 x {RC4,AESV2,Identity}^2 x EncryptMetadata; R5; V5 x {AESV3,Identity}^2; Identity spelled as /Identity, as a CF entry, as a \
         custom filter, B also as omitted StmF/StrF and CFM /None, V4 with and without /Length) x 6 documents x 11 password pairs x permission words x \
         file identifier length {16,0,32} x (B) salt/IV/padding pattern {00,FF,counting} x {in memory, through lopdf's writer+loader}; enumerated in \
         a fixed order, distinct by construction; a case is non-trivial when a password is non-empty or the configuration is not V1; \
         plus (B, revision 6) salt quadruples found by a deterministic search that make all four Algorithm 2.B hashes end on the boundary / at round 64 / after more than 64 rounds; \
         plus three families in both directions: deep nesting (two documents with a string at EVERY nesting depth 1..120 resp. 1..1100 in arrays, dictionaries, both alternating and a stream dictionary), \
         the shapes of the trailer's /ID entry (literal strings, empty first string, one element; for revisions 5/6 also absent, empty array, integer or name as first element, a string instead of an array), \
         Crypt filter parameters in the array form of /DecodeParms and Crypt filters without /DecodeParms; \
         plus the extra-crypt-filter family (both directions and K): configurations whose CF dictionary holds MORE crypt filters than StmF / StrF name (one extra per CFM of the version, names sorting before / between / after the default ones; V4 x {RC4,AESV2,Identity}^2, revision 5 and V5 x {AESV3,Identity}^2; B also with StmF / StrF absent) x documents whose streams carry Crypt overrides naming EVERY CF entry, /Identity and nothing, in the dictionary form, the one-element array form and the array form next to a second filter; the dictionary lopdf writes must define every registered filter, the kept state must re-encode them all; \
         plus the key-name family: strings of 16..33 bytes in literal AND hexadecimal format under 34 key names that look special (Contents, ID, O, U, OE, UE, Perms, Cert, Filter, Encrypt, CF, ...) in ordinary dictionaries - top-level, nested, in arrays, in stream dictionaries, in dictionaries typed /XRef, /ObjStm, /Encrypt and in dictionaries shaped like an encryption dictionary (nested and top-level) - all of which both sides must process; and real signature dictionaries (/Type /Sig or /DocTimeStamp + /ByteRange + hexadecimal /Contents), whose Contents the reference leaves alone (ISO 32000-2 7.6.2) while it processes every other string in them; in direction B the encryption dictionary takes the lowest free object number, i.e. sits in front of objects that must still be decrypted when the numbering has gaps; \
         plus the long-password family (revisions 5, 6, both directions): 11 pairs of passwords of 126..180 UTF-8 bytes (all-Cyrillic, all-CJK, all 4-byte, mixed scripts, cut exactly on a character boundary, only one password long, SASLprep shrinking below / expanding beyond 127 bytes) next to the three pairs with a character across byte 127; \
         plus the PDFDocEncoding password family (revisions 2-4, both directions): for every one of the 232 defined cells of PDFDocEncoding (TAB, LF, CR, 0x18-0x1F, 0x20-0x7E, 0x80-0x9E, 0xA0, 0xA1-0xFF without 0xAD) a user and an owner password containing that character alone, at the start, in the middle and at the end of an ASCII word (4 pairs per cell) x one configuration per revision, converted by the reference with its own table; and 10 pairs of several such characters (passwords of nothing else, one password affected, controls, a character on either side of the 32-byte cut; also revision 5 where SASLprep admits them), in memory and through writer+loader; \
         plus the string size / format / content family (both directions): strings of 2^e - 1, 2^e, 2^e + 1 bytes for e = 7..12 (second document: e = 16) x {literal, hexadecimal} x {printable, mixed, no printable byte, escape-heavy} in ordinary dictionaries / arrays AND as Contents of signature dictionaries (the reference leaves exactly the hexadecimal ones alone), in memory and through lopdf's writer and loader in both cross-reference formats; \
         plus direction K: {protected by the reference, protected by lopdf} x configuration x password pair x permission word x {opened by lopdf as user, as owner, by the loader's empty password} x {in memory, through writer+loader}: the state lopdf keeps is re-encoded and used to encrypt again, the reference compares every field with the first protection and opens the result with both passwords; \
         a failing direction-B case is executed three times; a failing direction-A case keeps the document lopdf wrote and the reference judges that artefact three times",
    );
    run.assume("the reference handler (harness/src/refcrypt.rs) is an independent reading of ISO 32000-1 7.6 / ISO 32000-2 7.6; its primitives are checked against FIPS/RFC known answers, RC4 against RFC 6229, and it round-trips on itself; no third-party encrypted PDF was available offline to anchor it further");
    run.assume("conforming permission words only (bits 7-8 and 13-32 set, bits 1-2 clear); passwords for R <= 4 are restricted to PDFDocEncoding characters (what the standard leaves undefined is C05's nonlatin-password-collapse)");
    run.assume("PDFDocEncoding is ISO 32000-1 Table D.2: 232 defined cells (TAB, LF, CR, 0x18-0x1F, 0x20-0x7E, 0x80-0x9E, 0xA0, 0xA1-0xFF without 0xAD); the reference's character-to-code function is cross-checked at start-up against a second table written by code, in both directions, over the whole Basic Multilingual Plane");
    run.assume("an empty owner password for R <= 4 means 'no owner password' (Algorithm 3 step a): the user password then opens the document in the owner role");
    run.assume("CFM /None and the predefined /Identity filter mean 'no encryption' (as in every reader known to the author); V4 uses a 128-bit file key whether or not /Length is written (ISO 32000 Table 20: Length applies to V 2 and 3)");
    run.assume("revisions <= 4 are combined only with an /ID whose first element is a string (Algorithm 2 hashes it; ISO 32000-1 requires /ID in an encrypted document); revisions 5 and 6 never use the identifier and are combined with every shape");
    run.assume("Document::encryption_state is documented as 'the parameters that were used to decrypt this document if the document has been decrypted'; direction K requires it to re-encode to the first protection's parameters. Whether the loader decrypts with the empty password is not prescribed: direction-K cases that presuppose the other behaviour are counted as not applicable");
    run.assume("lopdf's IVs, salts and paddings are random: ciphertext is never compared; O (R2-4), U (R2), U[0..16] (R3-4), P, V, R, Length, CFM, EncryptMetadata and the file key are compared for equality, R5/R6 U, O, UE, OE, Perms are validated");
    run.assume("ISO 32000-2 7.6.2: the hexadecimal string that is the Contents entry of a signature dictionary is not encrypted. The reference applies this to the narrow shape every reading agrees on (/Type /Sig or /DocTimeStamp, a /ByteRange array, a hexadecimal Contents); dictionaries that are signature dictionaries under some readings only (no /Type, no /ByteRange, literal format) are not in C06's menus (C05 has them, accepting both treatments). A key named Contents anywhere else is an ordinary key");
    run.assume("a stream whose Crypt filter names a crypt filter that CF does not define is outside the standard (a reader cannot decrypt it): such overrides are exercised by C05 only");
    run.assume("documents that combine two catalogued deviations (strings in stream dictionaries together with a non-conforming Identity spelling) are left out so that every failing item is explained by exactly one finding");
    let mut list = cases(&run);
    let (deep, idf, kept) = (deep_cases(&run), id_cases(&run), kept_cases(&run));
    let (xcf, keyf, longf) = (extra_cf_cases(&run), key_cases(&run), long_password_cases(&run));
    run.set("cases_extra_crypt_filter_family", json!(xcf.len()));
    run.set("cases_key_name_family", json!(keyf.len()));
    run.set("cases_long_password_family", json!(longf.len()));
    run.set("cases_kept_state_direction_K_with_extra_crypt_filters", json!(kept.iter().filter(|c| c.cfg.extra_cf).count()));
    run.set("configurations_with_more_crypt_filters_than_stmf_strf_name", json!(menu::configs_extra_cf().iter().map(|c| c.to_json()).collect::<Vec<_>>()));
    run.set("key_names_carrying_strings", json!(menu::KEY_MENU.to_vec()));
    list.extend(xcf);
    list.extend(keyf);
    list.extend(longf);
    let (pdfdocf, sizedf) = (pdfdoc_password_cases(&run), sized_cases(&run));
    run.set("cases_pdfdoc_password_family", json!(pdfdocf.len()));
    run.set("cases_pdfdoc_password_family_one_cell_per_password", json!(pdfdocf.iter().filter(|c| c.pair.starts_with("pdfdoc_cell_")).count()));
    run.set("pdfdoc_cells_swept", json!(rc::pdfdoc_cells().iter().map(|c| format!("{:02x}", c.0)).collect::<Vec<_>>().join(" ")));
    run.set("pdfdoc_password_pairs_of_several_characters", json!(menu::pdfdoc_special_pairs().iter().map(|p| json!([p.0, p.1, p.2])).collect::<Vec<_>>()));
    run.set("cases_string_size_family", json!(sizedf.iter().filter(|c| c.kind == DocKind::BigStrings).count()));
    run.set("cases_string_size_family_64k", json!(sizedf.iter().filter(|c| c.kind == DocKind::HugeStrings).count()));
    run.set(
        "string_size_family",
        json!({"lengths": menu::BIG_LENS.to_vec(), "lengths_64k_document": menu::HUGE_LENS.to_vec(), "formats": ["literal", "hexadecimal"],
               "contents": [menu::Fill::Printable.name(), menu::Fill::Mixed.name(), menu::Fill::Binary.name(), menu::Fill::Tricky.name()],
               "placements": ["entry of an ordinary dictionary", "array element", "Contents of a signature dictionary (indirect)", "Contents of a signature dictionary that is the direct value of a field", "Contents of a signature dictionary inside an array"]}),
    );
    // the cases of the long-string documents cost tens of milliseconds each: spread them over the list
    let step = (list.len() / sizedf.len().max(1)).max(1);
    for (k, c) in sizedf.into_iter().enumerate() {
        list.insert((k * (step + 1)).min(list.len()), c);
    }
    list.extend(pdfdocf);
    run.set("cases_deep_nesting_family", json!(deep.len()));
    run.set("cases_file_identifier_family", json!(idf.len()));
    run.set("cases_kept_state_direction_K", json!(kept.len()));
    list.extend(deep);
    list.extend(idf);
    list.extend(kept);
    // salts for the termination boundary of Algorithm 2.B, found by a deterministic search at start-up
    let r6_pairs: Vec<(String, String, String)> = pairs();
    let found: std::sync::Mutex<Vec<SaltSet>> = std::sync::Mutex::new(vec![]);
    util::par_for(r6_pairs.len(), |i| {
        let sets = boundary_salts(&r6_pairs[i].0, &r6_pairs[i].1, &r6_pairs[i].2);
        found.lock().unwrap().extend(sets);
    });
    let mut sets = found.into_inner().unwrap();
    sets.sort_by(|a, b| (a.pair.as_str(), a.class).cmp(&(b.pair.as_str(), b.class)));
    let bcases = boundary_cases(&sets);
    let missing = r6_pairs.len() * SALT_CLASSES.len() - sets.len();
    if missing > 0 {
        run.cap_hit(&format!("{} (password pair, class) combinations have no salt quadruple within the first {} counting salts", missing, SALT_SEARCH_CAP));
    }
    let per_class = |c: &str| sets.iter().filter(|s| s.class == c).count();
    run.set(
        "r6_boundary_salts",
        json!({
            "search": "counting 8-byte salts 1,2,3,... (big-endian); first two of each class for the user hashes, then (U fixed) for the owner hashes",
            "password_pairs": r6_pairs.len(),
            "quadruples_found": sets.len(),
            "quadruples_exit_on_boundary_last_byte_eq_round_minus_32": per_class("boundary"),
            "quadruples_exit_at_round_64_well_inside": per_class("inside64"),
            "quadruples_more_than_64_rounds": per_class("over64"),
            "hashes_steered_per_quadruple": 4,
            "max_salts_searched_for_one_quadruple": sets.iter().map(|s| s.searched).max().unwrap_or(0),
            "direction_B_cases_using_them": bcases.len(),
            "example": sets.iter().find(|s| s.class == "boundary").map(|s| json!({
                "pair": s.pair, "salts": s.salts.iter().map(|x| hex(x)).collect::<Vec<_>>(),
                "rounds": s.traces.iter().map(|t| t.rounds).collect::<Vec<_>>(), "last_byte_of_E": s.traces.iter().map(|t| t.last_byte).collect::<Vec<_>>()})),
        }),
    );
    list.extend(bcases);
    let k = Counters::default();
    let per_dir = [AtomicU64::new(0), AtomicU64::new(0), AtomicU64::new(0)];
    let via_file = AtomicU64::new(0);
    let classes: std::sync::Mutex<BTreeMap<String, u64>> = std::sync::Mutex::new(BTreeMap::new());
    let counts: std::sync::Mutex<BTreeMap<String, u64>> = std::sync::Mutex::new(BTreeMap::new());
    let cpu: std::sync::Mutex<BTreeMap<String, (u64, u64)>> = std::sync::Mutex::new(BTreeMap::new());
    util::par_for(list.len(), |i| {
        let c = &list[i];
        run.eval(1);
        let t0 = std::time::Instant::now();
        // direction A: lopdf's half runs once (it is randomised); the verdict is a function of what it produced
        let mut artefact: Option<Artefact> = None;
        let mut k_artefact: Option<KArtefact> = None;
        let res = if c.dir == 'A' {
            match a_produce(c) {
                Err(e) => Err(e),
                Ok(Err(f)) => Ok(f),
                Ok(Ok(a)) => {
                    let r = a_judge(c, &a, Some(&k));
                    artefact = Some(a);
                    r
                }
            }
        } else if c.dir == 'K' {
            match k_produce(c) {
                Err(e) => Err(e),
                Ok(Err(f)) => Ok(f),
                Ok(Ok(a)) => {
                    let r = k_judge(c, &a, Some(&k));
                    k_artefact = Some(a);
                    r
                }
            }
        } else {
            run_case(c, Some(&k))
        };
        let dt0 = t0.elapsed().as_micros() as u64;
        match res {
            Err(e) => {
                // only the documented skip is tolerated
                if e.contains("cannot serve as a container") || e.contains("outside PDFDocEncoding") {
                    inc(&k.skipped, 1);
                } else if e.contains(K_SKIP) {
                    inc(&k.kept_not_applicable, 1);
                } else {
                    eprintln!("MACHINERY: case {} cannot be built: {}", c.to_json(), e);
                    std::process::exit(3);
                }
            }
            Ok(fails) => {
                inc(&per_dir[match c.dir { 'A' => 0, 'B' => 1, _ => 2 }], 1);
                *counts.lock().unwrap().entry(format!("{} R{}", c.dir, c.cfg.revision())).or_insert(0) += 1;
                if c.via_file {
                    inc(&via_file, 1);
                }
                if !c.user.is_empty() || !c.owner.is_empty() || c.cfg.ver != Ver::V1 {
                    run.nontrivial(1);
                }
                if !fails.is_empty() {
                    let sig = signature(&fails);
                    // replay discipline. Direction B is deterministic end to end: the whole case is re-run.
                    // Direction A: the reference is re-run on the *captured* encrypted document; a different
                    // outcome on the same artefact would be nondeterminism of the harness itself.
                    for _ in 0..2 {
                        let again = match (&artefact, &k_artefact) {
                            (Some(a), _) => a_judge(c, a, None),
                            (_, Some(a)) => k_judge(c, a, None),
                            // lopdf refused to build the state or to encrypt: there is no artefact to re-judge
                            (None, None) if c.dir == 'A' => Ok(fails.clone()),
                            // direction K without an artefact: lopdf's half failed; it is run again (the item
                            // names the failing step, which does not depend on the random IVs)
                            (None, None) => run_case(c, None),
                        }
                        .map(|f| signature(&f));
                        if again.as_ref().ok() != Some(&sig) {
                            eprintln!("MACHINERY: failing case does not replay identically: {} first {:?} replay {:?}", c.to_json(), sig, again);
                            std::process::exit(3);
                        }
                    }
                    for f in &fails {
                        let key = format!(
                            "{} R{} {}{} | {} | {}",
                            c.dir,
                            c.cfg.revision(),
                            c.kind.name(),
                            if c.via_file { " (file)" } else { "" },
                            f.item,
                            f.finding.unwrap_or("UNCLASSIFIED")
                        );
                        *classes.lock().unwrap().entry(key).or_insert(0) += 1;
                        let mut cj = c.to_json();
                        cj["item"] = json!(f.item);
                        if let Some(a) = &artefact {
                            cj["artefact"] = a.to_json();
                        }
                        if let Some(a) = &k_artefact {
                            cj["artefact"] = a.to_json();
                        }
                        run.fail(f.finding, cj, &format!("[{}] {}", f.item, f.detail), expected_text(&f.item));
                    }
                }
            }
        }
        let dt = t0.elapsed().as_micros() as u64;
        {
            let mut g = cpu.lock().unwrap();
            let e = g.entry(format!("{} R{}", c.dir, c.cfg.revision())).or_insert((0, 0));
            e.0 += dt0;
            e.1 += dt;
        }
        if i == 0 || i == list.len() / 5 || i == list.len() / 2 || i == (list.len() * 4) / 5 || i == list.len() - 1 {
            run.sample(c.to_json());
        }
    });
    run.set("failing_items_by_class", json!(classes.into_inner().unwrap()));
    run.set("cases_by_direction_and_revision", json!(counts.into_inner().unwrap()));
    run.set(
        "thread_ms_by_direction_and_revision_first_run_and_with_replays",
        json!(cpu.into_inner().unwrap().into_iter().map(|(k, v)| (k, [v.0 / 1000, v.1 / 1000])).collect::<BTreeMap<String, [u64; 2]>>()),
    );
    run.set("cases_direction_A", json!(per_dir[0].load(Ordering::Relaxed)));
    run.set("cases_direction_B", json!(per_dir[1].load(Ordering::Relaxed)));
    run.set("cases_direction_K_kept_state", json!(per_dir[2].load(Ordering::Relaxed)));
    run.set("cases_direction_K_not_applicable_loader_behaviour", json!(k.kept_not_applicable.load(Ordering::Relaxed)));
    run.set("file_identifier_shapes", json!(IdShape::ALL.iter().map(|x| x.name()).collect::<Vec<_>>()));
    run.set("cases_through_writer_and_loader", json!(via_file.load(Ordering::Relaxed)));
    run.set("fields_compared_equal", json!(k.fields_equal.load(Ordering::Relaxed)));
    run.set("fields_validated", json!(k.fields_validated.load(Ordering::Relaxed)));
    run.set("strings_decrypted_by_reference", json!(k.ref_strings.load(Ordering::Relaxed)));
    run.set("streams_decrypted_by_reference", json!(k.ref_streams.load(Ordering::Relaxed)));
    run.set("lopdf_decrypt_calls_on_reference_documents", json!(k.lopdf_opens.load(Ordering::Relaxed)));
    run.set("cases_skipped_loader_autodecrypt_container", json!(k.skipped.load(Ordering::Relaxed)));
    run.set("configurations_A", json!(configs_a().len()));
    run.set("configurations_B", json!(configs_b().len()));
    run.set("permission_words", json!(if run.thorough { "all 256 conforming words x configuration x password pair on the page document (R <= 5); all, none, each single flag elsewhere" } else { "all, none, each single flag x configuration x password pair on the page document; all elsewhere" }));
    run.set(
        "bounds",
        json!(if run.thorough {
            "thorough: R<=5 - every configuration x document x password pair x {permission menu of 10 x identifier length {16,0,32} x (B) all spellings, in memory and through writer+loader; (B) all 3 salt/IV patterns with permissions=all and identifier length 16, one pattern in rotation elsewhere}, plus the remaining 246 conforming permission words x identifier length 16 on the page document; R6 - every configuration x document x password pair with permissions=all (in memory and through writer+loader) plus the permission menu on the page document; deep-nesting family: every configuration x three password pairs; file-identifier family: every password pair; extra-crypt-filter, key-name and long-password families: every password pair (R6: three pairs; all long pairs); direction K: all 256 conforming permission words with the pair 'distinct' on the page document (R6: the menu of 10)"
        } else {
            "quick: R<=5 - every configuration x document x password pair with permissions=all and identifier length 16 (in memory and through writer+loader), identifier lengths 0/32 and the alternative spellings (B) with permissions=all, the permission menu of 10 on the page document, (B) one salt/IV pattern per case in rotation; R6 - every sixth (document, password pair) per configuration plus the permission menu on (page, distinct passwords): R5 differs from R6 only in the hash function and carries the full menu; deep-nesting family: representative configurations x password pair 'distinct'; file-identifier family: one configuration per key-derivation variant x every password pair (R6: two pairs); extra-crypt-filter family: 23 configurations x 4 documents x three password pairs (R6: EncryptMetadata true, two documents, one pair); key-name family: representative and mixed-method configurations x 2 documents x four password pairs (R6: one); long-password family: 11 pairs (R6: five); direction K: every configuration x every password pair with permissions=all (R6: two pairs), the permission menu of 10 with the pair 'distinct' on the page document (R6: all and none), the streams document where EncryptMetadata is false, alternative spellings (no /Length, StmF/StrF omitted) with the pair 'distinct'"
        }),
    );
    run.exhaustive(true);
    run.finish();
}

fn replay(run: &Run, path: &std::path::Path) -> ! {
    let case = vharness::run::read_replay(path);
    let c = Case::from_json(&case);
    // direction A with a captured artefact: the reference judges exactly the document lopdf wrote then
    let captured = if c.dir == 'A' && case["artefact"].is_object() { Some(Artefact::from_json(&case["artefact"])) } else { None };
    let k_captured = if c.dir == 'K' && case["artefact"].is_object() { Some(KArtefact::from_json(&case["artefact"])) } else { None };
    let eval = |c: &Case| match (&captured, &k_captured) {
        (Some(a), _) => a_judge(c, a, None),
        (_, Some(a)) => k_judge(c, a, None),
        _ => run_case(c, None),
    };
    if captured.is_some() || k_captured.is_some() {
        println!("(judging the captured encrypted document; lopdf is not asked to encrypt again)");
    }
    let a = eval(&c);
    let b = eval(&c);
    let (fa, fb) = match (a, b) {
        (Ok(x), Ok(y)) => (x, y),
        (x, y) => {
            eprintln!("MACHINERY: case cannot be rebuilt: {:?} / {:?}", x.err(), y.err());
            std::process::exit(3);
        }
    };
    if signature(&fa) != signature(&fb) {
        eprintln!("MACHINERY: replay not deterministic: {:?} vs {:?}", signature(&fa), signature(&fb));
        std::process::exit(3);
    }
    // a replay file names one item; report that item (or all, if it names none)
    let want = case["item"].as_str().map(|s| s.to_string());
    let shown: Vec<&Fail> = fa.iter().filter(|f| want.as_ref().map(|w| *w == f.item).unwrap_or(true)).collect();
    println!("case: {}", c.to_json());
    if shown.is_empty() {
        println!("observed: every compared field and every opened document agrees");
    }
    for f in &shown {
        println!("observed: [{}] {} (finding: {})", f.item, f.detail, f.finding.unwrap_or("none"));
        println!("expected: {}", expected_text(&f.item));
    }
    run.finish_replay(!shown.is_empty())
}
