//! C02 - well-formed PDFs from any producer load to their content (DESIGN §4 C02).
use lopdf::Document;
use serde_json::{json, Value};
use std::collections::BTreeMap;
use vharness::absdoc::abs_doc;
use vharness::choose::Chooser;
use vharness::refpdf::{self, FileSpec, Layout, Style};
use vharness::{cmp, strict, util, Mode, Run};

const N_DOCS: usize = 25;
const ENTRY: &str = "entry points disagree: ";

#[derive(Debug, Clone, PartialEq)]
enum Outcome {
    Pass,
    /// the reference writer / strict reader disagree: machinery problem, not a verdict
    SelfCheck(String),
    Fail(String),
}

fn style_of(s: usize) -> Style {
    if s == 0 {
        Style::Table
    } else {
        Style::Stream
    }
}

/// Render with the chooser and check strict reader + lopdf loader against the abstract document.
fn check_file(spec: &FileSpec, ch: &mut Chooser) -> (Outcome, Vec<u8>) {
    let (bytes, lay): (Vec<u8>, Layout) = refpdf::write(spec, ch);
    if let Some(d) = &ch.diverged {
        return (Outcome::SelfCheck(format!("choice sequence diverged: {}", d)), bytes);
    }
    let expected = refpdf::expected_objects(spec, &lay, spec.sections.len());
    let body = &bytes[lay.junk..];
    // self-check of the writer by the strict reader
    let sres = util::guard(|| strict::read(body, &strict::Options { require_binary_mark: true }));
    match sres {
        Err(p) => return (Outcome::SelfCheck(format!("strict reader panicked: {}", p)), bytes),
        Ok(Err(e)) => return (Outcome::SelfCheck(format!("strict reader rejects the reference file: {}", e)), bytes),
        Ok(Ok(mut d)) => {
            cmp::normalise_lengths(&mut d.objects);
            if d.bytes_accounted != body.len() {
                return (Outcome::SelfCheck("strict reader did not account for every byte".into()), bytes);
            }
            if let Some(m) = cmp::diff_objects(&expected, &d.objects) {
                return (Outcome::SelfCheck(format!("strict reader recovers different objects: {}", m)), bytes);
            }
        }
    }
    let trailer = &spec.sections.last().unwrap().trailer;
    let loaded = util::load(&bytes);
    // every other public way of loading the same bytes (short reads, IncrementalDocument, and for files
    // with at most one deviation also the path-taking functions incl. load_filtered with a keep-all
    // filter) must agree with load_mem exactly
    match util::entry_point_agreement(&bytes, &loaded, ch.deviations().len() <= 1) {
        Ok(None) => {}
        Ok(Some(m)) => return (Outcome::Fail(format!("{}{}", ENTRY, m)), bytes),
        Err(e) => return (Outcome::SelfCheck(e), bytes),
    }
    let doc: Document = match loaded {
        Ok(d) => d,
        Err(e) => return (Outcome::Fail(e), bytes),
    };
    if doc.version != spec.version {
        return (Outcome::Fail(format!("version: expected {:?} got {:?}", spec.version, doc.version)), bytes);
    }
    if let Some(m) = cmp::diff_objects(&expected, &doc.objects) {
        return (Outcome::Fail(m), bytes);
    }
    if let Some(m) = cmp::diff_trailer(trailer, &doc.trailer) {
        return (Outcome::Fail(m), bytes);
    }
    (Outcome::Pass, bytes)
}

/// Known-finding classification by the deviations taken (DESIGN Appendix A): only when every
/// deviation that matters belongs to the finding's class and removing those makes the file pass.
fn classify(spec: &FileSpec, ch: &Chooser) -> Option<&'static str> {
    type Pred = fn(&'static str, usize) -> bool;
    fn is_raw_eol(c: &'static str, o: usize) -> bool {
        c == "str.literal" && (o == 7 || o == 8)
    }
    fn is_parms(c: &'static str, o: usize) -> bool {
        (c == "xs.filter" || c == "os.filter") && o == 4
    }
    let findings: [(Pred, &'static str); 2] = [(is_raw_eol, "string-raw-eol"), (is_parms, "decodeparms-array")];
    let devs = ch.deviations();
    let present: Vec<usize> = (0..findings.len()).filter(|k| devs.iter().any(|d| findings[*k].0(d.1, d.2))).collect();
    if present.is_empty() {
        return None;
    }
    // re-render with the same forcing minus the deviations of the given findings
    let without = |which: &[usize]| -> bool {
        let suspect = |c: &'static str, o: usize| which.iter().any(|k| findings[*k].0(c, o));
        let mut c2 = Chooser::new();
        for (i, o) in &ch.at_point {
            let cls = ch.log.get(*i).map(|p| p.class).unwrap_or("");
            if !suspect(cls, *o) {
                c2.at_point.insert(*i, *o);
            }
        }
        for (k, v) in &ch.at_class {
            let cls: &'static str = ch.log.iter().find(|p| p.class == k.as_str()).map(|p| p.class).unwrap_or("");
            if !suspect(cls, *v) {
                c2.at_class.insert(k.clone(), *v);
            }
        }
        check_file(spec, &mut c2).0 == Outcome::Pass
    };
    for k in &present {
        if without(&[*k]) {
            return Some(findings[*k].1);
        }
    }
    // several catalogued defects at once: the case is explained only if it passes without all of them
    if present.len() > 1 && without(&present) {
        return Some(findings[present[0]].1);
    }
    None
}

fn case_json(doc: usize, style: usize, ch: &Chooser) -> Value {
    json!({
        "doc": doc, "style": if style == 0 {"table"} else {"stream"},
        "at_point": ch.at_point.iter().map(|(k, v)| json!([k, v])).collect::<Vec<_>>(),
        "at_class": ch.at_class.iter().map(|(k, v)| json!([k, v])).collect::<Vec<_>>(),
        "deviations": ch.deviations().iter().map(|d| json!([d.0, d.1, d.2])).collect::<Vec<_>>(),
    })
}

fn report(run: &Run, spec: &FileSpec, doc: usize, style: usize, ch: &Chooser, out: Outcome, bytes: &[u8]) {
    match out {
        Outcome::Pass => {}
        Outcome::SelfCheck(m) => {
            eprintln!("MACHINERY: reference writer self-check failed (doc {} style {} deviations {:?}): {}", doc, style, ch.deviations(), m);
            let _ = std::fs::write("/tmp/c02_selfcheck_failure.pdf", bytes);
            std::process::exit(3);
        }
        Outcome::Fail(m) => {
            let f = if m.starts_with(ENTRY) { None } else { classify(spec, ch) };
            let mut c = case_json(doc, style, ch);
            c["file_hex_prefix"] = json!(vharness::objjson::hex(&bytes[..bytes.len().min(64)]));
            run.fail(f, c, &m, "lopdf loads exactly the objects, trailer and version the file defines");
        }
    }
}

fn main() {
    let run = Run::from_args("C02", "exploration");
    util::quiet_panics();
    util::init_pool();
    util::pin_schedule();
    if let Mode::Replay(path) = run.mode.clone() {
        let case = vharness::run::read_replay(&path);
        let doc = case["doc"].as_u64().unwrap() as usize;
        let style = if case["style"].as_str() == Some("table") { 0 } else { 1 };
        let spec = abs_doc(doc, style_of(style));
        let mut ch = Chooser::new();
        for p in case["at_point"].as_array().unwrap() {
            ch.at_point.insert(p[0].as_u64().unwrap() as usize, p[1].as_u64().unwrap() as usize);
        }
        for p in case["at_class"].as_array().unwrap() {
            ch.at_class.insert(p[0].as_str().unwrap().to_string(), p[1].as_u64().unwrap() as usize);
        }
        let (o1, bytes) = check_file(&spec, &mut ch.clone());
        let (o2, _) = check_file(&spec, &mut ch);
        if o1 != o2 {
            eprintln!("MACHINERY: replay not deterministic");
            std::process::exit(3);
        }
        let _ = std::fs::write(path.with_extension("pdf"), &bytes);
        println!("observed: {:?} (file written next to the replay)", o1);
        run.finish_replay(o1 != Outcome::Pass);
    }
    run.rule(
        "abstract documents rendered by the independent reference writer through a choice recorder: the all-default file, every \
         single deviation at every choice point (instance level; for the 300-object document the quick tier takes the first 40 and last 60 points), and pairs of deviations at class level; every file is first \
         accepted by the strict reader (writer self-check), then loaded by lopdf (load_mem) and compared with the abstract document, and loaded again through load_from with \
         1-byte and 4093-byte reads, IncrementalDocument::load_from / load_mem and (files with <= 1 deviation) Document::load, \
         load_filtered with a keep-all filter and IncrementalDocument::load from a scratch file, all of which must equal load_mem exactly; \
         non-trivial = file differs byte-wise from the default rendering of its document (counted by content hash)",
    );
    run.assume("reference writer harness/src/refpdf.rs emits only spellings ISO 32000-1 7.2-7.5 allows; hybrid-reference files and freed objects are outside the domain");
    let classes_seen = std::sync::Mutex::new(BTreeMap::<&'static str, usize>::new());
    let hist = std::sync::Mutex::new(BTreeMap::<usize, u64>::new());
    let ndocs = N_DOCS;
    for doc in 0..ndocs {
        for style in 0..2 {
            let spec = abs_doc(doc, style_of(style));
            let mut base = Chooser::new();
            let (o, bytes0) = check_file(&spec, &mut base);
            run.eval(1);
            *hist.lock().unwrap().entry(0).or_insert(0) += 1;
            report(&run, &spec, doc, style, &base, o, &bytes0);
            let h0 = vharness::run::fnv(&bytes0);
            let points: Vec<(usize, &'static str, usize)> = base.log.iter().enumerate().map(|(i, p)| (i, p.class, p.n)).collect();
            {
                let mut cs = classes_seen.lock().unwrap();
                for (k, n) in base.classes_seen() {
                    let e = cs.entry(k).or_insert(0);
                    *e = (*e).max(n);
                }
            }
            let expect: Vec<(&'static str, usize)> = base.log.iter().map(|p| (p.class, p.n)).collect();
            // instance level: every point x every non-default option
            let mut jobs: Vec<(usize, usize)> = vec![];
            for (i, _c, n) in &points {
                for o in 1..*n {
                    jobs.push((*i, o));
                }
            }
            if (doc == 16 || doc == 24) && !run.thorough {
                // the 300-string document: instance-level deviations only at the first 40 and last 60 choice points
                // (header, first members, container, cross-reference data); all points in the thorough tier
                let np = points.len();
                jobs.retain(|(i, _)| *i < 40 || *i + 60 >= np);
            }
            if doc == 1 && style == 1 {
                run.sample(json!({"doc": doc, "style": "stream", "choice_points": points.len(), "single_deviations": jobs.len(),
                    "example_point": [points[points.len() / 2].0, points[points.len() / 2].1, points[points.len() / 2].2]}));
            }
            util::par_for(jobs.len(), |j| {
                let (i, o) = jobs[j];
                let mut ch = Chooser::with_point(i, o);
                ch.expect = expect.clone();
                let (out, bytes) = check_file(&spec, &mut ch);
                run.eval(1);
                let h = vharness::run::fnv(&bytes);
                if h != h0 {
                    run.nontrivial_hash(h);
                }
                report(&run, &spec, doc, style, &ch, out, &bytes);
            });
            *hist.lock().unwrap().entry(1).or_insert(0) += jobs.len() as u64;
            // class level: all options of one class at once, and pairs of classes
            let cls: Vec<(&'static str, usize)> = base.classes_seen().into_iter().collect();
            let mut cjobs: Vec<Vec<(&'static str, usize)>> = vec![];
            for (c, n) in &cls {
                for o in 1..*n {
                    cjobs.push(vec![(*c, o)]);
                }
            }
            let singles = cjobs.len();
            let mut pair_idx = 0u64;
            for a in 0..cls.len() {
                for b in a + 1..cls.len() {
                    for oa in 1..cls[a].1 {
                        for ob in 1..cls[b].1 {
                            pair_idx += 1;
                            // quick tier: the residue class of pairs selected by the seed (1/4 of them)
                            // (300-object document, quick tier: pairs that involve a stream filter class only)
                            let big_ok = (doc != 16 && doc != 24) || run.thorough || cls[a].0.ends_with(".filter") || cls[b].0.ends_with(".filter");
                            if big_ok && (run.thorough || pair_idx % 4 == run.seed % 4) {
                                cjobs.push(vec![(cls[a].0, oa), (cls[b].0, ob)]);
                            }
                        }
                    }
                }
            }
            util::par_for(cjobs.len(), |j| {
                let mut ch = Chooser::with_classes(&cjobs[j]);
                let (out, bytes) = check_file(&spec, &mut ch);
                run.eval(1);
                let h = vharness::run::fnv(&bytes);
                if h != h0 {
                    run.nontrivial_hash(h);
                }
                report(&run, &spec, doc, style, &ch, out, &bytes);
            });
            let mut hg = hist.lock().unwrap();
            *hg.entry(1).or_insert(0) += singles as u64;
            *hg.entry(2).or_insert(0) += (cjobs.len() - singles) as u64;
            if doc == 3 && style == 0 {
                run.sample(json!({"doc": doc, "style": "table", "class_level_jobs": cjobs.len(), "example": cjobs[cjobs.len() - 1].iter().map(|x| json!([x.0, x.1])).collect::<Vec<_>>()}));
            }
        }
    }
    let cs = classes_seen.lock().unwrap();
    run.set("choice_classes_exercised", json!(cs.iter().map(|(k, v)| json!([k, v])).collect::<Vec<_>>()));
    run.set("deviation_histogram", json!(hist.lock().unwrap().iter().map(|(k, v)| json!([k, v])).collect::<Vec<_>>()));
    run.set("documents", json!(ndocs * 2));
    if !run.thorough {
        run.set("class_pairs_slice", json!(format!("pair index mod 4 == {}", run.seed % 4)));
    }
    run.exhaustive(run.thorough);
    run.finish();
}
