//! C09 - stream filters decode as specified; compression is lossless (DESIGN §4 C09).
//! Oracle: the reference ENCODERS of `refcodec` produce the encoded stream from known plain
//! bytes; lopdf's `Stream::decompressed_content` must return those bytes.
use lopdf::filters::png;
use lopdf::{Dictionary, Document, Object, Stream};
use serde_json::{json, Value};
use std::sync::atomic::{AtomicU64, Ordering};
use vharness::objjson::{hex, unhex};
use vharness::refcodec as rc;
use vharness::{util, Mode, Run};

// ---------------------------------------------------------------------------------------------
// case descriptor

#[derive(Clone, Debug, PartialEq)]
enum Plain {
    Hex(Vec<u8>),
    Lcg { seed: u32, len: usize, mask: u8 },
    Run { byte: u8, len: usize },
    /// a b a b+1 ... : every adjacent byte pair is new (one LZW code and one new entry per byte)
    Pairs { len: usize },
    Period { pat: Vec<u8>, len: usize },
    /// 2-row frame holding all 65,536 (left, above) pairs for one upper-left value
    Triples { bpp: usize, ul: u8 },
    /// full 4-byte groups hi16 x alpha x alpha (alpha empty = all 256 bytes)
    Groups { hi: u16, alpha: Vec<u8> },
    /// xorshift64 bytes (incompressible)
    Xs { seed: u64, len: usize },
    /// xorshift64 bytes followed by a run of one byte (saving of the best zlib form tunable by `run`)
    XsRun { seed: u64, len: usize, byte: u8, run: usize },
}

fn lcg_bytes(seed: u32, n: usize, mask: u8) -> Vec<u8> {
    let mut x = seed;
    (0..n)
        .map(|_| {
            x = x.wrapping_mul(1664525).wrapping_add(1013904223);
            ((x >> 24) as u8) & mask
        })
        .collect()
}

fn pairs_bytes(len: usize) -> Vec<u8> {
    let mut out = Vec::with_capacity(len + 2);
    'outer: loop {
        for a in 0..255u32 {
            for b in a + 1..256 {
                out.push(a as u8);
                out.push(b as u8);
                if out.len() >= len {
                    break 'outer;
                }
            }
        }
    }
    out.truncate(len);
    out
}

/// the plain "current" byte of a triple cell: any fixed function will do
#[inline]
fn triple_c(l: u32, a: u32, u: u32) -> u8 {
    (l.wrapping_mul(7) ^ a.wrapping_mul(13) ^ u.wrapping_mul(31)).wrapping_add(5 + (l >> 3) + (a << 1)) as u8
}

fn triple_cells(bpp: usize) -> usize {
    65536usize.div_ceil(bpp)
}

fn triples_frame(bpp: usize, ul: u8) -> Vec<u8> {
    let cells = triple_cells(bpp);
    let rb = cells * 2 * bpp;
    let mut d = vec![0u8; rb * 2];
    for t in 0..65536usize {
        let (l, a) = ((t >> 8) as u8, (t & 255) as u8);
        let cell = t / bpp;
        let j = t % bpp;
        let pa = cell * 2 * bpp + j;
        let pb = pa + bpp;
        d[pa] = ul;
        d[pb] = a;
        d[rb + pa] = l;
        d[rb + pb] = triple_c(l as u32, a as u32, ul as u32);
    }
    d
}

impl Plain {
    fn bytes(&self) -> Vec<u8> {
        match self {
            Plain::Hex(b) => b.clone(),
            Plain::Lcg { seed, len, mask } => lcg_bytes(*seed, *len, *mask),
            Plain::Run { byte, len } => vec![*byte; *len],
            Plain::Pairs { len } => pairs_bytes(*len),
            Plain::Period { pat, len } => (0..*len).map(|i| pat[i % pat.len()]).collect(),
            Plain::Triples { bpp, ul } => triples_frame(*bpp, *ul),
            Plain::Groups { hi, alpha } => {
                let all: Vec<u8> = (0..=255u8).collect();
                let al = if alpha.is_empty() { &all } else { alpha };
                let mut out = Vec::with_capacity(al.len() * al.len() * 4);
                for b2 in al {
                    for b3 in al {
                        out.extend_from_slice(&[(*hi >> 8) as u8, *hi as u8, *b2, *b3]);
                    }
                }
                out
            }
            Plain::Xs { seed, len } => rc::xorshift_bytes(*seed, *len),
            Plain::XsRun { seed, len, byte, run } => {
                let mut out = rc::xorshift_bytes(*seed, *len);
                out.resize(len + run, *byte);
                out
            }
        }
    }
    /// the same generator with another length (Hex: a prefix)
    fn with_len(&self, len: usize) -> Plain {
        match self {
            Plain::Hex(b) => Plain::Hex(b[..len.min(b.len())].to_vec()),
            Plain::Lcg { seed, mask, .. } => Plain::Lcg { seed: *seed, len, mask: *mask },
            Plain::Run { byte, .. } => Plain::Run { byte: *byte, len },
            Plain::Pairs { .. } => Plain::Pairs { len },
            Plain::Period { pat, .. } => Plain::Period { pat: pat.clone(), len },
            Plain::Xs { seed, .. } => Plain::Xs { seed: *seed, len },
            other => other.clone(),
        }
    }
    fn len(&self) -> usize {
        match self {
            Plain::Hex(b) => b.len(),
            Plain::Lcg { len, .. } | Plain::Run { len, .. } | Plain::Pairs { len } | Plain::Period { len, .. } | Plain::Xs { len, .. } => *len,
            Plain::XsRun { len, run, .. } => len + run,
            other => other.bytes().len(),
        }
    }
    fn of(b: &[u8]) -> Plain {
        Plain::Hex(b.to_vec())
    }
    fn to_json(&self) -> Value {
        match self {
            Plain::Hex(b) => json!({"hex": hex(b)}),
            Plain::Lcg { seed, len, mask } => json!({"gen": "lcg", "seed": seed, "len": len, "mask": mask}),
            Plain::Run { byte, len } => json!({"gen": "run", "byte": byte, "len": len}),
            Plain::Pairs { len } => json!({"gen": "pairs", "len": len}),
            Plain::Period { pat, len } => json!({"gen": "period", "pat_hex": hex(pat), "len": len}),
            Plain::Triples { bpp, ul } => json!({"gen": "triples", "bpp": bpp, "ul": ul}),
            Plain::Groups { hi, alpha } => json!({"gen": "groups", "hi": hi, "alpha_hex": hex(alpha)}),
            Plain::Xs { seed, len } => json!({"gen": "xorshift64", "seed": seed, "len": len}),
            Plain::XsRun { seed, len, byte, run } => json!({"gen": "xorshift64+run", "seed": seed, "len": len, "byte": byte, "run": run}),
        }
    }
    fn from_json(v: &Value) -> Plain {
        if let Some(h) = v["hex"].as_str() {
            return Plain::Hex(unhex(h));
        }
        let u = |k: &str| v[k].as_u64().unwrap_or(0);
        match v["gen"].as_str() {
            Some("lcg") => Plain::Lcg { seed: u("seed") as u32, len: u("len") as usize, mask: u("mask") as u8 },
            Some("run") => Plain::Run { byte: u("byte") as u8, len: u("len") as usize },
            Some("pairs") => Plain::Pairs { len: u("len") as usize },
            Some("period") => Plain::Period { pat: unhex(v["pat_hex"].as_str().unwrap_or("00")), len: u("len") as usize },
            Some("triples") => Plain::Triples { bpp: u("bpp") as usize, ul: u("ul") as u8 },
            Some("groups") => Plain::Groups { hi: u("hi") as u16, alpha: unhex(v["alpha_hex"].as_str().unwrap_or("")) },
            Some("xorshift64") => Plain::Xs { seed: u("seed"), len: u("len") as usize },
            Some("xorshift64+run") => Plain::XsRun { seed: u("seed"), len: u("len") as usize, byte: u("byte") as u8, run: u("run") as usize },
            _ => machinery("replay: unknown plain descriptor"),
        }
    }
}

fn machinery(msg: &str) -> ! {
    eprintln!("MACHINERY: {}", msg);
    std::process::exit(3);
}

#[derive(Clone, Copy, Debug, PartialEq)]
enum F {
    Flate,
    Lzw,
    A85,
}

impl F {
    fn name(self) -> &'static str {
        match self {
            F::Flate => "FlateDecode",
            F::Lzw => "LZWDecode",
            F::A85 => "ASCII85Decode",
        }
    }
    fn from_name(s: &str) -> F {
        match s {
            "FlateDecode" => F::Flate,
            "LZWDecode" => F::Lzw,
            "ASCII85Decode" => F::A85,
            _ => machinery("replay: unknown filter"),
        }
    }
}

#[derive(Clone, Debug, PartialEq)]
struct Pred {
    /// value of /Predictor; -1 = key absent. Rows are PNG-filtered only when it is 10..=15.
    predictor: i64,
    colors: i64,
    bpc: i64,
    columns: i64,
    /// PNG filter type per row
    rows: Vec<u8>,
    /// leave out Colors / BitsPerComponent / Columns when they have their default value
    omit_defaults: bool,
}

impl Pred {
    fn active(&self) -> bool {
        (10..=15).contains(&self.predictor)
    }
    fn bpp(&self) -> usize {
        rc::png_bpp(self.colors as usize, self.bpc as usize)
    }
    fn row_bytes(&self) -> usize {
        rc::png_row_bytes(self.colors as usize, self.bpc as usize, self.columns as usize)
    }
}

#[derive(Clone, Debug, PartialEq)]
enum Enc {
    Stored(usize),
    /// stored blocks behind any legal zlib header (CINFO 0..7, FLEVEL 0..3)
    StoredW { block: usize, cinfo: u8, flevel: u8 },
    Level(u32),
    Lzw { clear_after: Option<u16> },
    A85 { use_z: bool, eod: bool, ws: Option<(usize, Vec<u8>)> },
    /// ASCII85 broken into lines of `line` characters by `eol` (the usual form of large data)
    A85Wrap { use_z: bool, line: usize, eol: Vec<u8> },
}

#[derive(Clone, Debug, PartialEq)]
struct Stage {
    f: F,
    pred: Option<Pred>,
    /// value of /EarlyChange (None = key absent, default 1)
    early: Option<i64>,
    enc: Enc,
}

impl Stage {
    fn plain(f: F) -> Stage {
        let enc = match f {
            F::Flate => Enc::Stored(65535),
            F::Lzw => Enc::Lzw { clear_after: None },
            F::A85 => Enc::A85 { use_z: true, eod: true, ws: None },
        };
        Stage { f, pred: None, early: None, enc }
    }
    fn nondefault_params(&self) -> bool {
        self.pred.as_ref().map(|p| p.active()).unwrap_or(false) || self.early == Some(0)
    }
    fn params_dict(&self) -> Option<Dictionary> {
        if self.pred.is_none() && self.early.is_none() {
            return None;
        }
        let mut d = Dictionary::new();
        if let Some(p) = &self.pred {
            if p.predictor >= 0 {
                d.set("Predictor", Object::Integer(p.predictor));
            }
            if !(p.omit_defaults && p.colors == 1) {
                d.set("Colors", Object::Integer(p.colors));
            }
            if !(p.omit_defaults && p.bpc == 8) {
                d.set("BitsPerComponent", Object::Integer(p.bpc));
            }
            if !(p.omit_defaults && p.columns == 1) {
                d.set("Columns", Object::Integer(p.columns));
            }
        }
        if let Some(e) = self.early {
            d.set("EarlyChange", Object::Integer(e));
        }
        Some(d)
    }
    fn encode(&self, data: &[u8]) -> Vec<u8> {
        let filtered;
        let data = match &self.pred {
            Some(p) if p.active() && self.f != F::A85 => {
                filtered = rc::png_encode_frame(data, p.row_bytes(), p.bpp(), &p.rows);
                &filtered[..]
            }
            _ => data,
        };
        match (&self.enc, self.f) {
            (Enc::Stored(b), F::Flate) => rc::zlib_stored(data, *b),
            (Enc::StoredW { block, cinfo, flevel }, F::Flate) => rc::zlib_stored_hdr(data, *block, *cinfo, *flevel),
            (Enc::Level(l), F::Flate) => rc::zlib_flate2(data, *l),
            (Enc::Lzw { clear_after }, F::Lzw) => {
                rc::lzw_encode(data, rc::LzwOpts { early_change: self.early.map(|e| e != 0).unwrap_or(true), clear_after: *clear_after })
            }
            (Enc::A85 { use_z, eod, ws }, F::A85) => {
                let mut e = rc::a85_encode_body(data, *use_z);
                if let Some((pos, w)) = ws {
                    let at = (*pos).min(e.len());
                    e.splice(at..at, w.iter().cloned());
                }
                if *eod {
                    e.extend_from_slice(b"~>");
                }
                e
            }
            (Enc::A85Wrap { use_z, line, eol }, F::A85) => {
                let body = rc::a85_encode_body(data, *use_z);
                let line = (*line).max(1);
                let mut e = Vec::with_capacity(body.len() + (body.len() / line + 1) * eol.len() + 2);
                for ch in body.chunks(line) {
                    e.extend_from_slice(ch);
                    e.extend_from_slice(eol);
                }
                e.extend_from_slice(b"~>");
                e
            }
            _ => machinery("stage encoder does not match its filter"),
        }
    }
}

#[derive(Clone, Copy, Debug, PartialEq)]
enum Parms {
    None,
    Dict,
    Array,
}

#[derive(Clone, Debug, PartialEq)]
struct Case {
    part: String,
    /// in decoding order (stage 0 is decoded first)
    stages: Vec<Stage>,
    filter_array: bool,
    parms: Parms,
    plain: Plain,
}

impl Case {
    fn single(part: &str, st: Stage, parms: Parms, plain: Plain) -> Case {
        Case { part: part.into(), stages: vec![st], filter_array: parms == Parms::Array, parms, plain }
    }
    fn encode(&self, plain: &[u8]) -> Vec<u8> {
        let mut cur = plain.to_vec();
        for st in self.stages.iter().rev() {
            cur = st.encode(&cur);
        }
        cur
    }
    fn stream(&self, content: Vec<u8>) -> Stream {
        let mut d = Dictionary::new();
        if self.filter_array || self.stages.len() != 1 {
            d.set("Filter", Object::Array(self.stages.iter().map(|s| Object::Name(s.f.name().into())).collect()));
        } else {
            d.set("Filter", Object::Name(self.stages[0].f.name().into()));
        }
        match self.parms {
            Parms::None => {}
            Parms::Dict => {
                if self.stages.len() != 1 {
                    machinery("dictionary-form DecodeParms is only legal with one filter");
                }
                if let Some(p) = self.stages[0].params_dict() {
                    d.set("DecodeParms", Object::Dictionary(p));
                }
            }
            Parms::Array => {
                let arr = self.stages.iter().map(|s| s.params_dict().map(Object::Dictionary).unwrap_or(Object::Null)).collect();
                d.set("DecodeParms", Object::Array(arr));
            }
        }
        Stream::new(d, content)
    }
    fn lenient(&self) -> bool {
        self.stages.iter().any(|s| matches!(&s.enc, Enc::A85 { eod: false, .. }))
    }
    fn to_json(&self) -> Value {
        let stages: Vec<Value> = self
            .stages
            .iter()
            .map(|s| {
                let pred = match &s.pred {
                    None => Value::Null,
                    Some(p) => json!({"Predictor": p.predictor, "Colors": p.colors, "BitsPerComponent": p.bpc, "Columns": p.columns,
                        "row_filters": p.rows, "omit_defaults": p.omit_defaults}),
                };
                let enc = match &s.enc {
                    Enc::Stored(b) => json!({"stored_block": b}),
                    Enc::StoredW { block, cinfo, flevel } => json!({"stored_block": block, "zlib_cinfo": cinfo, "zlib_flevel": flevel}),
                    Enc::Level(l) => json!({"flate2_level": l}),
                    Enc::Lzw { clear_after } => json!({"lzw_clear_after": clear_after}),
                    Enc::A85 { use_z, eod, ws } => json!({"a85_use_z": use_z, "eod": eod,
                        "ws": ws.as_ref().map(|(p, w)| json!({"pos": p, "bytes_hex": hex(w)}))}),
                    Enc::A85Wrap { use_z, line, eol } => json!({"a85_use_z": use_z, "wrap_line": line, "eol_hex": hex(eol)}),
                };
                json!({"filter": s.f.name(), "predictor": pred, "EarlyChange": s.early, "encoder": enc})
            })
            .collect();
        json!({"kind": "decode", "part": self.part, "chain": stages, "filter_as_array": self.filter_array,
            "decodeparms_form": match self.parms { Parms::None => "none", Parms::Dict => "dict", Parms::Array => "array" },
            "plain": self.plain.to_json()})
    }
    fn from_json(v: &Value) -> Case {
        let stages = v["chain"]
            .as_array()
            .unwrap_or_else(|| machinery("replay: no chain"))
            .iter()
            .map(|s| {
                let f = F::from_name(s["filter"].as_str().unwrap_or(""));
                let p = &s["predictor"];
                let pred = if p.is_null() {
                    None
                } else {
                    Some(Pred {
                        predictor: p["Predictor"].as_i64().unwrap_or(-1),
                        colors: p["Colors"].as_i64().unwrap_or(1),
                        bpc: p["BitsPerComponent"].as_i64().unwrap_or(8),
                        columns: p["Columns"].as_i64().unwrap_or(1),
                        rows: p["row_filters"].as_array().map(|a| a.iter().map(|x| x.as_u64().unwrap_or(0) as u8).collect()).unwrap_or_default(),
                        omit_defaults: p["omit_defaults"].as_bool().unwrap_or(false),
                    })
                };
                let e = &s["encoder"];
                let enc = if let (Some(b), Some(ci)) = (e["stored_block"].as_u64(), e["zlib_cinfo"].as_u64()) {
                    Enc::StoredW { block: b as usize, cinfo: ci as u8, flevel: e["zlib_flevel"].as_u64().unwrap_or(0) as u8 }
                } else if let Some(b) = e["stored_block"].as_u64() {
                    Enc::Stored(b as usize)
                } else if let Some(l) = e["flate2_level"].as_u64() {
                    Enc::Level(l as u32)
                } else if e.get("lzw_clear_after").is_some() {
                    Enc::Lzw { clear_after: e["lzw_clear_after"].as_u64().map(|x| x as u16) }
                } else if let Some(line) = e["wrap_line"].as_u64() {
                    Enc::A85Wrap { use_z: e["a85_use_z"].as_bool().unwrap_or(true), line: line as usize, eol: unhex(e["eol_hex"].as_str().unwrap_or("0a")) }
                } else {
                    let ws = if e["ws"].is_null() {
                        None
                    } else {
                        Some((e["ws"]["pos"].as_u64().unwrap_or(0) as usize, unhex(e["ws"]["bytes_hex"].as_str().unwrap_or(""))))
                    };
                    Enc::A85 { use_z: e["a85_use_z"].as_bool().unwrap_or(true), eod: e["eod"].as_bool().unwrap_or(true), ws }
                };
                Stage { f, pred, early: s["EarlyChange"].as_i64(), enc }
            })
            .collect();
        Case {
            part: v["part"].as_str().unwrap_or("").into(),
            stages,
            filter_array: v["filter_as_array"].as_bool().unwrap_or(false),
            parms: match v["decodeparms_form"].as_str() {
                Some("dict") => Parms::Dict,
                Some("array") => Parms::Array,
                _ => Parms::None,
            },
            plain: Plain::from_json(&v["plain"]),
        }
    }
}

// ---------------------------------------------------------------------------------------------
// running one case

#[derive(Debug, Clone, PartialEq)]
enum Res {
    Pass,
    /// missing-EOD input answered with an error (allowed: ISO 32000 requires the EOD marker)
    LenientErr,
    Mismatch { at: usize, got_len: usize, want_len: usize, got: Option<u8>, want: Option<u8> },
    Err(String),
    Panic(String),
}

impl Res {
    fn ok(&self) -> bool {
        matches!(self, Res::Pass | Res::LenientErr)
    }
    fn describe(&self) -> String {
        match self {
            Res::Pass => "decoded == plain".into(),
            Res::LenientErr => "error on input without EOD (allowed)".into(),
            Res::Mismatch { at, got_len, want_len, got, want } => format!(
                "decoded differs from plain: first difference at byte {} (got {:?}, want {:?}); decoded length {}, plain length {}",
                at, got, want, got_len, want_len
            ),
            Res::Err(e) => format!("decompressed_content returned Err: {}", e),
            Res::Panic(p) => p.clone(),
        }
    }
}

fn compare(got: &[u8], want: &[u8]) -> Res {
    if got == want {
        return Res::Pass;
    }
    let at = got.iter().zip(want.iter()).position(|(a, b)| a != b).unwrap_or(got.len().min(want.len()));
    Res::Mismatch { at, got_len: got.len(), want_len: want.len(), got: got.get(at).copied(), want: want.get(at).copied() }
}

fn decode_stream(s: &Stream, want: &[u8], lenient: bool) -> Res {
    match util::guard(|| s.decompressed_content()) {
        Err(p) => Res::Panic(p),
        Ok(Err(e)) => {
            if lenient {
                Res::LenientErr
            } else {
                Res::Err(e.to_string())
            }
        }
        Ok(Ok(d)) => compare(&d, want),
    }
}

/// returns (result, encoded != plain)
fn check_case(c: &Case) -> (Res, bool) {
    let plain = c.plain.bytes();
    let content = c.encode(&plain);
    let nontrivial = content != plain;
    let s = c.stream(content);
    (decode_stream(&s, &plain, c.lenient()), nontrivial)
}

/// Decode the same encoded content stage by stage, each stage as a single-filter stream whose
/// parameters are given in DICTIONARY form: the neutralisation of "DecodeParms is an array".
fn staged_dict_decode(c: &Case, plain: &[u8]) -> Res {
    let mut cur = c.encode(plain);
    for st in &c.stages {
        let mut d = Dictionary::new();
        d.set("Filter", Object::Name(st.f.name().into()));
        if let Some(p) = st.params_dict() {
            d.set("DecodeParms", Object::Dictionary(p));
        }
        let s = Stream::new(d, cur);
        cur = match util::guard(|| s.decompressed_content()) {
            Err(p) => return Res::Panic(p),
            Ok(Err(e)) => return Res::Err(e.to_string()),
            Ok(Ok(d)) => d,
        };
    }
    compare(&cur, plain)
}

// ---------------------------------------------------------------------------------------------
// classification (known_findings.json, DESIGN Appendix A). Narrow on purpose.

/// first byte (frame order) of an Average row, index >= bpp, at which the defective formula
/// `left + above/2` and the PNG formula `(left + above)/2` differ modulo 256
fn avg_first_differing(p: &Pred, data: &[u8]) -> Option<usize> {
    let (rb, bpp) = (p.row_bytes(), p.bpp());
    for (r, ft) in p.rows.iter().enumerate() {
        if *ft != rc::PNG_AVG {
            continue;
        }
        for i in bpp..rb {
            let l = data[r * rb + i - bpp] as u32;
            let a = if r > 0 { data[(r - 1) * rb + i] as u32 } else { 0 };
            if ((l + a) / 2) as u8 != (l + a / 2) as u8 {
                return Some(r * rb + i);
            }
        }
    }
    None
}

fn neutralise_avg(c: &Case) -> Case {
    let mut n = c.clone();
    for st in n.stages.iter_mut() {
        if let Some(p) = st.pred.as_mut() {
            for r in p.rows.iter_mut() {
                if *r == rc::PNG_AVG {
                    *r = rc::PNG_UP;
                }
            }
        }
    }
    n
}

fn classify(c: &Case, res: &Res) -> Option<&'static str> {
    let plain = c.plain.bytes();
    // ASCII85 with a NUL byte used as white-space
    let has_nul_ws = c.stages.iter().any(|s| matches!(&s.enc, Enc::A85 { ws: Some((_, w)), .. } if w.contains(&0)));
    if has_nul_ws {
        let mut n = c.clone();
        for st in n.stages.iter_mut() {
            if let Enc::A85 { ws: Some((_, w)), .. } = &mut st.enc {
                for b in w.iter_mut() {
                    if *b == 0 {
                        *b = b' ';
                    }
                }
            }
        }
        if check_case(&n).0.ok() {
            return Some("a85-nul-whitespace");
        }
        return None;
    }
    let arr = c.parms == Parms::Array && c.stages.iter().any(|s| s.nondefault_params());
    // Average rows whose defect is visible; for a predictor in the LAST stage the first wrong
    // byte must not lie before the first byte at which the two formulas differ
    let mut avg = false;
    let mut avg_consistent = true;
    {
        // data entering each stage's predictor = output of decoding all later... i.e. the plain
        // of that stage; compute by encoding from the back
        let mut cur = plain.clone();
        for (i, st) in c.stages.iter().enumerate().rev() {
            if let Some(p) = &st.pred {
                if p.active() && st.f != F::A85 {
                    if let Some(pos) = avg_first_differing(p, &cur) {
                        avg = true;
                        if i == c.stages.len() - 1 && !arr {
                            if let Res::Mismatch { at, .. } = res {
                                if *at < pos {
                                    avg_consistent = false;
                                }
                            } else {
                                avg_consistent = false;
                            }
                        }
                    }
                }
            }
            cur = st.encode(&cur);
        }
    }
    if arr {
        if staged_dict_decode(c, &plain).ok() {
            return Some("decodeparms-array");
        }
        if avg {
            // both catalogued defects at once: without Average rows the array form must still
            // fail and the dictionary form must pass
            let n = neutralise_avg(c);
            if !check_case(&n).0.ok() && staged_dict_decode(&n, &plain).ok() {
                return Some("decodeparms-array");
            }
        }
        return None;
    }
    if avg && avg_consistent && check_case(&neutralise_avg(c)).0.ok() {
        return Some("png-avg");
    }
    None
}

/// the replay descriptor must rebuild exactly this case
fn descriptor_roundtrip(c: &Case) {
    if matches!(&c.plain, Plain::Hex(b) if b.len() > 512) {
        return;
    }
    if Case::from_json(&c.to_json()) != *c {
        machinery(&format!("case descriptor does not survive to_json/from_json: {}", c.to_json()));
    }
}

struct Ctx<'a> {
    run: &'a Run,
    failed: AtomicU64,
}

impl Ctx<'_> {
    /// run a case through the generic path; report it when it fails. Returns true when it held.
    fn check(&self, c: &Case) -> bool {
        self.run.eval(1);
        descriptor_roundtrip(c);
        let (res, nt) = check_case(c);
        if nt {
            self.run.nontrivial(1);
        }
        if let Res::LenientErr = res {
            self.run.add("a85_missing_eod_answered_with_error", 1);
        }
        if res.ok() {
            return true;
        }
        self.report(c, &res);
        false
    }
    fn report(&self, c: &Case, res: &Res) {
        self.failed.fetch_add(1, Ordering::Relaxed);
        let f = classify(c, res);
        self.run.fail(f, c.to_json(), &res.describe(), "decompressed_content() == the plain bytes the reference encoders started from");
    }
    /// a bulk path saw a failure: confirm it through the generic path (the replayable form)
    fn confirm(&self, c: &Case) {
        let (res, _) = check_case(c);
        if res.ok() {
            machinery(&format!("bulk path failed but the generic path passes: {}", c.to_json()));
        }
        self.report(c, &res);
    }
}

// ---------------------------------------------------------------------------------------------
// part 1: PNG row filters, all 2^24 triples per filter type and bytes-per-pixel

const BPPS: [(usize, i64, i64); 6] = [(1, 1, 8), (2, 1, 16), (3, 3, 8), (4, 2, 16), (6, 3, 16), (8, 4, 16)];

fn triples_case(ft: u8, bpp: usize, ul: u8, lzw: bool) -> Case {
    let (_, colors, bpc) = *BPPS.iter().find(|b| b.0 == bpp).unwrap_or_else(|| machinery("bpp"));
    let pred = Pred { predictor: 10 + ft as i64, colors, bpc, columns: (triple_cells(bpp) * 2) as i64, rows: vec![0, ft], omit_defaults: false };
    let mut st = Stage::plain(if lzw { F::Lzw } else { F::Flate });
    st.pred = Some(pred);
    Case::single("triples", st, Parms::Dict, Plain::Triples { bpp, ul })
}

fn ft_of(n: u8) -> png::FilterType {
    match n {
        0 => png::FilterType::None,
        1 => png::FilterType::Sub,
        2 => png::FilterType::Up,
        3 => png::FilterType::Avg,
        _ => png::FilterType::Paeth,
    }
}

/// direct call of the public `png::decode_row` on row 1 of a triples frame.
/// Returns (bytes compared, mismatching bytes, mismatches not explained by the Average defect)
fn decode_row_direct(ft: u8, bpp: usize, ul: u8) -> Result<(u64, u64, Option<usize>), String> {
    let d = triples_frame(bpp, ul);
    let rb = d.len() / 2;
    let (prev, want) = d.split_at(rb);
    let mut enc = Vec::with_capacity(rb + 1);
    rc::png_encode_row(ft, bpp, prev, want, &mut enc);
    let mut cur = enc[1..].to_vec();
    util::guard(|| png::decode_row(ft_of(ft), bpp, prev, &mut cur))?;
    let mut bad = 0u64;
    let mut unexplained = None;
    for i in 0..rb {
        if cur[i] != want[i] {
            bad += 1;
            // explained only if: Average, index >= bpp, the decoder's left byte was right, and the
            // two formulas differ for (left, above)
            let explained = ft == rc::PNG_AVG && i >= bpp && cur[i - bpp] == want[i - bpp] && {
                let (l, a) = (want[i - bpp] as u32, prev[i] as u32);
                ((l + a) / 2) as u8 != (l + a / 2) as u8
            };
            // a wrong left byte propagates in Sub/Average/Paeth rows: only the first wrong byte of a
            // run needs an explanation
            let propagated = i >= bpp && cur[i - bpp] != want[i - bpp];
            if !explained && !propagated && unexplained.is_none() {
                unexplained = Some(i);
            }
        }
    }
    Ok((rb as u64, bad, unexplained))
}

fn part1_triples(cx: &Ctx) {
    let run = cx.run;
    // through the real decode path: Flate (stored) + DecodeParms dictionary; LZW carrier for a slice
    let units: Vec<(u8, usize, u8)> = (1..=4u8).flat_map(|ft| BPPS.iter().flat_map(move |b| (0..=255u8).map(move |ul| (ft, b.0, ul)))).collect();
    let bad_direct = AtomicU64::new(0);
    util::par_for(units.len(), |i| {
        let (ft, bpp, ul) = units[i];
        cx.check(&triples_case(ft, bpp, ul, false));
        if (ul as u64 + run.seed) % 16 == 0 {
            cx.check(&triples_case(ft, bpp, ul, true));
        }
        // direct call of the public function
        run.eval(1);
        match decode_row_direct(ft, bpp, ul) {
            Err(p) => run.fail(None, json!({"kind": "decode_row", "filter_type": ft, "bpp": bpp, "ul": ul}), &p, "png::decode_row returns"),
            Ok((n, bad, unexplained)) => {
                run.add("decode_row_bytes_compared", n);
                bad_direct.fetch_add(bad, Ordering::Relaxed);
                let case = json!({"kind": "decode_row", "filter_type": ft, "bpp": bpp, "ul": ul});
                if let Some(i) = unexplained {
                    run.fail(None, case, &format!("row byte {} wrong ({} wrong bytes in the row)", i, bad), "decode_row inverts the reference row filter");
                } else if bad > 0 {
                    run.fail(Some("png-avg"), case, &format!("{} bytes of the Average row wrong, each at index >= bpp where left+above/2 != (left+above)/2", bad), "decode_row inverts the reference row filter");
                }
            }
        }
    });
    run.nontrivial(units.len() as u64); // direct calls: filtered row != plain row for every frame (checked below)
    run.add("triples", units.len() as u64 * 65536);
    run.add("triples_frames", units.len() as u64);
    run.add("decode_row_wrong_bytes", bad_direct.load(Ordering::Relaxed));
    run.sample(json!({"part": "1 triples", "case": triples_case(4, 3, 77, false).to_json(),
        "note": "row 0 (filter None) carries upper-left and above, row 1 carries left and the current byte; 65,536 (left, above) pairs per frame, 256 frames per filter type and bpp"}));
}

// ---------------------------------------------------------------------------------------------
// part 3: ASCII85

const PDF_WS: [u8; 6] = [0x00, 0x09, 0x0a, 0x0c, 0x0d, 0x20];
const SPECIAL16: [u8; 16] = [0x00, 0x01, 0x02, 0x09, 0x0a, 0x20, 0x21, 0x54, 0x55, 0x7e, 0x7f, 0x80, 0x81, 0xf0, 0xfe, 0xff];

fn a85_stream() -> Stream {
    let mut d = Dictionary::new();
    d.set("Filter", Object::Name(b"ASCII85Decode".to_vec()));
    Stream::new(d, vec![])
}

fn a85_case(part: &str, plain: Plain, use_z: bool, eod: bool, ws: Option<(usize, Vec<u8>)>) -> Case {
    let mut st = Stage::plain(F::A85);
    st.enc = Enc::A85 { use_z, eod, ws };
    Case::single(part, st, Parms::None, plain)
}

fn part3_a85(cx: &Ctx) {
    let run = cx.run;
    // (a) every input of length 0..3
    cx.check(&a85_case("a85 short", Plain::of(b""), true, true, None));
    util::par_for(256, |b0| {
        let mut s = a85_stream();
        let mut bad: Vec<Vec<u8>> = vec![];
        let mut n = 0u64;
        let mut one = |p: &[u8], s: &mut Stream| {
            s.content = rc::a85_encode(p);
            n += 1;
            if !decode_stream(s, p, false).ok() && bad.len() < 4 {
                bad.push(p.to_vec());
            }
        };
        one(&[b0 as u8], &mut s);
        for b1 in 0..=255u8 {
            one(&[b0 as u8, b1], &mut s);
            for b2 in 0..=255u8 {
                one(&[b0 as u8, b1, b2], &mut s);
            }
        }
        run.eval(n);
        run.nontrivial(n); // the encoding always ends in ~> and is longer than the plain bytes
        for p in bad {
            cx.confirm(&a85_case("a85 short", Plain::of(&p), true, true, None));
        }
    });
    run.add("a85_inputs_len_0_to_3", 1 + 256 + 65536 + 16777216);
    // (b) full 4-byte groups, packed 65,536 (thorough) or 256 (quick) to a stream
    let groups = AtomicU64::new(0);
    let group_stream = |hi: u16, alpha: &[u8]| {
        let pl = Plain::Groups { hi, alpha: alpha.to_vec() };
        let plain = pl.bytes();
        let mut s = a85_stream();
        s.content = rc::a85_encode(&plain);
        run.eval(1);
        run.nontrivial(1);
        groups.fetch_add(plain.len() as u64 / 4, Ordering::Relaxed);
        if let Res::Mismatch { at, .. } = decode_stream(&s, &plain, false) {
            // narrow down to the single group
            let g = at / 4 * 4;
            let single = a85_case("a85 group", Plain::of(&plain[g..(g + 4).min(plain.len())]), true, true, None);
            if !check_case(&single).0.ok() {
                cx.confirm(&single);
                return;
            }
            cx.confirm(&a85_case("a85 groups", pl, true, true, None));
        } else if !decode_stream(&s, &plain, false).ok() {
            cx.confirm(&a85_case("a85 groups", pl, true, true, None));
        }
    };
    if run.thorough {
        util::par_for(65536, |hi| group_stream(hi as u16, &[]));
        run.set("a85_full_groups_space", json!("all 2^32 four-byte groups, 65,536 per stream"));
    } else {
        util::par_for(65536, |hi| {
            group_stream(hi as u16, &SPECIAL16);
            if (hi as u64 + run.seed) % 256 == 0 {
                group_stream(hi as u16, &[]);
            }
        });
        run.set(
            "a85_full_groups_space",
            json!("quick: stratified subset of the 2^32 groups: all 65,536 values of the two high bytes x 16x16 special low bytes, plus all 65,536 low halves for the 256 high halves with (hi + seed) % 256 == 0; the complete 2^32 is the thorough tier"),
        );
    }
    run.add("a85_full_groups", groups.load(Ordering::Relaxed));
    // (c) z groups in every arrangement with other groups and partial tails
    let menu: [&[u8]; 4] = [&[0, 0, 0, 0], &[0, 0, 0, 1], &[0xff; 4], b"abcd"];
    let tails: [&[u8]; 6] = [b"", &[0], &[0, 0], &[0, 0, 0], &[1], &[0xff, 0xff, 0xff]];
    let mut zs: Vec<Vec<u8>> = vec![];
    for len in 0..=4usize {
        for idx in 0..4usize.pow(len as u32) {
            let mut p = vec![];
            let mut k = idx;
            for _ in 0..len {
                p.extend_from_slice(menu[k % 4]);
                k /= 4;
            }
            for t in tails {
                let mut q = p.clone();
                q.extend_from_slice(t);
                zs.push(q);
            }
        }
    }
    util::par_for(zs.len(), |i| {
        for use_z in [true, false] {
            cx.check(&a85_case("a85 z", Plain::of(&zs[i]), use_z, true, None));
        }
    });
    run.add("a85_z_arrangements", zs.len() as u64 * 2);
    // (d) white-space at every position, (e) missing EOD
    let bases: Vec<Vec<u8>> = vec![
        vec![],
        vec![0x4d],
        b"Ma".to_vec(),
        b"Man".to_vec(),
        b"Man ".to_vec(),
        b"Man i".to_vec(),
        vec![0, 0, 0, 0],
        vec![0, 0, 0, 0, 0, 0, 0, 0, 7],
        vec![0xff; 7],
        b"is distinguished".to_vec(),
        (0..23u8).map(|i| i.wrapping_mul(37)).collect(),
    ];
    let mut ws_cases = vec![];
    for b in &bases {
        let body = rc::a85_encode_body(b, true).len();
        for pos in 0..=body {
            for w in PDF_WS {
                ws_cases.push(a85_case("a85 white-space", Plain::of(b), true, true, Some((pos, vec![w]))));
            }
            ws_cases.push(a85_case("a85 white-space", Plain::of(b), true, true, Some((pos, b"\r\n".to_vec()))));
            ws_cases.push(a85_case("a85 white-space", Plain::of(b), true, true, Some((pos, b" \t\n\x0c\r ".to_vec()))));
        }
        ws_cases.push(a85_case("a85 missing EOD", Plain::of(b), true, false, None));
        ws_cases.push(a85_case("a85 missing EOD", Plain::of(b), false, false, Some((body, b"\n".to_vec()))));
    }
    util::par_for(ws_cases.len(), |i| {
        cx.check(&ws_cases[i]);
    });
    run.add("a85_whitespace_and_eod_cases", ws_cases.len() as u64);
    // (f) sizes: plain and encoded lengths around 2^12 .. 2^16 and 2^20, binary and zero data, one
    // long line and the usual wrapped form
    let mut sizes: Vec<usize> = vec![];
    for k in [12u32, 13, 14, 15, 16, 20] {
        let t = 1usize << k;
        sizes.extend([t - 1, t, t + 1, t + 2, t + 3]);
        // encoded length 5n/4 + 2 around t
        let n = (t - 2) * 4 / 5;
        sizes.extend(n.saturating_sub(3)..=n + 2);
    }
    sizes.sort();
    sizes.dedup();
    let mut sz_cases = vec![];
    for n in &sizes {
        for pl in [Plain::Xs { seed: 9, len: *n }, Plain::Run { byte: 0, len: *n }, Plain::Lcg { seed: 3, len: *n, mask: 0x80 }] {
            for use_z in [true, false] {
                sz_cases.push(a85_case("a85 sizes", pl.clone(), use_z, true, None));
            }
            for (line, eol) in [(64usize, &b"\n"[..]), (80, &b"\r\n"[..]), (255, &b"\r"[..])] {
                let mut st = Stage::plain(F::A85);
                st.enc = Enc::A85Wrap { use_z: true, line, eol: eol.to_vec() };
                sz_cases.push(Case::single("a85 sizes", st, Parms::None, pl.clone()));
            }
        }
    }
    util::par_for(sz_cases.len(), |i| {
        cx.check(&sz_cases[sz_cases.len() - 1 - i]);
    });
    run.add("a85_size_cases", sz_cases.len() as u64);
    run.sample(json!({"part": "3 ascii85", "case": ws_cases[ws_cases.len() / 2].to_json()}));
}

// ---------------------------------------------------------------------------------------------
// part 2: frames

const PIX: [u8; 5] = [0, 1, 127, 128, 255];

/// deterministic pixel data over PIX: variant `v` of `n` bytes
fn pix_data(n: usize, v: usize) -> Vec<u8> {
    let mut x = (v as u32).wrapping_mul(2654435761).wrapping_add(12345);
    (0..n)
        .map(|k| match v {
            0 => PIX[k % 5],
            1 => PIX[(k * 2 + k / 5) % 5],
            2 => PIX[4 - (k * 3 + k / 7) % 5],
            _ => {
                x = x.wrapping_mul(1664525).wrapping_add(1013904223);
                PIX[((x >> 16) % 5) as usize]
            }
        })
        .collect()
}

fn row_assignments(rows: usize) -> Vec<Vec<u8>> {
    (0..5usize.pow(rows as u32))
        .map(|mut idx| {
            (0..rows)
                .map(|_| {
                    let f = (idx % 5) as u8;
                    idx /= 5;
                    f
                })
                .collect()
        })
        .collect()
}

fn part2_frames(cx: &Ctx) {
    let run = cx.run;
    let variants = if run.thorough { 12 } else { 4 };
    let lzw_variants = if run.thorough { 4 } else { 1 };
    run.set(
        "frames_space",
        json!(format!(
            "Colors 1..4 x BitsPerComponent 8,16 x Columns 1..5 x rows 0..3 x all 5^rows filter assignments x {} pixel-data variants over {{0,1,127,128,255}} x Predictor 10..15 x DecodeParms dict/array, FlateDecode carrier; LZWDecode carrier for the first {} variant(s){}; Predictor 1/absent for every geometry; all 5^n pixel assignments for Colors 1, 8 bit, Columns 1..3, rows 1..2",
            variants, lzw_variants, if run.thorough { "" } else { " and Predictor 10 and 15 only" }
        )),
    );
    let mut geoms = vec![];
    for colors in 1..=4i64 {
        for bpc in [8i64, 16] {
            for columns in 1..=5i64 {
                for rows in 0..=3usize {
                    geoms.push((colors, bpc, columns, rows));
                }
            }
        }
    }
    let cases = AtomicU64::new(0);
    util::par_for(geoms.len(), |g| {
        let (colors, bpc, columns, rows) = geoms[g];
        let rb = rc::png_row_bytes(colors as usize, bpc as usize, columns as usize);
        let mut n = 0u64;
        for assign in row_assignments(rows) {
            for v in 0..variants {
                let data = pix_data(rb * rows, v);
                for carrier in [F::Flate, F::Lzw] {
                    for predictor in [10i64, 11, 12, 13, 14, 15] {
                        // lopdf's LZW path allocates a 16 MiB weezl buffer per call (~1 ms): the LZW
                        // carrier runs on a stated subset of the variants
                        if carrier == F::Lzw && !(v < lzw_variants && (run.thorough || predictor == 10 || predictor == 15)) {
                            continue;
                        }
                        for parms in [Parms::Dict, Parms::Array] {
                            let mut st = Stage::plain(carrier);
                            if carrier == F::Flate && v % 2 == 1 {
                                st.enc = Enc::Level(6);
                            }
                            st.pred = Some(Pred { predictor, colors, bpc, columns, rows: assign.clone(), omit_defaults: v == 2 });
                            let mut c = Case::single("frames", st, parms, Plain::of(&data));
                            // the dictionary form both with /Filter as a name and as a one-element array
                            c.filter_array = parms == Parms::Array || predictor % 2 == 1;
                            cx.check(&c);
                            n += 1;
                        }
                    }
                }
            }
        }
        // Predictor 1 and Predictor absent: the data is not row-filtered and must come back unchanged
        for v in 0..variants {
            let data = pix_data(rb * rows, v);
            for carrier in [F::Flate, F::Lzw] {
                for predictor in [1i64, -1] {
                    for parms in [Parms::Dict, Parms::Array] {
                        let mut st = Stage::plain(carrier);
                        st.pred = Some(Pred { predictor, colors, bpc, columns, rows: vec![], omit_defaults: false });
                        cx.check(&Case::single("frames no predictor", st, parms, Plain::of(&data)));
                        n += 1;
                    }
                }
            }
        }
        cases.fetch_add(n, Ordering::Relaxed);
    });
    run.add("frame_cases", cases.load(Ordering::Relaxed));
    run.add("frame_geometries", geoms.len() as u64);
    // every pixel assignment over PIX for the small frames (Colors 1, 8 bits, Columns 1..3, rows 1..2)
    let mut small = vec![];
    for columns in 1..=3usize {
        for rows in 1..=2usize {
            for assign in row_assignments(rows) {
                small.push((columns, rows, assign));
            }
        }
    }
    let small_n = AtomicU64::new(0);
    util::par_for(small.len(), |i| {
        let (columns, rows, assign) = &small[i];
        let nbytes = columns * rows;
        let mut n = 0;
        for mut idx in 0..5usize.pow(nbytes as u32) {
            let data: Vec<u8> = (0..nbytes)
                .map(|_| {
                    let b = PIX[idx % 5];
                    idx /= 5;
                    b
                })
                .collect();
            let mut st = Stage::plain(F::Flate);
            st.pred = Some(Pred { predictor: 15, colors: 1, bpc: 8, columns: *columns as i64, rows: assign.clone(), omit_defaults: false });
            cx.check(&Case::single("frames all pixels", st, Parms::Dict, Plain::of(&data)));
            n += 1;
        }
        small_n.fetch_add(n, Ordering::Relaxed);
    });
    run.add("frame_cases_all_pixel_assignments", small_n.load(Ordering::Relaxed));
    let mut st = Stage::plain(F::Lzw);
    st.pred = Some(Pred { predictor: 12, colors: 3, bpc: 16, columns: 2, rows: vec![4, 1, 2], omit_defaults: false });
    run.sample(json!({"part": "2 frames", "case": Case::single("frames", st, Parms::Array, Plain::of(&pix_data(36, 1))).to_json()}));
}

// ---------------------------------------------------------------------------------------------
// part 4: LZW

fn lzw_case(part: &str, plain: Plain, early: Option<i64>, clear_after: Option<u16>) -> Case {
    let mut st = Stage::plain(F::Lzw);
    st.early = early;
    st.enc = Enc::Lzw { clear_after };
    Case::single(part, st, if early.is_some() { Parms::Dict } else { Parms::None }, plain)
}

fn part4_lzw(cx: &Ctx) {
    let run = cx.run;
    let earlies = [None, Some(1i64), Some(0)];
    // (a) all strings over 3 symbols up to length 4 (as stated) and beyond
    let maxlen = if run.thorough { 8 } else { 6 };
    let syms = [0x00u8, b'a', 0xff];
    let mut strings: Vec<Vec<u8>> = vec![];
    for len in 0..=maxlen {
        strings.extend(vharness::gen::tuples(&syms, len));
    }
    util::par_for(strings.len(), |i| {
        for e in earlies {
            cx.check(&lzw_case("lzw strings", Plain::of(&strings[i]), e, None));
        }
    });
    run.add("lzw_strings_over_3_symbols", strings.len() as u64 * 3);
    run.set("lzw_strings_max_len", json!(maxlen));
    // (b) long deterministic inputs; for each, the prefixes that end while the table is at a
    // width switch or at the reset
    let run_len = 7_500_000usize;
    let gens: Vec<Plain> = vec![
        Plain::Pairs { len: 9000 },
        Plain::Lcg { seed: 1, len: 9000, mask: 0xff },
        Plain::Lcg { seed: 2, len: 120_000, mask: 0x01 },
        Plain::Lcg { seed: 3, len: 60_000, mask: 0x03 },
        Plain::Run { byte: b'a', len: run_len },
        Plain::Period { pat: b"ab".to_vec(), len: 3_000_000 },
        Plain::Period { pat: b"abc".to_vec(), len: 2_000_000 },
        Plain::Period { pat: vec![0, 0, 1, 0, 1, 1, 0], len: 1_000_000 },
        // incompressible data around and beyond 2^16 / 2^17 / 2^20 (the table is reset every ~4k bytes)
        Plain::Xs { seed: 4, len: 65_537 },
        Plain::Xs { seed: 5, len: 131_075 },
        Plain::Xs { seed: 6, len: (1 << 20) + 1 },
    ];
    let windows: Vec<u16> = [510u16, 1022, 2046, 4092].iter().flat_map(|e| *e..*e + 5).collect();
    let mut work: Vec<(usize, bool, usize)> = vec![]; // (generator, early, prefix length)
    let mut stats = vec![];
    for (gi, g) in gens.iter().enumerate() {
        let data = g.bytes();
        for early in [true, false] {
            let (_, st) = rc::lzw_encode_stats(&data, rc::LzwOpts::new(early), true);
            stats.push(json!({"input": g.to_json(), "early_change": early, "codes": st.codes, "clear_codes_after_the_first": st.clears,
                "max_code_width": st.max_width, "max_entry": st.max_entry, "codes_equal_to_newest_entry": st.newest_entry_codes}));
            work.push((gi, early, data.len()));
            let long = data.len() > 200_000;
            for (e, at) in &st.created_at {
                if windows.contains(e) {
                    // `at` = index of the byte that created entry e; prefixes ending just before/after it
                    let deltas: &[usize] = if long && !run.thorough { &[0, 1] } else { &[0, 1, 2, 3] };
                    for d in deltas {
                        if at + d <= data.len() {
                            work.push((gi, early, at + d));
                        }
                    }
                }
            }
            if data.len() <= 10_000 {
                // every prefix of the short inputs up to the first table reset and a little beyond
                for l in 0..data.len().min(4300) {
                    work.push((gi, early, l));
                }
            }
        }
    }
    work.sort();
    work.dedup();
    let datas: Vec<Vec<u8>> = gens.iter().map(|g| g.bytes()).collect();
    util::par_for(work.len(), |i| {
        let (gi, early, len) = work[i];
        let plain = &datas[gi][..len];
        // bulk path (no copy of the generator): encode, decode, compare
        let enc = rc::lzw_encode(plain, rc::LzwOpts::new(early));
        let mut d = Dictionary::new();
        d.set("Filter", Object::Name(b"LZWDecode".to_vec()));
        // EarlyChange 1 both explicit and by default
        if !early || len % 2 == 0 {
            let mut p = Dictionary::new();
            p.set("EarlyChange", Object::Integer(early as i64));
            d.set("DecodeParms", Object::Dictionary(p));
        }
        let explicit = !early || len % 2 == 0;
        let s = Stream::new(d, enc);
        run.eval(1);
        run.nontrivial(1);
        if !decode_stream(&s, plain, false).ok() {
            let pl = gens[gi].with_len(len);
            cx.confirm(&lzw_case("lzw long", pl, if explicit { Some(early as i64) } else { None }, None));
        }
    });
    run.add("lzw_long_prefix_cases", work.len() as u64);
    run.set("lzw_long_inputs", Value::Array(stats));
    // (c) clear-table at other legal moments
    let mut cc = vec![];
    for g in [Plain::Pairs { len: 9000 }, Plain::Lcg { seed: 2, len: 120_000, mask: 0x01 }, Plain::Run { byte: 0, len: 300_000 }] {
        for e in earlies {
            for ca in [258u16, 259, 300, 510, 511, 512, 513, 1023, 1024, 2047, 2048, 4093, 4094] {
                cc.push(lzw_case("lzw clear", g.clone(), e, Some(ca)));
            }
        }
    }
    // (d) sizes around 2^16 / 2^17 / 2^20 / 2^23 (whole inputs; generic path)
    let mut big = vec![];
    for e in earlies {
        for n in [65_535usize, 65_536, 65_537, 131_071, 131_072, 131_073, (1 << 20) - 1, 1 << 20, (1 << 20) + 1] {
            big.push(lzw_case("lzw sizes", Plain::Xs { seed: 7, len: n }, e, None));
            big.push(lzw_case("lzw sizes", Plain::Lcg { seed: 8, len: n, mask: 0x0f }, e, None));
        }
        big.push(lzw_case("lzw sizes", Plain::Run { byte: 0, len: (1 << 23) + 1 }, e, None));
        big.push(lzw_case("lzw sizes", Plain::Period { pat: b"ab".to_vec(), len: (1 << 22) + 3 }, e, None));
    }
    cc.extend(big.iter().cloned());
    util::par_for(cc.len(), |i| {
        cx.check(&cc[cc.len() - 1 - i]);
    });
    run.add("lzw_size_cases", big.len() as u64);
    run.add("lzw_clear_policy_cases", (cc.len() - big.len()) as u64);
    run.sample(json!({"part": "4 lzw", "case": cc[cc.len() / 2].to_json()}));
}

// ---------------------------------------------------------------------------------------------
// part 5: Flate

fn plain_menu() -> Vec<Plain> {
    vec![
        Plain::of(b""),
        Plain::of(&[0]),
        Plain::of(b"hello world hello world hello world"),
        Plain::Hex((0..=255u8).collect()),
        Plain::Run { byte: 0, len: 100 },
        Plain::Lcg { seed: 77, len: 1500, mask: 0xff },
    ]
}

fn part5_flate(cx: &Ctx) {
    let run = cx.run;
    let mut plains = plain_menu();
    for len in [65534usize, 65535, 65536, 65537, 131070, 131071, 200_000] {
        plains.push(Plain::Lcg { seed: len as u32, len, mask: 0xff });
        plains.push(Plain::Lcg { seed: len as u32, len, mask: 0x03 });
    }
    plains.push(Plain::Run { byte: b'a', len: 1_000_000 });
    plains.push(Plain::Period { pat: b"the quick brown fox ".to_vec(), len: 100_000 });
    let mut encs = vec![Enc::Stored(65535), Enc::Stored(1000), Enc::Stored(7), Enc::Stored(1)];
    encs.extend((0..=9).map(Enc::Level));
    let mut cases = vec![];
    for p in &plains {
        let n = p.bytes().len();
        for e in &encs {
            if matches!(e, Enc::Stored(b) if *b < 1000 && n > 5000) {
                continue;
            }
            let mut st = Stage::plain(F::Flate);
            st.enc = e.clone();
            cases.push(Case::single("flate", st.clone(), Parms::None, p.clone()));
            // with an Up/Sub/Paeth predictor in dictionary form (rows of 5 bytes)
            if n % 5 == 0 && n > 0 && n <= 1500 {
                st.pred = Some(Pred { predictor: 12, colors: 1, bpc: 8, columns: 5, rows: (0..n / 5).map(|r| [2u8, 1, 4, 0][r % 4]).collect(), omit_defaults: true });
                cases.push(Case::single("flate", st, Parms::Dict, p.clone()));
            }
        }
    }
    util::par_for(cases.len(), |i| {
        cx.check(&cases[i]);
    });
    run.add("flate_cases", cases.len() as u64);
    run.sample(json!({"part": "5 flate", "case": cases[cases.len() - 3].to_json()}));
}

// ---------------------------------------------------------------------------------------------
// part 6: all 40 chains

fn chains() -> Vec<Vec<F>> {
    let fs = [F::Flate, F::Lzw, F::A85];
    let mut out = vec![];
    // length 0 = the empty chain: /Filter [] is a legal way of saying "no filter"
    for len in 0..=3usize {
        for mut idx in 0..3usize.pow(len as u32) {
            out.push(
                (0..len)
                    .map(|_| {
                        let f = fs[idx % 3];
                        idx /= 3;
                        f
                    })
                    .collect(),
            );
        }
    }
    out
}

fn part6_chains(cx: &Ctx) {
    let run = cx.run;
    let chains = chains();
    if chains.len() != 40 {
        machinery("chain enumeration");
    }
    let plains = plain_menu();
    let mut cases = vec![];
    for ch in &chains {
        for (pi, p) in plains.iter().enumerate() {
            let n = p.bytes().len();
            let base: Vec<Stage> = ch
                .iter()
                .enumerate()
                .map(|(i, f)| {
                    let mut st = Stage::plain(*f);
                    if *f == F::Flate && (i + pi) % 2 == 1 {
                        st.enc = Enc::Level(9);
                    }
                    st
                })
                .collect();
            let mk = |stages: Vec<Stage>, parms: Parms, filter_array: bool| Case { part: "chains".into(), stages, filter_array, parms, plain: p.clone() };
            // no parameters; Filter as array (and as a name for single filters)
            cases.push(mk(base.clone(), Parms::None, true));
            if ch.len() == 1 {
                cases.push(mk(base.clone(), Parms::None, false));
            }
            // array of nulls / of default-valued dictionaries: legal and without effect
            cases.push(mk(base.clone(), Parms::Array, true));
            let mut dflt = base.clone();
            for st in dflt.iter_mut() {
                match st.f {
                    F::Flate => st.pred = Some(Pred { predictor: 1, colors: 1, bpc: 8, columns: 1, rows: vec![], omit_defaults: false }),
                    F::Lzw => st.early = Some(1),
                    F::A85 => {}
                }
            }
            cases.push(mk(dflt.clone(), Parms::Array, true));
            if ch.len() == 1 {
                cases.push(mk(dflt, Parms::Dict, false));
            }
            // non-default parameters: a predictor on the innermost (last) stage, on every single
            // Flate/LZW stage, on all of them; EarlyChange 0 on the LZW stages
            let pred_for = |len: usize, with_avg: bool| -> Option<Pred> {
                if len == 0 || len % 4 != 0 {
                    return None;
                }
                let cycle: &[u8] = if with_avg { &[4, 3, 2, 1, 0] } else { &[4, 2, 1, 0] };
                Some(Pred { predictor: 15, colors: 2, bpc: 16, columns: 1, rows: (0..len / 4).map(|r| cycle[r % cycle.len()]).collect(), omit_defaults: false })
            };
            for with_avg in [false, true] {
                // stage i's own plain length is known only for the last stage (= n); for earlier
                // stages the predictor runs over the encoded output of the later stages, so pad-free
                // geometry is only guaranteed for 1-byte rows: Colors 1, 8 bits, Columns 1
                for target in 0..ch.len() {
                    if ch[target] == F::A85 {
                        continue;
                    }
                    let mut st = base.clone();
                    if target == ch.len() - 1 {
                        match pred_for(n, with_avg) {
                            Some(p) => st[target].pred = Some(p),
                            None => continue,
                        }
                    } else {
                        let inner = Case { part: String::new(), stages: st[target + 1..].to_vec(), filter_array: true, parms: Parms::None, plain: p.clone() };
                        let len = inner.encode(&p.bytes()).len();
                        let cycle: &[u8] = if with_avg { &[1, 3, 4, 2, 0] } else { &[1, 4, 2, 0] };
                        st[target].pred = Some(Pred { predictor: 11, colors: 1, bpc: 8, columns: 1, rows: (0..len).map(|r| cycle[r % cycle.len()]).collect(), omit_defaults: true });
                    }
                    cases.push(mk(st.clone(), Parms::Array, true));
                    if ch.len() == 1 {
                        cases.push(mk(st.clone(), Parms::Dict, false));
                        cases.push(mk(st, Parms::Dict, true));
                    }
                }
            }
            if ch.contains(&F::Lzw) {
                for e in [0i64, 1] {
                    let mut st = base.clone();
                    for s in st.iter_mut() {
                        if s.f == F::Lzw {
                            s.early = Some(e);
                        }
                    }
                    cases.push(mk(st.clone(), Parms::Array, true));
                    if ch.len() == 1 {
                        cases.push(mk(st, Parms::Dict, false));
                    }
                }
            }
        }
    }
    util::par_for(cases.len(), |i| {
        cx.check(&cases[i]);
    });
    run.add("chains", chains.len() as u64);
    run.add("chain_cases", cases.len() as u64);
    run.sample(json!({"part": "6 chains", "case": cases[cases.len() * 2 / 3].to_json()}));
}

// ---------------------------------------------------------------------------------------------
// part 7: operation sequences (explicit-state BFS on the real Stream/Document next to a model)

static OPEN_FRONTIERS: AtomicU64 = AtomicU64::new(0);

#[derive(Clone, Copy, Debug, PartialEq)]
enum Op {
    SCompress,
    SDecompress,
    DCompress,
    DDecompress,
    SetContent(usize),
    SetPlain(usize),
}

impl Op {
    fn name(&self) -> String {
        match self {
            Op::SCompress => "Stream::compress".into(),
            Op::SDecompress => "Stream::decompress".into(),
            Op::DCompress => "Document::compress".into(),
            Op::DDecompress => "Document::decompress".into(),
            Op::SetContent(i) => format!("set_content:{}", i),
            Op::SetPlain(i) => format!("set_plain_content:{}", i),
        }
    }
    fn parse(s: &str) -> Op {
        let idx = |s: &str| s.split(':').nth(1).and_then(|x| x.parse().ok()).unwrap_or(0);
        match s {
            "Stream::compress" => Op::SCompress,
            "Stream::decompress" => Op::SDecompress,
            "Document::compress" => Op::DCompress,
            "Document::decompress" => Op::DDecompress,
            x if x.starts_with("set_content:") => Op::SetContent(idx(x)),
            x if x.starts_with("set_plain_content:") => Op::SetPlain(idx(x)),
            _ => machinery("replay: unknown operation"),
        }
    }
}

fn flate_best_len(data: &[u8]) -> usize {
    rc::zlib_flate2(data, 9).len()
}

/// contents: compressible, incompressible, empty, and three whose best zlib form saves exactly
/// 19, 20 and 21 bytes (found by a deterministic search; the threshold in Stream::compress is 19)
fn op_contents() -> Vec<(String, Vec<u8>)> {
    let mut out = vec![
        ("compressible".to_string(), Plain::Period { pat: b"the quick brown fox ".to_vec(), len: 1000 }.bytes()),
        ("incompressible".to_string(), lcg_bytes(99, 300, 0xff)),
        ("empty".to_string(), vec![]),
    ];
    for want in [19usize, 20, 21] {
        let mut found = None;
        'search: for tail in 0..40usize {
            for k in 1..400usize {
                let mut c = vec![b'a'; k];
                c.extend(lcg_bytes(5, tail, 0xff));
                let z = flate_best_len(&c);
                if c.len() >= z && c.len() - z == want {
                    found = Some(c);
                    break 'search;
                }
            }
        }
        match found {
            Some(c) => out.push((format!("saves {} bytes", want), c)),
            None => machinery("no content with the wanted saving found"),
        }
    }
    out
}

#[derive(Clone)]
struct OpState {
    doc: Document,
    plain: Vec<u8>,
    /// how the model believes the content is encoded now
    chain: Vec<Stage>,
    parms: Parms,
    filter_array: bool,
}

const SID: (u32, u16) = (1, 0);

fn fit_rows(chain: &[Stage], len: usize) -> Vec<Stage> {
    let mut c = chain.to_vec();
    if let Some(st) = c.last_mut() {
        if let Some(p) = st.pred.as_mut() {
            p.rows = (0..len / p.row_bytes().max(1)).map(|r| [2u8, 4, 1, 0][r % 4]).collect();
        }
    }
    c
}

fn op_start(c: &Case, allows: bool) -> OpState {
    let plain = c.plain.bytes();
    let mut s = if c.stages.is_empty() { Stream::new(Dictionary::new(), plain.clone()) } else { c.stream(c.encode(&plain)) };
    s.allows_compression = allows;
    let mut doc = Document::with_version("1.5");
    doc.objects.insert(SID, Object::Stream(s));
    doc.objects.insert((2, 0), Object::Integer(7));
    doc.max_id = 2;
    OpState { doc, plain, chain: c.stages.clone(), parms: c.parms, filter_array: c.filter_array }
}

fn the_stream(doc: &mut Document) -> &mut Stream {
    match doc.objects.get_mut(&SID) {
        Some(Object::Stream(s)) => s,
        _ => machinery("stream object vanished"),
    }
}

/// apply one operation to the real objects and to the model; returns the invariant violations
fn op_apply(st: &mut OpState, op: Op, menu: &[(String, Vec<u8>)]) -> Vec<String> {
    let mut bad = vec![];
    let before_len = the_stream(&mut st.doc).content.len();
    let before_written = if matches!(op, Op::SCompress | Op::DCompress) { doc_written_size(&st.doc) } else { 0 };
    let had_filter = the_stream(&mut st.doc).dict.has(b"Filter");
    match op {
        Op::SCompress | Op::DCompress => {
            let r = if op == Op::SCompress {
                util::guard(|| the_stream(&mut st.doc).compress().map_err(|e| e.to_string()))
            } else {
                util::guard(|| {
                    st.doc.compress();
                    Ok(())
                })
            };
            match r {
                Err(p) => bad.push(p),
                Ok(Err(e)) => bad.push(format!("compress returned Err: {}", e)),
                Ok(Ok(())) => {}
            }
            let after_written = doc_written_size(&st.doc);
            if after_written > before_written {
                bad.push(format!("compress made the file holding the stream longer: {} -> {} bytes", before_written, after_written));
            }
            let s = the_stream(&mut st.doc);
            if s.content.len() > before_len {
                bad.push(format!("compress made the content longer: {} -> {} bytes", before_len, s.content.len()));
            }
            if !had_filter && s.dict.has(b"Filter") {
                // the stream chose to compress: it must say so with FlateDecode and no parameters
                let f = s.filters().map(|v| v.iter().map(|n| n.to_vec()).collect::<Vec<_>>()).unwrap_or_default();
                if f != vec![b"FlateDecode".to_vec()] || s.dict.has(b"DecodeParms") {
                    bad.push(format!("compress produced an unexpected dictionary: {}", vharness::objjson::show_dict(&s.dict)));
                }
                st.chain = vec![Stage::plain(F::Flate)];
                st.parms = Parms::None;
                st.filter_array = false;
            }
        }
        Op::SDecompress => {
            let r = util::guard(|| the_stream(&mut st.doc).decompress().map_err(|e| e.to_string()));
            match r {
                Err(p) => bad.push(p),
                Ok(Err(e)) => {
                    if !st.chain.is_empty() {
                        bad.push(format!("decompress of a validly encoded stream returned Err: {}", e));
                    }
                }
                Ok(Ok(())) => st.chain.clear(),
            }
        }
        Op::DDecompress => {
            if let Err(p) = util::guard(|| st.doc.decompress()) {
                bad.push(p);
            }
            if !the_stream(&mut st.doc).dict.has(b"Filter") {
                st.chain.clear();
            }
        }
        Op::SetContent(i) => {
            // raw content: the caller supplies bytes encoded for the filters the dictionary names
            let p = &menu[i].1;
            let chain = fit_rows(&st.chain, p.len());
            let c = Case { part: String::new(), stages: chain.clone(), filter_array: st.filter_array, parms: st.parms, plain: Plain::Hex(vec![]) };
            let content = c.encode(p);
            if let Err(e) = util::guard(|| the_stream(&mut st.doc).set_content(content)) {
                bad.push(e);
            }
            st.chain = chain;
            st.plain = p.clone();
        }
        Op::SetPlain(i) => {
            let p = menu[i].1.clone();
            if let Err(e) = util::guard(|| the_stream(&mut st.doc).set_plain_content(p.clone())) {
                bad.push(e);
            }
            st.chain.clear();
            st.plain = p;
        }
    }
    if st.chain.is_empty() {
        st.parms = Parms::None;
    }
    // invariants in the reached state
    let plain = st.plain.clone();
    let s = the_stream(&mut st.doc);
    match s.dict.get(b"Length") {
        Ok(Object::Integer(n)) if *n == s.content.len() as i64 => {}
        other => bad.push(format!("dict[Length] = {:?} but content.len() = {}", other.ok(), s.content.len())),
    }
    match util::guard(|| s.get_plain_content()) {
        Err(p) => bad.push(p),
        Ok(Err(e)) => bad.push(format!("get_plain_content returned Err: {}", e)),
        Ok(Ok(d)) => {
            if let Res::Mismatch { .. } = compare(&d, &plain) {
                bad.push(format!("get_plain_content: {}", compare(&d, &plain).describe()));
            }
        }
    }
    bad
}

fn op_key(st: &OpState) -> Vec<u8> {
    let mut d = st.doc.clone();
    let s = the_stream(&mut d);
    let mut k = vharness::objjson::dict_to_json(&s.dict).to_string().into_bytes();
    k.push(s.allows_compression as u8);
    k.extend_from_slice(&(s.content.len() as u64).to_le_bytes());
    k.extend_from_slice(&s.content);
    k.extend_from_slice(&st.plain);
    k.push(st.chain.len() as u8);
    k
}

fn ops_json(start: &Case, allows: bool, menu: &[(String, Vec<u8>)], path: &[Op]) -> Value {
    json!({"kind": "ops", "start": start.to_json(), "allows_compression": allows,
        "content_menu": menu.iter().map(|(n, b)| json!({"name": n, "hex": hex(b)})).collect::<Vec<_>>(),
        "ops": path.iter().map(|o| o.name()).collect::<Vec<_>>()})
}

fn op_starts(menu: &[(String, Vec<u8>)]) -> Vec<(Case, bool)> {
    let mut out = vec![];
    for (_, content) in menu {
        let mut encodings: Vec<(Vec<Stage>, Parms, bool)> = vec![
            (vec![], Parms::None, false),
            (vec![Stage::plain(F::Flate)], Parms::None, false),
            (vec![Stage { enc: Enc::Level(9), ..Stage::plain(F::Flate) }], Parms::None, true),
            (vec![Stage::plain(F::Lzw)], Parms::None, false),
            (vec![Stage::plain(F::A85), Stage::plain(F::Flate)], Parms::None, true),
        ];
        let mut pst = Stage::plain(F::Flate);
        pst.pred = Some(Pred { predictor: 12, colors: 1, bpc: 8, columns: 1, rows: vec![], omit_defaults: false });
        encodings.push((fit_rows(&[pst], content.len()), Parms::Dict, false));
        for (stages, parms, fa) in encodings {
            for allows in [true, false] {
                out.push((Case { part: "ops".into(), stages: stages.clone(), filter_array: fa, parms, plain: Plain::of(content) }, allows));
            }
        }
    }
    out
}

fn start_state(c: &Case, allows: bool) -> OpState {
    op_start(c, allows)
}

fn part7_ops(cx: &Ctx) {
    let run = cx.run;
    let menu = op_contents();
    let savings: Vec<Value> = menu
        .iter()
        .map(|(n, b)| {
            let mut s = Stream::new(Dictionary::new(), b.clone());
            let _ = s.compress();
            json!({"name": n, "len": b.len(), "best_zlib_len": flate_best_len(b), "stream_compress_applies": s.dict.has(b"Filter")})
        })
        .collect();
    run.set("op_content_menu", Value::Array(savings));
    let mut ops = vec![Op::SCompress, Op::SDecompress, Op::DCompress, Op::DDecompress];
    for i in 0..menu.len() {
        ops.push(Op::SetContent(i));
        ops.push(Op::SetPlain(i));
    }
    let starts = op_starts(&menu);
    let depth = if run.thorough { 5 } else { 3 };
    let compressed_seen = AtomicU64::new(0);
    let open_frontiers = &OPEN_FRONTIERS;
    util::par_for(starts.len(), |si| {
        let (sc, allows) = &starts[si];
        let s0 = start_state(sc, *allows);
        let mut seen = std::collections::HashSet::new();
        seen.insert(op_key(&s0));
        let mut frontier: Vec<(Vec<Op>, OpState)> = vec![(vec![], s0)];
        for _ in 0..depth {
            let mut next = vec![];
            for (path, st) in &frontier {
                for op in &ops {
                    let mut n = st.clone();
                    let mut p = path.clone();
                    p.push(*op);
                    run.eval(1);
                    run.add_transitions(1);
                    let was_plain = st.chain.is_empty();
                    let bad = op_apply(&mut n, *op, &menu);
                    if matches!(op, Op::SCompress | Op::DCompress) && was_plain && !n.chain.is_empty() {
                        compressed_seen.fetch_add(1, Ordering::Relaxed);
                    }
                    if bad.is_empty() {
                        run.add_traces(1);
                    } else {
                        cx.failed.fetch_add(1, Ordering::Relaxed);
                        run.fail(None, ops_json(sc, *allows, &menu, &p), &bad.join("; "),
                            "dict[Length] == content.len(), get_plain_content() == model plain content, compress never lengthens the content");
                    }
                    if seen.insert(op_key(&n)) {
                        next.push((p, n));
                    }
                }
            }
            frontier = next;
        }
        if !frontier.is_empty() {
            open_frontiers.fetch_add(1, Ordering::Relaxed);
        }
        run.add_states(seen.len() as u64);
        run.nontrivial(seen.len() as u64 - 1);
    });
    run.add("op_start_states", starts.len() as u64);
    run.add("op_compress_transitions_that_compressed", compressed_seen.load(Ordering::Relaxed));
    run.set("op_depth", json!(depth));
    run.add("op_starts_with_unexplored_frontier_at_depth_bound", open_frontiers.load(Ordering::Relaxed));
    run.sample(ops_json(&starts[57].0, starts[57].1, &menu, &[Op::SDecompress, Op::SetPlain(4), Op::DCompress]));
}

fn replay_ops(case: &Value) -> Vec<String> {
    let sc = Case::from_json(&case["start"]);
    let menu: Vec<(String, Vec<u8>)> = case["content_menu"]
        .as_array()
        .map(|a| a.iter().map(|m| (m["name"].as_str().unwrap_or("").to_string(), unhex(m["hex"].as_str().unwrap_or("")))).collect())
        .unwrap_or_default();
    let mut st = start_state(&sc, case["allows_compression"].as_bool().unwrap_or(true));
    let mut all = vec![];
    for o in case["ops"].as_array().unwrap_or_else(|| machinery("replay: no ops")) {
        let op = Op::parse(o.as_str().unwrap_or(""));
        let bad = op_apply(&mut st, op, &menu);
        let s = the_stream(&mut st.doc);
        println!("after {:<24} dict={} content.len()={} violations={:?}", op.name(), vharness::objjson::show_dict(&s.dict), s.content.len(), bad);
        all.extend(bad);
    }
    all
}

// ---------------------------------------------------------------------------------------------
// part 8: Flate size boundaries, decode direction

fn flate_case(part: &str, plain: Plain, enc: Enc) -> Case {
    let mut st = Stage::plain(F::Flate);
    st.enc = enc;
    Case::single(part, st, Parms::None, plain)
}

fn flate_encode(enc: &Enc, data: &[u8]) -> Vec<u8> {
    let mut st = Stage::plain(F::Flate);
    st.enc = enc.clone();
    st.encode(data)
}

/// Smallest prefix length n of `data` (found by bisection; the encoded length is not strictly
/// monotone, so this is *a* crossing) with encoded length > target while n-1 gives <= target.
fn len_crossing(data: &[u8], enc: &Enc, target: usize) -> Option<usize> {
    let c = |n: usize| flate_encode(enc, &data[..n]).len();
    // estimate the ratio on a sample to start from a narrow bracket
    let sample = data.len().min(target.max(4096));
    let est = ((target as f64 * sample as f64 / c(sample) as f64) as usize).min(data.len());
    let est = ((target as f64 * est as f64 / c(est).max(1) as f64) as usize).min(data.len());
    let (mut lo, mut hi) = ((est - est / 50).min(data.len()), (est + est / 50 + 64).min(data.len()));
    if c(lo) > target {
        lo = 0;
    }
    if c(hi) <= target {
        hi = data.len();
        if c(hi) <= target {
            return None;
        }
    }
    while hi - lo > 1 {
        let mid = lo + (hi - lo) / 2;
        if c(mid) > target {
            hi = mid;
        } else {
            lo = mid;
        }
    }
    Some(hi)
}

fn part8_flate_sizes(cx: &Ctx) {
    let run = cx.run;
    let mut cases: Vec<Case> = vec![];
    // (a) expansion ratio: constant runs and short periods of 2^20 .. 2^23 bytes and beyond; deflate
    // reaches 1032:1 in the limit (258 bytes per 2 bits), flate2's best level gets past 1024:1 at ~4 MiB
    let m = 1usize << 20;
    // (beyond 8 MiB: runs of zero bytes only - output lengths past 2^24, 2^25, 2^26; 2^27 and 2^28 in the thorough tier)
    let mut big_sizes = vec![m - 1, m, m + 1, 2 * m, 2 * m + 1, 3 * m, 4 * m - 1, 4 * m, 4 * m + 1, 5 * m + 7, 8 * m, 8 * m + 1, 16 * m + 1, 32 * m + 1, 64 * m + 1];
    if run.thorough {
        big_sizes.extend([128 * m + 1, 256 * m + 1]);
    }
    for (k, n) in big_sizes.iter().enumerate() {
        for lvl in [9u32, 6, 1] {
            cases.push(flate_case("flate ratio", Plain::Run { byte: 0, len: *n }, Enc::Level(lvl)));
        }
        if *n > 8 * m + 1 {
            continue;
        }
        let others = [
            Plain::Run { byte: 0xff, len: *n },
            Plain::Run { byte: b'a', len: *n },
            Plain::Period { pat: b"ab".to_vec(), len: *n },
            Plain::Period { pat: vec![0, 0, 1], len: *n },
            Plain::Period { pat: vec![0, 0, 1, 0, 1, 1, 0], len: *n },
        ];
        for (j, pl) in others.iter().enumerate() {
            cases.push(flate_case("flate ratio", pl.clone(), Enc::Level(9)));
            if (j + k) % 2 == 0 {
                cases.push(flate_case("flate ratio", pl.clone(), Enc::Level(if j % 2 == 0 { 6 } else { 1 })));
            }
        }
    }
    let n_ratio = cases.len();
    // (b) output length around every power of two 2^9 .. 2^19, compressible and incompressible
    for k in 9..=19u32 {
        for d in [-1i64, 0, 1] {
            let n = ((1i64 << k) + d) as usize;
            for pl in [Plain::Run { byte: 0, len: n }, Plain::Period { pat: b"the quick brown fox ".to_vec(), len: n }, Plain::Xs { seed: 11, len: n }] {
                for enc in [Enc::Level(1), Enc::Level(6), Enc::Level(9), Enc::Stored(65535)] {
                    cases.push(flate_case("flate output sizes", pl.clone(), enc));
                }
            }
        }
    }
    // (c) every legal zlib header in front of stored blocks
    for cinfo in 0..8u8 {
        for flevel in 0..4u8 {
            for pl in [Plain::of(b""), Plain::of(b"hello world"), Plain::Xs { seed: 12, len: 70_000 }] {
                cases.push(flate_case("flate zlib header", pl, Enc::StoredW { block: 65535, cinfo, flevel }));
            }
        }
    }
    // (d) rows wider than 2^16 bytes behind a predictor (Flate carrier; one LZW carrier)
    let wide: [(i64, i64, i64); 9] = [(1, 8, 65_535), (1, 8, 65_536), (1, 8, 65_537), (3, 8, 21_846), (4, 16, 8_192), (4, 16, 8_193), (2, 16, 65_537), (1, 8, (1 << 20) + 1), (4, 16, 131_073)];
    for (gi, (colors, bpc, columns)) in wide.iter().enumerate() {
        let rb = rc::png_row_bytes(*colors as usize, *bpc as usize, *columns as usize);
        let rows: Vec<u8> = vec![1, 2, 3, 4, 0, 2, 4, 3, 1];
        let rows: Vec<u8> = if rb > (1 << 20) { rows[..5].to_vec() } else { rows };
        for (carrier, parms) in [(F::Flate, Parms::Dict), (F::Flate, Parms::Array), (F::Lzw, Parms::Dict)] {
            if carrier == F::Lzw && gi % 4 != 2 {
                continue;
            }
            let mut st = Stage::plain(carrier);
            if carrier == F::Flate {
                st.enc = Enc::Level(6);
            }
            st.pred = Some(Pred { predictor: 15, colors: *colors, bpc: *bpc, columns: *columns, rows: rows.clone(), omit_defaults: false });
            cases.push(Case::single("flate wide rows", st, parms, Plain::Lcg { seed: 21 + gi as u32, len: rb * rows.len(), mask: 0x1f }));
        }
    }
    // (e) compressed length straddling 2^12 .. 2^17 (and 2^18, 2^20 for stored blocks): the plain length
    // is found by bisection so that the encoded stream is just below / at / above the boundary
    let mut combos: Vec<(Plain, Enc, usize)> = vec![];
    for t in [4096usize, 8192, 16384, 32768, 65536, 131072, 262144, 1 << 20] {
        for blk in [65535usize, 32768, 4096] {
            combos.push((Plain::Xs { seed: 13, len: 0 }, Enc::Stored(blk), t));
        }
        if t > 131072 {
            continue;
        }
        for lvl in [0u32, 1, 6, 9] {
            combos.push((Plain::Xs { seed: 14, len: 0 }, Enc::Level(lvl), t));
            if lvl == 0 {
                continue;
            }
            if lvl == 9 && t > 65536 {
                continue;
            }
            combos.push((Plain::Lcg { seed: 15, len: 0, mask: 0x0f }, Enc::Level(lvl), t));
            if t <= 65536 {
                combos.push((Plain::Lcg { seed: 16, len: 0, mask: 0x03 }, Enc::Level(lvl), t));
            }
        }
    }
    let found = std::sync::Mutex::new(Vec::<(usize, usize, usize)>::new());
    let t_bisect = run.elapsed();
    util::par_for(combos.len(), |i| {
        let (g, enc, t) = &combos[combos.len() - 1 - i];
        let data = g.with_len(t * 6 + 4096).bytes();
        match len_crossing(&data, enc, *t) {
            None => machinery(&format!("no length of {} reaches an encoded size of {}", g.to_json(), t)),
            Some(n) => {
                let before = flate_encode(enc, &data[..n - 1]).len();
                let at = flate_encode(enc, &data[..n]).len();
                if !(before <= *t && at > *t) {
                    machinery("bisection did not find a crossing");
                }
                found.lock().unwrap().push((combos.len() - 1 - i, n, before));
            }
        }
    });
    let mut found = found.into_inner().unwrap();
    found.sort();
    run.set("flate_boundary_bisection_wall_s", json!(((run.elapsed() - t_bisect) * 100.0).round() / 100.0));
    let mut exact = 0u64;
    let mut boundary_log = vec![];
    for (ci, n, before) in &found {
        let (g, enc, t) = &combos[*ci];
        if before == t {
            exact += 1;
        }
        if boundary_log.len() < 12 || *t == 32768 {
            boundary_log.push(json!({"plain": g.to_json(), "encoder": format!("{:?}", enc), "boundary": t, "first_len_above": n, "encoded_len_one_below": before}));
        }
        for d in [-3i64, -2, -1, 0, 1, 2] {
            let len = (*n as i64 + d).max(0) as usize;
            cases.push(flate_case("flate compressed-size boundary", g.with_len(len), enc.clone()));
        }
    }
    run.add("flate_boundary_combinations", combos.len() as u64);
    run.add("flate_boundary_combinations_hitting_the_boundary_exactly", exact);
    run.set("flate_compressed_size_boundaries", Value::Array(boundary_log));
    // run: largest first
    let mut order: Vec<usize> = (0..cases.len()).collect();
    order.sort_by_key(|i| std::cmp::Reverse(cases[*i].plain.len()));
    let above_1024 = AtomicU64::new(0);
    let max_ratio_milli = AtomicU64::new(0);
    let enc_over_32k = AtomicU64::new(0);
    util::par_for(order.len(), |k| {
        let c = &cases[order[k]];
        run.eval(1);
        descriptor_roundtrip(c);
        let plain = c.plain.bytes();
        let content = c.encode(&plain);
        if content != plain {
            run.nontrivial(1);
        }
        if !content.is_empty() && order[k] < n_ratio {
            let r = plain.len() as u64 * 1000 / content.len() as u64;
            max_ratio_milli.fetch_max(r, Ordering::Relaxed);
            if plain.len() > 1024 * content.len() {
                above_1024.fetch_add(1, Ordering::Relaxed);
            }
        }
        if content.len() > 32768 {
            enc_over_32k.fetch_add(1, Ordering::Relaxed);
        }
        let s = c.stream(content);
        let res = decode_stream(&s, &plain, false);
        drop(s);
        drop(plain);
        if !res.ok() {
            cx.report(c, &res);
        }
    });
    run.add("flate_size_cases", cases.len() as u64);
    run.add("flate_ratio_cases", n_ratio as u64);
    run.add("flate_ratio_cases_expanding_more_than_1024_to_1", above_1024.load(Ordering::Relaxed));
    run.set("flate_max_expansion_ratio", json!(max_ratio_milli.load(Ordering::Relaxed) as f64 / 1000.0));
    run.add("flate_size_cases_with_encoded_length_above_32768", enc_over_32k.load(Ordering::Relaxed));
    if above_1024.load(Ordering::Relaxed) == 0 {
        machinery("the ratio family no longer reaches 1024:1");
    }
    run.sample(json!({"part": "8 flate sizes", "case": cases[order[0]].to_json()}));
    run.sample(json!({"part": "8 flate sizes", "case": cases[cases.len() - 1].to_json()}));
}

// ---------------------------------------------------------------------------------------------
// part 9: compression of large and boundary-sized content through every entry point that compresses

#[derive(Clone, Copy, Debug, PartialEq)]
enum Via {
    SCompress,
    DCompress,
    ChangeContentStream,
    ChangePageContent,
    XobjectForm,
}

const VIAS: [Via; 5] = [Via::SCompress, Via::DCompress, Via::ChangeContentStream, Via::ChangePageContent, Via::XobjectForm];

impl Via {
    fn name(self) -> &'static str {
        match self {
            Via::SCompress => "Stream::compress",
            Via::DCompress => "Document::compress",
            Via::ChangeContentStream => "Document::change_content_stream",
            Via::ChangePageContent => "Document::change_page_content",
            Via::XobjectForm => "xobject::form",
        }
    }
    fn parse(s: &str) -> Via {
        VIAS.iter().copied().find(|v| v.name() == s).unwrap_or_else(|| machinery("replay: unknown entry point"))
    }
}

/// a DecodeParms entry on a stream that has NO Filter entry (legal, and without meaning there)
#[derive(Clone, Debug, PartialEq)]
struct Stale {
    predictor: Option<i64>,
    columns: i64,
    early: Option<i64>,
    array: bool,
}

impl Stale {
    fn object(&self) -> Object {
        let mut d = Dictionary::new();
        if let Some(p) = self.predictor {
            d.set("Predictor", Object::Integer(p));
            d.set("Columns", Object::Integer(self.columns));
        }
        if let Some(e) = self.early {
            d.set("EarlyChange", Object::Integer(e));
        }
        if self.array {
            Object::Array(vec![Object::Dictionary(d)])
        } else {
            Object::Dictionary(d)
        }
    }
    fn to_json(&self) -> Value {
        json!({"Predictor": self.predictor, "Columns": self.columns, "EarlyChange": self.early, "as_array": self.array})
    }
    fn from_json(v: &Value) -> Option<Stale> {
        if v.is_null() {
            return None;
        }
        Some(Stale { predictor: v["Predictor"].as_i64(), columns: v["Columns"].as_i64().unwrap_or(1), early: v["EarlyChange"].as_i64(), array: v["as_array"].as_bool().unwrap_or(false) })
    }
}

#[derive(Clone, Debug, PartialEq)]
struct CompCase {
    part: String,
    plain: Plain,
    via: Via,
    /// DecodeParms present on the unfiltered start stream (Stream::compress / Document::compress only)
    stale: Option<Stale>,
}

impl CompCase {
    fn to_json(&self) -> Value {
        json!({"kind": "compress", "part": self.part, "plain": self.plain.to_json(), "via": self.via.name(),
            "decodeparms_without_filter": self.stale.as_ref().map(|s| s.to_json())})
    }
    fn from_json(v: &Value) -> CompCase {
        CompCase { part: v["part"].as_str().unwrap_or("").into(), plain: Plain::from_json(&v["plain"]), via: Via::parse(v["via"].as_str().unwrap_or("")), stale: Stale::from_json(&v["decodeparms_without_filter"]) }
    }
}

struct CountSink(usize);
impl std::io::Write for CountSink {
    fn write(&mut self, b: &[u8]) -> std::io::Result<usize> {
        self.0 += b.len();
        Ok(b.len())
    }
    fn flush(&mut self) -> std::io::Result<()> {
        Ok(())
    }
}

/// size of a one-object file holding `s`, written by lopdf with a classic cross-reference table:
/// differs between two streams by exactly the difference of their written forms (plus possibly
/// fewer digits in the startxref offset of the shorter one)
fn written_size(s: &Stream) -> usize {
    let mut d = Document::with_version("1.5");
    d.reference_table.cross_reference_type = lopdf::xref::XrefType::CrossReferenceTable;
    d.objects.insert((1, 0), Object::Stream(s.clone()));
    d.max_id = 1;
    let mut sink = CountSink(0);
    if d.save_to(&mut sink).is_err() {
        machinery("save_to a counting sink failed");
    }
    sink.0
}

fn doc_written_size(doc: &Document) -> usize {
    let mut d = doc.clone();
    d.reference_table.cross_reference_type = lopdf::xref::XrefType::CrossReferenceTable;
    let mut sink = CountSink(0);
    if d.save_to(&mut sink).is_err() {
        machinery("save_to a counting sink failed");
    }
    sink.0
}

fn length_ok(s: &Stream) -> Result<(), String> {
    match s.dict.get(b"Length") {
        Ok(Object::Integer(n)) if *n == s.content.len() as i64 => Ok(()),
        other => Err(format!("dict[Length] = {:?} but content.len() = {}", other.ok(), s.content.len())),
    }
}

struct CompOut {
    bad: Vec<String>,
    /// the stream after the compressing call (None when the call itself failed)
    after: Option<Stream>,
    applied: bool,
}

fn comp_run(c: &CompCase) -> CompOut {
    let plain = c.plain.bytes();
    let mut bad = vec![];
    let mut start_dict = Dictionary::new();
    if let Some(st) = &c.stale {
        start_dict.set("DecodeParms", st.object());
    }
    let sid = (1u32, 0u16);
    let pid = (2u32, 0u16);
    let mk_doc = |s: Stream| {
        let mut doc = Document::with_version("1.5");
        doc.objects.insert(sid, Object::Stream(s));
        let mut page = Dictionary::new();
        page.set("Type", Object::Name(b"Page".to_vec()));
        page.set("Contents", Object::Reference(sid));
        doc.objects.insert(pid, Object::Dictionary(page));
        doc.max_id = 2;
        doc
    };
    let take = |doc: &mut Document| match doc.objects.remove(&sid) {
        Some(Object::Stream(s)) => Ok(s),
        _ => Err("the stream object is gone".to_string()),
    };
    let r: Result<Result<Stream, String>, String> = match c.via {
        Via::SCompress => util::guard(|| {
            let mut s = Stream::new(start_dict.clone(), plain.clone());
            s.compress().map_err(|e| format!("compress returned Err: {}", e))?;
            Ok(s)
        }),
        Via::DCompress => util::guard(|| {
            let mut doc = mk_doc(Stream::new(start_dict.clone(), plain.clone()));
            doc.compress();
            take(&mut doc)
        }),
        Via::ChangeContentStream => util::guard(|| {
            let mut doc = mk_doc(Stream::new(start_dict.clone(), b"q Q".to_vec()));
            doc.change_content_stream(sid, plain.clone());
            take(&mut doc)
        }),
        Via::ChangePageContent => util::guard(|| {
            let mut doc = mk_doc(Stream::new(start_dict.clone(), b"q Q".to_vec()));
            doc.change_page_content(pid, plain.clone()).map_err(|e| format!("change_page_content returned Err: {}", e))?;
            take(&mut doc)
        }),
        Via::XobjectForm => util::guard(|| Ok(lopdf::xobject::form(vec![0.0, 0.0, 10.0, 10.0], vec![1.0, 0.0, 0.0, 1.0, 0.0, 0.0], plain.clone()))),
    };
    let after = match r {
        Err(p) => {
            bad.push(p);
            return CompOut { bad, after: None, applied: false };
        }
        Ok(Err(e)) => {
            bad.push(e);
            return CompOut { bad, after: None, applied: false };
        }
        Ok(Ok(s)) => s,
    };
    let applied = after.dict.has(b"Filter");
    // the uncompressed form of the same stream: the start stream, or (entry points that build the
    // dictionary themselves) the resulting dictionary without the entries compress() adds
    let reference = match c.via {
        Via::SCompress | Via::DCompress => Stream::new(start_dict.clone(), plain.clone()),
        _ => {
            let mut d = after.dict.clone();
            d.remove(b"Filter");
            d.remove(b"DecodeParms");
            Stream::new(d, plain.clone())
        }
    };
    if after.content.len() > plain.len() {
        bad.push(format!("compress made the content longer: {} -> {} bytes", plain.len(), after.content.len()));
    }
    let (wa, wr) = (written_size(&after), written_size(&reference));
    if wa > wr {
        bad.push(format!("compress made the stream object longer as written: {} -> {} bytes", wr, wa));
    }
    if let Err(e) = length_ok(&after) {
        bad.push(e);
    }
    if applied {
        let f = after.filters().map(|v| v.iter().map(|n| n.to_vec()).collect::<Vec<_>>()).unwrap_or_default();
        if f != vec![b"FlateDecode".to_vec()] {
            bad.push(format!("compress produced an unexpected Filter: {}", vharness::objjson::show_dict(&after.dict)));
        }
        match util::guard(|| after.decompressed_content()) {
            Err(p) => bad.push(p),
            Ok(Err(e)) => bad.push(format!("decompressed_content of the compressed stream returned Err: {}", e)),
            Ok(Ok(d)) => {
                if d != plain {
                    bad.push(format!("decompressed_content of the compressed stream: {}", compare(&d, &plain).describe()));
                }
            }
        }
    } else if after.content != plain {
        bad.push(format!("stream left without Filter but its content changed: {}", compare(&after.content, &plain).describe()));
    }
    match util::guard(|| after.get_plain_content()) {
        Err(p) => bad.push(p),
        Ok(Err(e)) => bad.push(format!("get_plain_content returned Err: {}", e)),
        Ok(Ok(d)) => {
            if d != plain {
                bad.push(format!("get_plain_content: {}", compare(&d, &plain).describe()));
            }
        }
    }
    // and back: Stream::decompress and Document::decompress
    for doc_level in [false, true] {
        let what = if doc_level { "Document::decompress" } else { "Stream::decompress" };
        let r = util::guard(|| {
            if doc_level {
                let mut doc = mk_doc(after.clone());
                doc.decompress();
                take(&mut doc)
            } else {
                let mut s = after.clone();
                match s.decompress() {
                    Ok(()) => Ok(s),
                    // a stream without Filter answers with an error and stays as it is
                    Err(_) if !applied => Ok(s),
                    Err(e) => Err(format!("returned Err: {}", e)),
                }
            }
        });
        match r {
            Err(p) => bad.push(format!("{}: {}", what, p)),
            Ok(Err(e)) => bad.push(format!("{} {}", what, e)),
            Ok(Ok(s)) => {
                if let Err(e) = length_ok(&s) {
                    bad.push(format!("after {}: {}", what, e));
                }
                if s.dict.has(b"Filter") {
                    // Document::decompress ignores errors: the stream must then still decode
                    match util::guard(|| s.get_plain_content()) {
                        Ok(Ok(d)) if d == plain => {}
                        _ => bad.push(format!("after {}: the stream still has a Filter and does not decode to the original bytes", what)),
                    }
                } else if s.content != plain {
                    bad.push(format!("after {}: {}", what, compare(&s.content, &plain).describe()));
                }
            }
        }
    }
    CompOut { bad, after: Some(after), applied }
}

/// `compress-stale-decodeparms`: the unfiltered start stream carried a DecodeParms entry naming a
/// PNG predictor; compress() added /Filter /FlateDecode next to it; the compressed stream decodes
/// to the original bytes once that entry is taken out; and the same case without the entry passes.
fn classify_comp(c: &CompCase, out: &CompOut) -> Option<&'static str> {
    let st = c.stale.as_ref()?;
    if !matches!(c.via, Via::SCompress | Via::DCompress) || !st.predictor.map(|p| (10..=15).contains(&p)).unwrap_or(false) {
        return None;
    }
    let after = out.after.as_ref()?;
    if !(out.applied && after.dict.has(b"DecodeParms")) {
        return None;
    }
    // every complaint must be about decoding, none about lengths
    if out.bad.iter().any(|b| b.contains("longer") || b.contains("Length") || b.contains("unexpected Filter")) {
        return None;
    }
    let mut fixed = after.clone();
    fixed.dict.remove(b"DecodeParms");
    let plain = c.plain.bytes();
    if !matches!(util::guard(|| fixed.decompressed_content()), Ok(Ok(d)) if d == plain) {
        return None;
    }
    let mut n = c.clone();
    n.stale = None;
    if !comp_run(&n).bad.is_empty() {
        return None;
    }
    Some("compress-stale-decodeparms")
}

const COMP_EXPECT: &str = "after compressing: content and written stream object not longer than before, dict[Length] == content.len(), decoding (decompressed_content, get_plain_content, Stream::decompress, Document::decompress) returns the original bytes";

fn part9_compress(cx: &Ctx) {
    let run = cx.run;
    let m = 1usize << 20;
    let mut cases: Vec<CompCase> = vec![];
    let mut push = |part: &str, plain: Plain, vias: &[Via]| {
        for v in vias {
            cases.push(CompCase { part: part.into(), plain: plain.clone(), via: *v, stale: None });
        }
    };
    // (a) incompressible content: zlib's stored-block framing makes the best zlib form LONGER than the
    // content, by 11 bytes up to ~32 KiB and 5 more for each further block
    let mut sizes: Vec<usize> = vec![0, 1, 19, 20, 21, 1000, 40_000, 70_000, 100_000, 150_000, 200_000, 300_000, 1_000_003];
    for k in 15..=20u32 {
        for d in [-22i64, -21, -20, -19, -17, -16, -12, -11, -6, -5, -1, 0, 1, 5, 6, 11, 19, 20] {
            if k >= 18 && ![-1, 0, 1].contains(&d) {
                continue;
            }
            sizes.push(((1i64 << k) + d) as usize);
        }
    }
    sizes.sort();
    sizes.dedup();
    for n in &sizes {
        push("compress incompressible", Plain::Xs { seed: 1, len: *n }, &VIAS);
        if *n < 140_000 {
            push("compress incompressible", Plain::Xs { seed: 2, len: *n }, &[Via::SCompress, Via::ChangePageContent]);
            push("compress incompressible", Plain::Lcg { seed: 3, len: *n, mask: 0xff }, &[Via::DCompress]);
        }
    }
    // (b) large content whose best zlib form saves about as much as the /Filter entry costs
    // (threshold in Stream::compress: 19): incompressible bytes followed by a run of k bytes
    let bases = [(31u64, 33_000usize), (32, 66_000), (33, 140_000)];
    let ks: Vec<usize> = (0..160).collect();
    let savings: Vec<std::sync::Mutex<Vec<i64>>> = bases.iter().map(|_| std::sync::Mutex::new(vec![0i64; ks.len()])).collect();
    util::par_for(bases.len() * ks.len(), |i| {
        let (bi, k) = (i / ks.len(), ks[i % ks.len()]);
        let p = Plain::XsRun { seed: bases[bi].0, len: bases[bi].1, byte: b'a', run: k }.bytes();
        let z = flate_best_len(&p);
        savings[bi].lock().unwrap()[i % ks.len()] = p.len() as i64 - z as i64;
    });
    let mut threshold_found = 0u64;
    for (bi, (seed, len)) in bases.iter().enumerate() {
        let sv = savings[bi].lock().unwrap().clone();
        for want in 16..=23i64 {
            if let Some(k) = sv.iter().position(|s| *s == want) {
                threshold_found += 1;
                push("compress saving threshold", Plain::XsRun { seed: *seed, len: *len, byte: b'a', run: ks[k] }, &VIAS);
            }
        }
    }
    run.add("compress_threshold_contents_with_saving_16_to_23", threshold_found);
    // (c) highly compressible content of 2^20 .. 2^23 bytes: the compressed form expands by more than
    // 1024:1 when decoded again
    let mut big = vec![m, 2 * m + 1, 4 * m, 5 * m + 7, 8 * m];
    if run.thorough {
        big.extend([16 * m + 1, 64 * m]);
    }
    for n in &big {
        push("compress highly compressible", Plain::Run { byte: 0, len: *n }, &VIAS);
        push("compress highly compressible", Plain::Run { byte: 0xff, len: *n }, &[Via::SCompress, Via::DCompress]);
        push("compress highly compressible", Plain::Period { pat: b"ab".to_vec(), len: *n }, &[Via::DCompress, Via::ChangeContentStream]);
        push("compress highly compressible", Plain::Period { pat: vec![0, 0, 1, 0, 1, 1, 0], len: *n }, &[Via::SCompress, Via::XobjectForm]);
    }
    // (d) ordinary compressible content around the powers of two
    for k in [10u32, 13, 15, 16, 17, 20] {
        for d in [-1i64, 0, 1] {
            let n = ((1i64 << k) + d) as usize;
            push("compress compressible", Plain::Period { pat: b"BT /F1 12 Tf 72 712 Td (Hello) Tj ET\n".to_vec(), len: n }, &VIAS);
            push("compress compressible", Plain::Lcg { seed: 41, len: n, mask: 0x0f }, &[Via::SCompress, Via::DCompress]);
        }
    }
    // (e) a DecodeParms entry without a Filter entry on the stream that gets compressed
    let stales = [
        Stale { predictor: Some(12), columns: 4, early: None, array: false },
        Stale { predictor: Some(15), columns: 1, early: None, array: false },
        Stale { predictor: Some(10), columns: 7, early: None, array: true },
        Stale { predictor: Some(1), columns: 4, early: None, array: false },
        Stale { predictor: None, columns: 1, early: Some(0), array: false },
        Stale { predictor: None, columns: 1, early: None, array: false },
        Stale { predictor: None, columns: 1, early: None, array: true },
    ];
    for st in &stales {
        for pl in [Plain::Period { pat: b"the quick brown fox ".to_vec(), len: 1000 }, Plain::Run { byte: 0, len: 100_000 }, Plain::Xs { seed: 5, len: 300 }, Plain::of(b"")] {
            for v in [Via::SCompress, Via::DCompress] {
                cases.push(CompCase { part: "compress with DecodeParms but no Filter".into(), plain: pl.clone(), via: v, stale: Some(st.clone()) });
            }
        }
    }
    let mut order: Vec<usize> = (0..cases.len()).collect();
    order.sort_by_key(|i| std::cmp::Reverse(cases[*i].plain.len()));
    let applied = AtomicU64::new(0);
    let not_applied = AtomicU64::new(0);
    util::par_for(order.len(), |k| {
        let c = &cases[order[k]];
        run.eval(1);
        if CompCase::from_json(&c.to_json()) != *c {
            machinery(&format!("case descriptor does not survive to_json/from_json: {}", c.to_json()));
        }
        let out = comp_run(c);
        if out.applied {
            applied.fetch_add(1, Ordering::Relaxed);
            run.nontrivial(1);
        } else {
            not_applied.fetch_add(1, Ordering::Relaxed);
        }
        if !out.bad.is_empty() {
            cx.failed.fetch_add(1, Ordering::Relaxed);
            run.fail(classify_comp(c, &out), c.to_json(), &out.bad.join("; "), COMP_EXPECT);
        }
    });
    run.add("compress_cases", cases.len() as u64);
    run.add("compress_cases_where_flatedecode_was_applied", applied.load(Ordering::Relaxed));
    run.add("compress_cases_left_uncompressed", not_applied.load(Ordering::Relaxed));
    run.sample(json!({"part": "9 compress", "case": cases[order[0]].to_json()}));
    run.sample(json!({"part": "9 compress", "case": cases[cases.len() - 1].to_json()}));
}

// ---------------------------------------------------------------------------------------------

fn main() {
    let run = Run::from_args("C09", "exploration");
    util::quiet_panics();
    util::init_pool();
    util::pin_schedule();
    if let Mode::Replay(path) = run.mode.clone() {
        replay(&run, &path);
    }
    match rc::self_test() {
        Ok(n) => run.set("reference_encoder_self_checks", json!(n)),
        Err(e) => machinery(&format!("reference encoder self-test failed: {}", e)),
    }
    run.rule(
        "cases are enumerated without repetition per part (descriptor = part + filter chain + parameters + encoder options + plain bytes): \
         (1) 4 PNG filter types x 6 bytes-per-pixel x 2^24 (left, above, upper-left) triples packed 65,536 to a 2-row frame, through \
         FlateDecode+DecodeParms and through the public png::decode_row; (2) frame geometries x 5^rows filter assignments x Predictor values x \
         dictionary/array parameter form x Flate/LZW carrier; (3) ASCII85 inputs of length 0..3, full groups, z arrangements, white-space \
         positions, missing EOD; (4) LZW strings and long inputs for EarlyChange absent/1/0; (5) Flate stored blocks and flate2 levels; \
         (6) all 40 filter chains (the empty chain and every chain of 1..3 filters); (7) operation sequences; (8) Flate size families: constant runs and short periods of 2^20..2^23 bytes \
         (expansion above 1024:1), output lengths 2^k-1..2^k+1, encoded lengths just below/at/above 2^12..2^20 (plain length found by bisection), \
         every legal zlib header, predictor rows wider than 2^16 bytes; (9) compression through Stream::compress, Document::compress, \
         change_content_stream, change_page_content and xobject::form of incompressible (xorshift64, fixed seeds) content around 2^15..2^20, of \
         content whose best zlib form saves 16..23 bytes, of highly compressible content up to 2^23 bytes, and of streams carrying DecodeParms \
         without Filter. A case is non-trivial when the encoded stream differs from the plain bytes \
         (measured per case); part-7 states are counted separately",
    );
    run.assume("the reference encoders in harness/src/refcodec.rs implement PNG 1.2 §6, ISO 32000-1 §7.4.3/§7.4.4 (TIFF 6.0 §13) and RFC 1950/1951 stored blocks; they are self-tested against fixed vectors from those documents and against reference decoders on every run");
    run.assume("flate2/miniz_oxide's ENCODER (levels 0..9) is a trusted second Flate encoder; its decoder is part of the code under test");
    run.assume("BitsPerComponent is 8 or 16 and Predictor is 1, absent or 10..15 (TIFF predictor 2 is outside the property statement); a multi-filter chain carries parameters only in array form (ISO 32000-1 Table 5)");
    run.assume("input without the ~> marker is outside ISO 32000: for it the check only demands no panic and, if decoding succeeds, the original bytes");
    let cx = Ctx { run: &run, failed: AtomicU64::new(0) };
    let mut timings = serde_json::Map::new();
    let mut timed = |name: &str, f: &dyn Fn(&Ctx)| {
        let t = run.elapsed();
        f(&cx);
        timings.insert(name.to_string(), json!(((run.elapsed() - t) * 100.0).round() / 100.0));
    };
    timed("1_png_triples", &part1_triples);
    timed("2_frames", &part2_frames);
    timed("3_ascii85", &part3_a85);
    timed("4_lzw", &part4_lzw);
    timed("5_flate", &part5_flate);
    timed("6_chains", &part6_chains);
    timed("7_op_sequences", &part7_ops);
    timed("8_flate_sizes", &part8_flate_sizes);
    timed("9_compress_sizes", &part9_compress);
    run.set("part_wall_s", Value::Object(timings));
    run.add("failing_cases_total", cx.failed.load(Ordering::Relaxed));
    // pixel data of the larger frames, the long LZW inputs and the Flate/chain plain texts are fixed
    // menus, so the run as a whole is not an exhaustive enumeration; the complete sub-spaces are:
    let mut complete = vec![
        "part 1: all 2^24 (left, above, upper-left) triples x 4 filter types x 6 bytes-per-pixel, both decode paths",
        "part 2: every 5^n pixel assignment for Colors 1, 8 bit, Columns 1..3, rows 1..2 x every filter assignment",
        "part 3: every ASCII85 input of length 0..3 (16,843,009)",
        "part 4: every string over 3 symbols up to the stated length x EarlyChange absent/1/0",
        "part 6: all 40 chains",
    ];
    if OPEN_FRONTIERS.load(Ordering::Relaxed) == 0 {
        complete.push("part 7: the whole reachable state set (every BFS frontier was empty at the depth bound)");
    }
    if run.thorough {
        complete.push("part 3: all 2^32 full ASCII85 groups");
    }
    run.set("complete_subspaces", json!(complete));
    run.exhaustive(false);
    run.finish();
}

fn replay(run: &Run, path: &std::path::Path) -> ! {
    let case: Value = vharness::run::read_replay(path);
    match case["kind"].as_str() {
        Some("decode") => {
            let c = Case::from_json(&case);
            let a = check_case(&c).0;
            let b = check_case(&c).0;
            if a != b {
                machinery("replay not deterministic");
            }
            println!("observed: {}", a.describe());
            if !a.ok() {
                println!("classified as: {:?}", classify(&c, &a));
            }
            run.finish_replay(!a.ok())
        }
        Some("decode_row") => {
            let r = decode_row_direct(case["filter_type"].as_u64().unwrap_or(0) as u8, case["bpp"].as_u64().unwrap_or(1) as usize, case["ul"].as_u64().unwrap_or(0) as u8);
            println!("observed: {:?} (bytes compared, wrong bytes, first wrong byte not explained by png-avg)", r);
            run.finish_replay(!matches!(r, Ok((_, 0, _))))
        }
        Some("compress") => {
            let c = CompCase::from_json(&case);
            let a = comp_run(&c);
            let b = comp_run(&c);
            if a.bad != b.bad {
                machinery("replay not deterministic");
            }
            if let Some(s) = &a.after {
                println!("after {}: dict={} content.len()={} (plain length {})", c.via.name(), vharness::objjson::show_dict(&s.dict), s.content.len(), c.plain.len());
            }
            println!("observed: {}", if a.bad.is_empty() { "all conditions hold".to_string() } else { a.bad.join("; ") });
            if !a.bad.is_empty() {
                println!("classified as: {:?}", classify_comp(&c, &a));
            }
            run.finish_replay(!a.bad.is_empty())
        }
        Some("ops") => {
            let a = replay_ops(&case);
            let b = replay_ops(&case);
            if a != b {
                machinery("replay not deterministic");
            }
            println!("observed: {}", if a.is_empty() { "all invariants hold along the path".to_string() } else { a.join("; ") });
            run.finish_replay(!a.is_empty())
        }
        _ => machinery("unknown replay kind"),
    }
}
